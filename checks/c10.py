"""C10 — an SST or block returns exactly what was put in, under every cursor movement.

Decided by: theorems of coq/theories/Table/Props_C10.v over the executable model Table/Model*.v
(block builder/cursor, SST builder/cursor/load/metadata, multi-builder, bloom filter), tied to the
code by running the real sst crate (harness c10) and the extracted model (ocaml/table) on the same
generated cases, plus the direct oracle: the specification itself (a sorted Python list with the
reference cursor, the reference point lookup, metadata and setsum computed independently)."""
import hashlib
import json
import os
import re

import vlib

META = {
    "category": "proof",
    "text": "Coq theorems (Table/Props_C10.v, 24 theorems, all closed under the global context) over an executable model of sst/src/block.rs, sst/src/sbbf.rs and the SST layer of sst/src/lib.rs, for all entry sequences, all restart intervals (0 included) / target block sizes / bloom sizes and all finite cursor programs: BlockCursor and SstCursor refine the reference cursor (seek/next/prev through restart points, the reverse cache and block hopping), Block::load and Sst::load return the newest version not newer than the timestamp or its tombstone (bloom filter without false negatives for any hash), Sst::metadata is exact, divide_keys stays in [lhs, rhs) without tripping an assert, builders accept exactly the in-order, in-size input and reject the rest from checks that precede every mutation, the multi-builder's tables concatenate to the accepted input; at the byte level (on top of the Wire area's prototk model, C15): the record / BlockMetadata / frame / final-block bytes of the model are the reference prototk encodings of the shapes declared in sst/src/lib.rs, of the sizes the builders compute with, and decode back; the BYTES a BlockBuilder writes, parsed by Block::new + BlockCursor over raw bytes with prototk's decoder, give the reference cursor's observations and the reference lookup; and the same for whole FILES: for every sequence an SstBuilder accepts, under all options, the bytes seal leaves in the file (data block frames, index block whose BlockMetadata values carry the data blocks' checksums, filter frame, FinalBlock ending in final_block_offset), read with nothing but Sst::from_file_handle (trailing 8 bytes, FinalBlock unpack, position checks, index read-back, data-blocks-before-index check, filter load) and load_block over [start, limit) (frame unpack, checksum comparison, Block::new), give under every cursor program the reference cursor's observations, the reference lookup and exact metadata with file_size = the length of the file (C10_file_cursor_refines / C10_file_load / C10_file_metadata_exact; crc32c any function into u32, the digest any function into 32 bytes); the message shapes are proved equal to the ones regenerated from /repo's derive attributes on every run (C10_shapes_are_source). The model is tied to the code by 3-way differential runs (Rust vs extracted model vs the specification computed in Python), with byte-for-byte comparison of sealed blocks, of file sizes and of file counts, and at the file level: the extracted byte-level reader runs on the bytes of the files the implementation wrote (same observations, metadata and lookups as the real cursor) and the extracted writer reproduces those files byte for byte (native CRC-32C, SHA3 setsum from the specification).",
    "note": "Trusted: Coq kernel; tools/constants.py; ExtrOcamlBasic extraction + ocaml/table driver; harness c10; record sizes / BlockMetadata codec / item hash enter the theorems as section variables with stated hypotheses (positive and bounded size, decode(encode)=id, short encoding), proved for the prototk instance on the u64 range; the block layer and the SST layer are proved down to raw file bytes (message shapes proved equal to Gen/Shapes_sst.v, regenerated from the derive attributes by tools/shapes.py; blocks and whole files are compared byte for byte with the implementation's on every run); CRC32C is an arbitrary function into u32 (the OCaml driver supplies a table-driven CRC-32C, validated by the byte comparison of the files), SipHash and SHA3 are arbitrary functions (the digest is an input of the model's writer); table-full (1 GiB) is covered by the theorems only. Models the repaired code: fix: 23addcc (empty block/SST), a9a83c0 (restart interval 0), de09506 (multi-builder sort order across cuts).",
}

PROPS = "theories/Table/Props_C10.v"
MODULE = "Table.Props_C10"
U64 = 2 ** 64 - 1


# ---------------------------------------------------------------- specification (direct oracle)
def kref_lt(a, b):
    """KeyRef order: key ascending, timestamp descending"""
    return a[0] < b[0] or (a[0] == b[0] and a[1] > b[1])


def hexs(b):
    return b.hex()


def show(e):
    k, ts, v = e
    return "%s@%d~" % (hexs(k), ts) if v is None else "%s@%d=%s" % (hexs(k), ts, hexs(v))


class Spec:
    def __init__(self, consts, primes):
        self.max_key = consts["MAX_KEY_LEN"]
        self.max_val = consts["MAX_VALUE_LEN"]
        self.primes = primes

    def accept(self, inputs):
        """(accepted entries, rejection tokens).  An entry is accepted iff its sizes are within
        the limits and it is strictly above the last accepted entry; the least KeyRef of all,
        (empty key, u64::MAX), is the builders' initial `last` and therefore not storable."""
        acc, rej, last = [], [], (b"", U64)
        for i, e in enumerate(inputs):
            k, ts, v = e
            if len(k) > self.max_key:
                rej.append("rej%d:key-too-large" % i)
            elif v is not None and len(v) > self.max_val:
                rej.append("rej%d:value-too-large" % i)
            elif not kref_lt(last, (k, ts)):
                rej.append("rej%d:sort-order" % i)
            else:
                acc.append(e)
                last = (k, ts)
        return acc, rej

    def run_prog(self, es, prog):
        out, i = [], -1
        n = len(es)
        for t in prog:
            if t[0] == "G":
                k, ts = t[1], t[2]
                r = "get:-"
                for e in es:
                    if e[0] == k and e[1] <= ts:
                        r = "get:~" if e[2] is None else "get:" + hexs(e[2])
                        break
                out.append(r)
                continue
            if t[0] == "F":
                i = -1
            elif t[0] == "E":
                i = n
            elif t[0] == "N":
                i = min(i + 1, n)
            elif t[0] == "V":
                i = max(i - 1, -1)
            elif t[0] == "S":
                i = sum(1 for e in es if e[0] < t[1])
            out.append(show(es[i]) if 0 <= i < n else "-")
        return out

    def setsum(self, es):
        cols = [0] * 8
        for k, ts, v in es:
            item = (b"\x09" + k + ts.to_bytes(8, "little")) if v is None else (b"\x08" + k + ts.to_bytes(8, "little") + v)
            d = hashlib.sha3_256(item).digest()
            for c in range(8):
                w = int.from_bytes(d[4 * c:4 * c + 4], "little")
                cols[c] = (cols[c] + w) % self.primes[c]
        return b"".join(c.to_bytes(4, "little") for c in cols).hex()

    def meta(self, es):
        """first:last:smallest:biggest:setsum of a table holding es"""
        if es:
            return "%s:%s:%d:%d:%s" % (hexs(es[0][0]), hexs(es[-1][0]), min(e[1] for e in es), max(e[1] for e in es), self.setsum(es))
        return ":%s:0:0:%s" % ("ff" * 11, self.setsum([]))


# ---------------------------------------------------------------- SipHash-2-4 (for the model's filter)
def siphash24(key16, data):
    M = (1 << 64) - 1
    k0 = int.from_bytes(key16[:8], "little")
    k1 = int.from_bytes(key16[8:], "little")
    v = [k0 ^ 0x736f6d6570736575, k1 ^ 0x646f72616e646f6d, k0 ^ 0x6c7967656e657261, k1 ^ 0x7465646279746573]

    def rotl(x, b):
        return ((x << b) | (x >> (64 - b))) & M

    def rnd():
        v[0] = (v[0] + v[1]) & M; v[1] = rotl(v[1], 13); v[1] ^= v[0]; v[0] = rotl(v[0], 32)
        v[2] = (v[2] + v[3]) & M; v[3] = rotl(v[3], 16); v[3] ^= v[2]
        v[0] = (v[0] + v[3]) & M; v[3] = rotl(v[3], 21); v[3] ^= v[0]
        v[2] = (v[2] + v[1]) & M; v[1] = rotl(v[1], 17); v[1] ^= v[2]; v[2] = rotl(v[2], 32)

    n = len(data)
    for i in range(0, n - n % 8, 8):
        m = int.from_bytes(data[i:i + 8], "little")
        v[3] ^= m; rnd(); rnd(); v[0] ^= m
    m = int.from_bytes(data[n - n % 8:] + b"\x00" * (7 - n % 8) + bytes([n & 0xff]), "little")
    v[3] ^= m; rnd(); rnd(); v[0] ^= m
    v[2] ^= 0xff
    rnd(); rnd(); rnd(); rnd()
    return v[0] ^ v[1] ^ v[2] ^ v[3]


# ---------------------------------------------------------------- sizes (to aim at boundaries)
def varint_size(n):
    return max(1, (n.bit_length() + 6) // 7)


def enc_size(shared, frag_len, ts, val_len):
    body = 1 + varint_size(shared) + 1 + varint_size(frag_len) + frag_len + 1 + varint_size(ts)
    if val_len is not None:
        body += 1 + varint_size(val_len) + val_len
    return 1 + varint_size(body) + body


def plain_sizes(es):
    """record sizes if nothing were prefix-compressed (an aiming aid, not an oracle)"""
    return [enc_size(0, len(k), ts, None if v is None else len(v)) for k, ts, v in es]


# ---------------------------------------------------------------- generator
TS_POOL = [0, 1, 2, 3, 127, 128, 255, 256, 16383, 16384, 2 ** 32 - 1, 2 ** 32, 2 ** 63, U64 - 1, U64]
BRI = [0, 1, 2, 3, 16, 17, 33, 64, 1024, 2 ** 32 - 1]
KRI = [0, 1, 1, 2, 3, 4, 16, 2 ** 32 - 1]
TBS = [0, 1, 10, 30, 50, 64, 100, 200, 4096]


def gen_keys(rng, stats, big):
    """a set of keys from an adversarial grammar"""
    keys = set()
    atoms = [b"", b"\x00", b"\x01", b"a", b"b", b"\xfe", b"\xff"]
    n = rng.choice([0, 1, 1, 2, 3, 4, 6, 8, 12, 20])
    style = rng.below(6)
    base = rng.bytes(rng.choice([0, 1, 3, 8, 40, 130]))
    tries = 0
    while len(keys) < n and tries < 4 * n + 8:
        tries += 1
        s = rng.below(8) if style == 0 else style
        if s == 1:      # prefixes of each other
            k = base + rng.choice(atoms) * rng.below(4)
            keys.add(k)
            keys.add(k + rng.choice([b"\x00", b"\xff", b"\x00\x00"]))
        elif s == 2:    # adjacent in the last byte
            k = base + bytes([rng.choice([0, 1, 0x60, 0xfd, 0xfe])])
            keys.add(k)
            keys.add(k[:-1] + bytes([k[-1] + 1]))
            if rng.chance(1, 2) and k[-1] + 2 < 256:
                keys.add(k[:-1] + bytes([k[-1] + 2]))
        elif s == 3:    # atoms and the empty key
            keys.add(rng.choice(atoms) + rng.choice(atoms))
            if rng.chance(1, 3):
                keys.add(b"")
        elif s == 4:    # long shared prefix
            keys.add(base + rng.bytes(rng.below(3)))
        elif s == 5:    # 0xff runs (carry for dividing keys)
            keys.add(base[:2] + b"\xff" * rng.below(4) + rng.choice([b"", b"\x00", b"\xfe"]))
        else:
            keys.add(rng.bytes(rng.range(0, 6)))
    if big and rng.chance(1, 2):
        keys.add(bytes([rng.choice([0x61, 0xff])]) * 16384)
        stats["max_size_key"] += 1
    return sorted(keys)


def gen_entries(rng, stats, big=False):
    es = []
    tomb_run = rng.chance(1, 5)
    for k in gen_keys(rng, stats, big):
        nv = rng.choice([1, 1, 1, 2, 3, 5])
        tss = set()
        while len(tss) < nv:
            tss.add(rng.choice(TS_POOL) if rng.chance(2, 3) else rng.below(2 ** 64))
        if len(tss) > 1:
            stats["multi_version_keys"] += 1
        for ts in sorted(tss, reverse=True):
            if tomb_run or rng.chance(1, 4):
                v = None
                stats["tombstones"] += 1
            else:
                v = rng.bytes(rng.choice([0, 0, 1, 2, 7, 30, 100]))
                if big and rng.chance(1, 30):
                    v = bytes([rng.below(256)]) * 32768
                    stats["max_size_value"] += 1
            es.append((k, ts, v))
    if es and es[0][0] == b"" and es[0][1] == U64:
        stats["least_keyref_first"] += 1
    return es


def perturb(rng, es, stats):
    """inputs a builder must reject: out of order, duplicates, oversize (the builder is used further)"""
    es = list(es)
    kind = rng.below(5)
    if kind == 0 and es:
        i = rng.below(len(es))
        es.insert(rng.range(i, len(es)), es[i])          # duplicate / earlier entry again
        stats["perturb_dup"] += 1
    elif kind == 1 and len(es) >= 2:
        i, j = rng.below(len(es)), rng.below(len(es))
        es[i], es[j] = es[j], es[i]
        stats["perturb_swap"] += 1
    elif kind == 2:
        k = ("*16385:%02x" % rng.choice([0x00, 0x61, 0xff]))
        es.insert(rng.below(len(es) + 1), (k, rng.choice(TS_POOL), b"x"))
        stats["perturb_bigkey"] += 1
    elif kind == 3:
        i = rng.below(len(es) + 1)
        k = es[i][0] if i < len(es) else b"\xff\xff\xff\xff"
        es.insert(i, (k, U64, "*32769:%02x" % rng.below(256)))
        stats["perturb_bigval"] += 1
    elif kind == 4 and es:
        i = rng.below(len(es))
        k, ts, v = es[i]
        es.insert(i + 1, (k, min(U64, ts + rng.choice([0, 1, 5])), v))    # same key, not older
        stats["perturb_ts"] += 1
    return es


def seek_keys(rng, es):
    ks = [b"", b"\x00", b"\xff", b"\xff" * 12]
    for k, _, _ in es:
        ks.append(k)
        ks.append(k + b"\x00")
        if k:
            ks.append(k[:-1])
            ks.append(k[:-1] + bytes([(k[-1] + 1) & 0xff]))
            ks.append(k[:-1] + bytes([(k[-1] - 1) & 0xff]))
    return ks


def gen_prog(rng, es, stats, maxlen):
    ks = seek_keys(rng, [e for e in es if isinstance(e[0], bytes)])
    prog = []
    n = rng.range(1, maxlen)
    mode = rng.below(4)
    for _ in range(n):
        r = rng.below(100)
        if mode == 1 and r < 70:       # zig-zag
            t = ("N",) if rng.chance(1, 2) else ("V",)
        elif r < 28:
            t = ("N",)
        elif r < 56:
            t = ("V",)
        elif r < 76:
            t = ("S", rng.choice(ks))
        elif r < 81:
            t = ("F",)
        elif r < 86:
            t = ("E",)
        else:
            k = rng.choice(ks)
            vs = [e[1] for e in es if e[0] == k]
            ts = rng.choice(TS_POOL)
            if vs and rng.chance(3, 4):
                ts = max(0, min(U64, rng.choice(vs) + rng.choice([-1, 0, 0, 1])))
            t = ("G", k, ts)
        prog.append(t)
        stats["op_" + t[0]] += 1
    return prog


def fmt_bytes(b):
    return b if isinstance(b, str) else b.hex()


def fmt_entry(e):
    k, ts, v = e
    if v is None:
        return "%s@%d~" % (fmt_bytes(k), ts)
    return "%s@%d=%s" % (fmt_bytes(k), ts, fmt_bytes(v))


def fmt_prog(prog):
    out = []
    for t in prog:
        if t[0] == "S":
            out.append("S:" + t[1].hex())
        elif t[0] == "G":
            out.append("G:%s:%d" % (t[1].hex(), t[2]))
        else:
            out.append(t[0])
    return " ".join(out)


def real_entry(e):
    """expand the *LEN:BYTE notation"""
    def ex(x):
        if isinstance(x, str):
            n, b = x[1:].split(":")
            return bytes([int(b, 16)]) * int(n)
        return x
    k, ts, v = e
    return (ex(k), ts, None if v is None else ex(v))


def aim(rng, sizes, pool):
    """an option value equal to a cumulative record size +-1, or one from the pool"""
    if sizes and rng.chance(1, 2):
        j = rng.range(1, len(sizes))
        return max(0, sum(sizes[:j]) + rng.choice([-1, 0, 0, 1]))
    return rng.choice(pool)


def gen_case(rng, stats, sip_key):
    """returns dict: kind, impl line, model line, inputs (real bytes), prog, opts"""
    kind = rng.choice(["B", "B", "B", "S", "S", "S", "S", "M"])
    big = rng.chance(1, 60)
    es = gen_entries(rng, stats, big)
    sizes = plain_sizes(es)
    inputs = es
    if rng.chance(1, 4):
        inputs = perturb(rng, es, stats)
    bri = aim(rng, sizes, BRI)
    kri = rng.choice(KRI)
    stats["kind_" + kind] += 1
    if kind == "M":
        hints = []
        for e in inputs:
            if rng.chance(1, 5):
                hints.append("H")
            hints.append(fmt_entry(e))
        if rng.chance(1, 3):
            hints.append("H")
        tbs = rng.choice(TBS)
        tfs = rng.choice([0, 100, 200, 300, 400, 600, 1000, 4096, 1 << 26])
        mfs = rng.choice([0, 100, 200, 300, 500, 4096, 1 << 22])
        head = "M %d %d %d %d %d" % (bri, kri, tbs, tfs, mfs)
        ents, prog = " ".join(hints), []
    else:
        prog = gen_prog(rng, inputs, stats, 40)
        ents = " ".join(fmt_entry(e) for e in inputs)
        if kind == "B":
            head = "B %d %d" % (min(bri, 2 ** 32 - 1), kri)
        else:
            tbs = aim(rng, [s + 0 for s in sizes], TBS)
            head = "S %d %d %d %d" % (min(bri, 2 ** 32 - 1), kri, tbs, rng.choice([0, 1, 10, 17, 17, 255]))
    line = "%s | %s | %s" % (head, ents, fmt_prog(prog))
    rinputs = [real_entry(e) for e in inputs]
    sips = ""
    if kind != "B":
        seen = {}
        for e in rinputs:
            seen[e[0]] = 1
        for t in prog:
            if t[0] == "G":
                seen[t[1]] = 1
        sips = " ".join("%s:%d" % (k.hex(), siphash24(sip_key, k)) for k in seen if len(k) <= 16384)
    return {"kind": kind, "impl": line, "model": line + " | " + sips, "inputs": rinputs, "prog": prog, "head": head}


# ---------------------------------------------------------------- expected output of the specification
def spec_tokens(spec, case):
    """tokens the property demands, with `?` where the specification does not fix a value
    (block bytes, file sizes, number of files)"""
    acc, rej = spec.accept(case["inputs"])
    if case["kind"] == "B":
        return rej + ["seal:ok", "bytes:?"] + spec.run_prog(acc, case["prog"]), acc
    if case["kind"] == "S":
        return rej + ["seal:ok", "meta:" + spec.meta(acc) + ":?", "f:?"] + spec.run_prog(acc, case["prog"]), acc
    return rej + ["seal:ok", "files:?"], acc


def parse_entry_tok(t):
    k, r = t.split("@")
    if r.endswith("~"):
        return (bytes.fromhex(k), int(r[:-1]), None)
    ts, v = r.split("=")
    return (bytes.fromhex(k), int(ts), bytes.fromhex(v))


def check_multi(spec, toks, acc):
    """M cases: toks after files:K are  meta:... [ e e ] ...;  the concatenation of the files is
    the accepted input and every file's metadata describes its contents.  Returns error or None."""
    if not toks or not toks[0].startswith("files:"):
        return "no files: token"
    k = int(toks[0][6:])
    i, files = 1, []
    while i < len(toks):
        if not toks[i].startswith("meta:"):
            return "expected meta: at %d" % i
        m = toks[i]
        if i + 1 >= len(toks) or toks[i + 1] != "[":
            return "expected [ after meta"
        j = i + 2
        es = []
        while j < len(toks) and toks[j] != "]":
            if toks[j].startswith("ERR") or toks[j] == "RUNAWAY":
                return "enumeration failed: " + toks[j]
            es.append(parse_entry_tok(toks[j]))
            j += 1
        files.append((m, es))
        i = j + 1
    if len(files) != k:
        return "files:%d but %d listed" % (k, len(files))
    allv = [e for _, es in files for e in es]
    if allv != acc:
        return "concatenation of the files differs from the accepted input"
    for m, es in files:
        want = "meta:" + spec.meta(es)
        if not m.startswith(want + ":"):
            return "metadata %s does not describe contents (want %s)" % (m[:120], want[:120])
    return None


def canon_meta(tok):
    """meta token without the setsum field (the model prints #n there)"""
    p = tok.split(":")
    if len(p) == 7:
        return ":".join(p[:5] + p[6:]), p[5]
    return tok, None


def compare_spec(spec, case, impl_toks):
    """impl vs specification.  Returns None or a description."""
    want, acc = spec_tokens(spec, case)
    if "PANIC" in impl_toks:
        return "panic"
    for t in impl_toks:
        if t.startswith("FILELEN-MISMATCH"):
            return "metadata().file_size differs from the length of the file: " + t
    if case["kind"] == "M":
        nrej = len([t for t in want if t.startswith("rej")])
        if impl_toks[:nrej + 1] != want[:nrej + 1]:
            return "rejections/seal differ: got %s want %s" % (impl_toks[:nrej + 1], want[:nrej + 1])
        return check_multi(spec, impl_toks[nrej + 1:], acc)
    if len(impl_toks) != len(want):
        return "token count %d, specification %d" % (len(impl_toks), len(want))
    for a, b in zip(impl_toks, want):
        if b.endswith("?"):
            if not a.startswith(b[:-1]):
                return "got %s want %s" % (a[:200], b[:200])
        elif a != b:
            return "got %s want %s" % (a[:200], b[:200])
    return None


def parse_sst_file(b):
    """frames of an SST file: [(tag, payload)] up to the final block; raises on a malformed layout"""
    final_off = int.from_bytes(b[-8:], "little")
    pos, frames = 0, []
    while pos < final_off:
        tag = b[pos]
        pos += 1
        n, shift = 0, 0
        while True:
            x = b[pos]
            pos += 1
            n |= (x & 0x7f) << shift
            shift += 7
            if x < 0x80:
                break
        frames.append((tag, b[pos:pos + n]))
        pos += n
    if pos != final_off:
        raise ValueError("frames end at %d, final block at %d" % (pos, final_off))
    return frames


def compare_file(impl_tok, model_tok, stats):
    """the file the implementation wrote against the model: frame layout (data blocks, index
    block, filter block, final block) and the bytes of the bloom filter"""
    if impl_tok == "f:-":
        return None
    try:
        frames = parse_sst_file(bytes.fromhex(impl_tok[2:]))
    except (ValueError, IndexError) as ex:
        return "file layout: %s" % ex
    tags = [t for t, _ in frames]
    if len(tags) < 2 or tags[-1] != 106 or any(t != 82 for t in tags[:-1]):
        return "file layout: frame tags %s" % tags
    stats["files_parsed"] = stats.get("files_parsed", 0) + 1
    if frames[-1][1].hex() != model_tok[2:]:
        return "bloom filter bytes differ: impl %s model %s" % (frames[-1][1].hex()[:80], model_tok[2:82])
    return None


FILE_STATS = {}


def compare_model(case, impl_toks, model_toks):
    """impl vs model, everything except the setsum digest"""
    if len(impl_toks) != len(model_toks):
        return "token count impl %d model %d" % (len(impl_toks), len(model_toks))
    for a, b in zip(impl_toks, model_toks):
        if a.startswith("f:") and b.startswith("f:"):
            e = compare_file(a, b, FILE_STATS)
            if e:
                return e
            continue
        if a.startswith("meta:") and b.startswith("meta:"):
            ca, _ = canon_meta(a)
            cb, _ = canon_meta(b)
            if ca != cb:
                return "impl %s model %s" % (a[:200], b[:200])
        elif a != b:
            return "impl %s model %s" % (a[:160], b[:160])
    return None


# ---------------------------------------------------------------- exhaustive small scope (thorough)
def exhaustive_cases(sip_key):
    """every program of length <= 5 over {F,E,N,V,S:k1,S:k2} on a few small tables, three option sets"""
    import itertools
    tables = [
        [],
        [(b"a", 5, b"x")],
        [(b"a", 5, b"x"), (b"a", 3, None), (b"b", 9, b"")],
        [(b"", 7, None), (b"\x00", 1, b"z"), (b"\x00\x00", 1, b"z"), (b"\xff", 0, None)],
    ]
    out = []
    for es in tables:
        ops = [("F",), ("E",), ("N",), ("V",), ("S", b"a"), ("S", b"\x00\x01")]
        for n in range(1, 6):
            for prog in itertools.product(ops, repeat=n):
                for head in ["B 1 1", "B 1024 16", "S 1 2 1 17"]:
                    line = "%s | %s | %s" % (head, " ".join(fmt_entry(e) for e in es), fmt_prog(prog))
                    sips = " ".join("%s:%d" % (k.hex(), siphash24(sip_key, k)) for k in {e[0] for e in es})
                    out.append({"kind": head[0], "impl": line, "model": line + " | " + sips, "inputs": es, "prog": list(prog), "head": head})
    return out


# ---------------------------------------------------------------- plumbing
def run_lines(exe, lines, workdir, tag, env=None, nproc=1):
    """run `exe` over the lines (one case per line, one output line per case); with nproc > 1 the
    lines are split into contiguous chunks processed concurrently (order is preserved)"""
    import subprocess
    nproc = max(1, min(nproc, len(lines) // 200 + 1))
    size = (len(lines) + nproc - 1) // nproc
    procs = []
    for k in range(nproc):
        chunk = lines[k * size:(k + 1) * size]
        pin = os.path.join(workdir, "%s.%d.in" % (tag, k))
        pout = os.path.join(workdir, "%s.%d.out" % (tag, k))
        with open(pin, "w") as fh:
            fh.write("\n".join(chunk) + ("\n" if chunk else ""))
        e = dict(os.environ)
        if env:
            e.update(env)
        p = subprocess.Popen("ulimit -s unlimited 2>/dev/null; %s < %s > %s 2>&1" % (exe, pin, pout), shell=True, env=e)
        procs.append((p, pout, len(chunk)))
    res, rc = [], 0
    for p, pout, n in procs:
        try:
            r = p.wait(timeout=3000)
        except subprocess.TimeoutExpired:
            p.kill()
            r = 124
        rc = rc or r
        with open(pout) as fh:
            out = fh.read().split("\n")
        if out and out[-1] == "":
            out.pop()
        res.extend(out)
    return rc, res


def parse_case_line(line):
    """a corpus / replay line -> case dict (inputs and prog parsed back from the text)"""
    parts = line.split("|")
    head = parts[0].split()
    inputs = []
    for t in parts[1].split():
        if t == "H":
            continue
        k, r = t.split("@")
        if r.endswith("~"):
            e = (k, int(r[:-1]), None)
        else:
            ts, v = r.split("=")
            e = (k, int(ts), v)
        e = tuple(x if not isinstance(x, str) else (x if x.startswith("*") else bytes.fromhex(x)) for x in e)
        inputs.append(real_entry(e))
    prog = []
    for t in parts[2].split():
        if t.startswith("S:"):
            prog.append(("S", bytes.fromhex(t[2:])))
        elif t.startswith("G:"):
            _, k, ts = t.split(":")
            prog.append(("G", bytes.fromhex(k), int(ts)))
        else:
            prog.append((t,))
    return {"kind": head[0], "impl": line.strip(), "inputs": inputs, "prog": prog, "head": " ".join(head)}


def with_sips(case, sip_key):
    seen = {}
    for e in case["inputs"]:
        seen[e[0]] = 1
    for t in case["prog"]:
        if t[0] == "G":
            seen[t[1]] = 1
    case["model"] = case["impl"] + " | " + " ".join("%s:%d" % (k.hex(), siphash24(sip_key, k)) for k in seen if len(k) <= 16384)
    return case


def load_corpus(sip_key):
    d = os.path.join(vlib.VERIF, "corpus", "C10")
    cases = []
    if os.path.isdir(d):
        for fn in sorted(os.listdir(d)):
            if fn.endswith(".json"):
                with open(os.path.join(d, fn)) as fh:
                    c = json.load(fh)
                case = with_sips(parse_case_line(c["case"]), sip_key)
                case["tag"] = "corpus:" + fn
                cases.append(case)
    return cases


def consts_json(area):
    rc, out = vlib.sh(["python3", os.path.join(vlib.VERIF, "tools", "constants.py"), area, "--json"])
    return json.loads(out.strip().splitlines()[-1])[area]


def run(chk):
    ok_proof, info = vlib.proof_stage(chk, PROPS, MODULE, const_areas=("Table", "Wire"), pins_rel="pins/C10.v")
    tconsts = consts_json("Table")
    primes = consts_json("Setsum")["SETSUM_PRIMES"]
    sip_key = bytes(tconsts["SBBF_KEY"])
    spec = Spec(tconsts, primes)

    okx, outx = vlib.coq_make(["theories/Table/Extract.vo"])
    okm, outm, mx = vlib.ocaml_build("table", "mx_table")
    okh, outh, (hxbin,) = vlib.cargo_build(["c10"])
    if not (okx and okm):
        raise RuntimeError("model build failed:\n" + outx[-1500:] + outm[-1500:])
    if not okh:
        raise RuntimeError("harness build failed (does /repo still compile?):\n" + outh[-3000:])

    rng = vlib.Rng(chk.seed * 1000003 + 10)
    keys = ["kind_B", "kind_S", "kind_M", "multi_version_keys", "tombstones", "max_size_key", "max_size_value",
            "least_keyref_first", "perturb_dup", "perturb_swap", "perturb_bigkey", "perturb_bigval", "perturb_ts",
            "op_N", "op_V", "op_S", "op_F", "op_E", "op_G"]
    stats = {k: 0 for k in keys}
    n = 6000 if chk.tier == "quick" else 300000
    cases = load_corpus(sip_key)
    ncorpus = len(cases)
    exhaustive = 0
    if chk.tier != "quick":
        ex = exhaustive_cases(sip_key)
        for i, c in enumerate(ex):
            c["tag"] = "exh%d" % i
        exhaustive = len(ex)
        cases += ex
    for k in range(n):
        c = gen_case(rng, stats, sip_key)
        c["tag"] = "gen%d" % k
        cases.append(c)

    npar = max(1, min(12, (vlib.NCPU or 2) - 2))
    rc1, impl_out = run_lines(hxbin, [c["impl"] for c in cases], chk.work, "impl", nproc=npar)
    rc2, model_out = run_lines(mx, [c["model"] for c in cases], chk.work, "model", nproc=npar)
    if len(impl_out) != len(cases) or len(model_out) != len(cases):
        raise RuntimeError("output line count mismatch impl=%d model=%d cases=%d (rc %d %d)" % (len(impl_out), len(model_out), len(cases), rc1, rc2))

    distinct = set()
    prop_bad, corr_bad, model_spec_bad = [], [], []
    rej_kinds = {}
    nentries, nblocks_multi = 0, 0
    for c, io, mo in zip(cases, impl_out, model_out):
        it, mt = io.split(), mo.split()
        for t in it:
            if t.startswith("rej"):
                kd = t.split(":", 1)[1]
                rej_kinds[kd] = rej_kinds.get(kd, 0) + 1
        nentries += len(c["inputs"])
        if len(c["inputs"]) >= 2 and (len(c["prog"]) >= 3 or c["kind"] == "M"):
            distinct.add(c["impl"])
        e1 = compare_spec(spec, c, it)
        if e1:
            prop_bad.append({"tag": c["tag"], "case": c["impl"], "why": e1, "impl_out": io[:4000], "model_out": mo[:4000]})
            continue
        e2 = compare_model(c, it, mt)
        if e2:
            corr_bad.append({"tag": c["tag"], "case": c["impl"], "why": e2, "impl_out": io[:4000], "model_out": mo[:4000]})
        # the model against the specification (re-checks the theorems on samples; extraction slips)
        acc_n = len(spec.accept(c["inputs"])[0])
        e3 = None
        if c["kind"] == "S":
            mt2 = []
            for t in mt:
                m = re.match(r"^(meta:[^:]*:[^:]*:\d+:\d+:)#(\d+)(:\d+)$", t)
                if m:
                    if int(m.group(2)) != acc_n:
                        e3 = "model setsum covers %s items, accepted %d" % (m.group(2), acc_n)
                    t = m.group(1) + spec.setsum(spec.accept(c["inputs"])[0]) + m.group(3)
                mt2.append(t)
            e3 = e3 or compare_spec(spec, c, mt2)
        elif c["kind"] == "B":
            e3 = compare_spec(spec, c, mt)
        if e3:
            model_spec_bad.append({"tag": c["tag"], "case": c["impl"], "why": e3, "model_out": mo[:4000]})

    # ---- second pass, file level: the byte-level reader of the model (Sst::from_file_handle,
    # SstCursor, Sst::load, Sst::metadata over FILE BYTES, Table/ModelFile.v) on the bytes of the
    # file the IMPLEMENTATION wrote, against the implementation's own observations; and the file
    # the model's builder writes (sst_bytes, with a native CRC-32C and the specification's setsum
    # digest) against the implementation's file, byte for byte
    fcases = []
    for c, io in zip(cases, impl_out):
        if c["kind"] != "S":
            continue
        it = io.split()
        fi = [i for i, t in enumerate(it) if t.startswith("f:")]
        if not fi or it[fi[0]] == "f:-" or fi[0] < 2 or it[fi[0] - 2] != "seal:ok":
            continue
        acc = spec.accept(c["inputs"])[0]
        line = "R" + c["model"][1:] + " | " + it[fi[0]][2:] + " | " + spec.setsum(acc)
        fcases.append((c, it[fi[0] - 1], it[fi[0] + 1:], line))
    file_bad = []
    if fcases:
        rc3, file_out = run_lines(mx, [x[3] for x in fcases], chk.work, "file", nproc=npar)
        if len(file_out) != len(fcases):
            raise RuntimeError("file pass: output line count %d, cases %d (rc %d)" % (len(file_out), len(fcases), rc3))
        for (c, meta_tok, outs, line), fo in zip(fcases, file_out):
            ft = fo.split()
            why = None
            if not ft or ft[0] != "wr:ok":
                why = "the file the model's builder writes differs from the implementation's: %s" % (ft[:1],)
            elif len(ft) < 2 or ft[1] != meta_tok:
                why = "metadata read from the file bytes: model %s impl %s" % (ft[1:2], meta_tok[:200])
            elif ft[2:] != outs:
                k = next((i for i, (a, b) in enumerate(zip(ft[2:], outs)) if a != b), min(len(ft) - 2, len(outs)))
                why = "observation %d over the file bytes: model %s impl %s" % (k, ft[2 + k:3 + k], outs[k:k + 1])
            if why:
                file_bad.append({"tag": c["tag"], "case": c["impl"], "why": why, "impl_out": " ".join([meta_tok] + outs)[:3000], "model_out": fo[:3000]})
    corr_bad += file_bad

    gen0 = ncorpus + exhaustive
    chk.coverage.update({
        "evaluations": len(cases), "distinct_nontrivial": len(distinct),
        "rule": "cases = (builder kind B/S/M, options, entry inputs, cursor program) from one SplitMix64 seed; keys from an adversarial grammar (prefix chains, adjacent last bytes, empty key, 0xff runs, long shared prefixes, max-size keys/values), 1-5 versions per key at boundary timestamps, tombstone runs, inputs a builder must reject (duplicates, swaps, same key not older, oversize key/value); restart interval in bytes aimed at cumulative record sizes +-1, pairs interval in {0,1,2,3,4,16,max}, target block size aimed at cumulative sizes +-1 or {0..4096}; programs of up to 40 calls of seek_to_first/seek_to_last/seek/next/prev and timestamped loads, zig-zag biased; non-trivial = at least 2 entries and (at least 3 calls or a multi-builder case); distinct = distinct case lines",
        "samples": [cases[gen0][("impl")][:500], cases[-1]["impl"][:500]],
        "input_distribution": dict(stats, entries_total=nentries, rejections=rej_kinds),
        "corpus_cases": ncorpus, "exhaustive_small_scope_cases": exhaustive, "exhaustive": bool(exhaustive),
        "files_parsed_and_filter_compared": FILE_STATS.get("files_parsed", 0),
        "files_read_by_model_byte_reader_and_written_byte_for_byte": len(fcases),
        "disagreements_file_level": len(file_bad),
        "correspondence": "impl (Rust sst crate, release + overflow-checks + debug-assertions) vs extracted Coq model (block bytes, file sizes, file counts, frame layout and bloom filter bytes of files up to 4 KiB, every observation) vs the specification in Python (reference cursor, lookup, metadata, setsum via hashlib SHA3-256), 3-way",
        "disagreements_impl_vs_spec": len(prop_bad), "disagreements_impl_vs_model": len(corr_bad),
        "disagreements_model_vs_spec": len(model_spec_bad),
        "trusted_base": [
            "Coq 8.16.1 kernel (coqc, full .vo build)",
            "tools/constants.py (MAX_KEY_LEN, MAX_VALUE_LEN, TABLE_FULL_SIZE, BLOCK_METADATA_MAX_SZ, bloom SALT/KEY re-extracted from sst/src on every run); MAX_KEY and FINAL_BLOCK_MAX_SZ are retyped in ModelSst.v (the translator cannot read them) and are exercised by the file-size / approximate-size comparison",
            "extraction via ExtrOcamlBasic (no Extract Constant of ours) + ocaml/table/mx_table.ml driver",
            "harness/src/bin/c10.rs; the Python specification in checks/c10.py; hashlib SHA3-256; a Python SipHash-2-4 (feeds the model's filter; validated on every run by the byte comparison of the filter blocks)",
            "record size enc_size, BlockMetadata codec and the item hash are section variables; theorems assume positivity of enc_size and decode(encode)=id of the metadata codec; the file-level theorems are for the real record size and the prototk BlockMetadata codec, with CRC32C any function into u32 and the setsum digest any function into 32 bytes; SipHash is an arbitrary function",
            "ocaml/table/mx_table.ml's CRC-32C (Castagnoli, table driven) and hex plumbing of the file pass; the Wire area's prototk model (C15) under the byte-level theorems",
        ],
    })
    chk.assumptions = [
        "enc_size (byte length of a KeyValueEntry record) is positive (and, for the acceptance theorems, bounded on records made from checked entries); proved for the prototk arithmetic (C10_real_instance_ok), which is compared byte for byte with the implementation",
        "meta_dec (meta_enc s l) = Some (s, l) for the BlockMetadata codec: proved for the prototk codec on offsets below 2^64 (C10_real_instance_ok); byte offsets in a table are below 2^31",
        "keys are byte strings (every element < 256) and timestamps fit a u64 where the theorems say keys_ok / ts_ok",
        "crc32c returns a u32 and the setsum digest is 32 bytes (crc_u32 / digest_32 in the file-level theorems): the builder writes crc32c(payload) and the reader compares, nothing else is assumed (damage is C09's subject); SipHash-2-4 is an arbitrary function",
        "file-level theorems: entries are byte strings with u64 timestamps (entries_wire_ok)",
        "table-full (approximate size >= 1 GiB - 64 MiB) is covered by the theorems only; the correspondence cannot reach it",
    ]

    if prop_bad:
        b = prop_bad[0]
        chk.violation("c10_%s.json" % b["tag"].replace(":", "_").replace(".json", ""), {
            "kind": "property", "what": "implementation output differs from the specification (reference cursor / lookup / metadata / rejections)",
            "why": b["why"], "case": b["case"], "impl_out": b["impl_out"], "model_out": b["model_out"],
            "more": [x["case"][:300] for x in prop_bad[1:6]], "count": len(prop_bad),
            "replay_cmd": "echo '<case>' | work/target/release/c10"})
    elif corr_bad or model_spec_bad or not ok_proof:
        chk.violation("c10_unproved.json", {
            "kind": "no-failing-input-found", "broken": info["broken"],
            "correspondence_disagreements": corr_bad[:5], "model_vs_spec": model_spec_bad[:5]}, no_input=True)


def replay(path):
    with open(path) as fh:
        obj = json.load(fh)
    print(json.dumps({k: v for k, v in obj.items() if k not in ("impl_out", "model_out")}, indent=1)[:3000])
    line = obj.get("case")
    if not line:
        return 1
    tconsts = consts_json("Table")
    spec = Spec(tconsts, consts_json("Setsum")["SETSUM_PRIMES"])
    okh, outh, (hxbin,) = vlib.cargo_build(["c10"])
    rc, out = vlib.sh([hxbin], stdin=(line + "\n").encode())
    case = parse_case_line(line)
    why = compare_spec(spec, case, out.split())
    print("impl now :", out.strip()[:2000])
    print("verdict  :", why or "agrees with the specification")
    return 1 if why else 0
