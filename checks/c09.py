"""C09 — damage to persistent files (SSTs, write-ahead logs, manifests) is detected or harmless,
never silent, never a panic, never an unbounded allocation.

Decided by: theorems of coq/theories/Damage/Props_C09.v (readers total and bounded on all byte
strings; damage never changes what was read before it; everything accepted passed a checksum
comparison; detection of damage in checksummed regions under an EXPLICIT hypothesis on crc;
case analysis of the unchecksummed regions) and — for the half that rests on CRC32C itself — by
exhaustive damage of sample files produced by the real builders: every single-bit flip and byte
overwrites at every offset (thorough; quick: every offset of the unchecksummed regions and of the
frame envelopes plus a stride elsewhere), adjacent multi-byte overwrites (windows of 2..10 bytes:
valid UTF-8 characters, varint-lengthening patterns, continuation bits switched on), every
truncation length, appended suffixes and short sequences, run through Sst::new + metadata + forward and backward cursor walks + load,
LogIterator + log_to_builder + log_to_setsum, ManifestIterator + Manifest::open, classified
{error, identical, metadata only, clean prefix (truncation), different data, panic, abort, huge
allocation} against the pristine file (the direct oracle) and compared with the extracted model."""
import json
import os
import re
import subprocess
import time
from collections import Counter

import vlib
import c09_fmt as F

META = {
    "category": "proof",
    "text": "Coq theorems (Damage/Props_C09.v, closed under the global context) over byte-level models of the SST, log and manifest readers on ARBITRARY bytes: the readers never panic, never run out of fuel, never allocate more than the file (SST, manifest) or a constant (log); damage never changes what a reader returned before reaching it; every block / frame / line a reader accepts has passed a checksum comparison; a damaged stored checksum is always detected; a damaged payload is detected under the explicit hypothesis that crc tells it from the original (crc is a Section variable: the detection half is partial by construction, CRC32C's error-detection properties are not proved); the unchecksummed regions (SST final block and trailing offset, log header-size byte, manifest separator lines) by case analysis with _refuted witnesses where the property fails (the SST final block's own setsum / smallest / biggest timestamp are accepted altered; a tiny log frame at a block end is skipped). The CRC-dependent half is decided on samples: files from the real builders, damaged exhaustively (bit flips, byte overwrites, adjacent multi-byte overwrites written with valid UTF-8 characters and varint-lengthening patterns, truncations, extensions, short sequences), read by the real readers under an allocation-counting allocator, compared with the pristine file and with the extracted model.",
    "note": "Partial: detection inside checksummed regions is proved only under stated hypotheses on crc and otherwise sampled. Trusted: Coq kernel; tools/constants.py; ExtrOcamlBasic extraction + ocaml/damage driver (native crc32c, partition_point as a count); harness c09 (counting global allocator); Python crc32c / SipHash-2-4 / layout parser. BlockCursor::prev (with the restart-interval cache), backward walks and both keys of Sst::metadata are modelled and compared; every prev() is proved total, but that a whole backward walk ENDS on a CRC-consistent forged block is not proved (decided by samples: the harness reports RUNAWAY, the model FUEL). Not modelled: std's partition_point on unsorted forged index keys. Known classes: sst-consistent-index-forgery, sst-final-block-metadata-unchecksummed, log-tiny-frame-at-block-end, append-wellformed-suffix.",
}

PROPS = "theories/Damage/Props_C09.v"
MODULE = "Damage.Props_C09"
TFS = 1006632960  # TABLE_FULL_SIZE (re-read from the generated constants below)


# ---------------------------------------------------------------------------------- plumbing
class Runner:
    """feeds command lines to a line-oriented executable; a process that dies mid-stream (abort)
    is restarted with the definitions re-sent, and the command it died on is reported as ABORT"""

    def __init__(self, exe, defs):
        self.exe = exe
        self.defs = list(defs)

    def run(self, lines, timeout=3000):
        out = []
        i = 0
        while i < len(lines):
            chunk = self.defs + lines[i:]
            p = subprocess.run([self.exe], input=("\n".join(chunk) + "\n").encode(), stdout=subprocess.PIPE,
                               stderr=subprocess.PIPE, timeout=timeout)
            got = p.stdout.decode("utf-8", "replace").split("\n")
            if got and got[-1] == "":
                got.pop()
            got = got[len(self.defs):]
            out.extend(got)
            i += len(got)
            if i < len(lines):
                # the process died while working on lines[i]
                err = p.stderr.decode("utf-8", "replace").strip().split("\n")
                out.append("ABORT rc=%d %s" % (p.returncode, " / ".join(err[:2])[:200]))
                i += 1
        return out

    def run_parallel(self, lines, nproc):
        if nproc <= 1 or len(lines) < 200:
            return self.run(lines)
        import concurrent.futures
        # round robin, so that the expensive cases (1 MiB logs, large allocations) spread out
        chunks = [lines[k::nproc] for k in range(nproc)]
        with concurrent.futures.ThreadPoolExecutor(max_workers=nproc) as ex:
            res = list(ex.map(self.run, chunks))
        out = [None] * len(lines)
        for k, r in enumerate(res):
            out[k::nproc] = r
        return out


def hexs(b):
    return b.hex()


# ---------------------------------------------------------------------------------- generators
def gen_entries(rng, n, stats):
    """n strictly increasing (key asc, ts desc) entries with boundary-biased shapes"""
    keys = set()
    stem = rng.bytes(rng.range(0, 4))
    while len(keys) < max(1, n // 2):
        k = stem[:rng.range(0, len(stem))] + rng.bytes(rng.range(0, 6)) if rng.chance(3, 4) else rng.bytes(rng.range(0, 12))
        if rng.chance(1, 12):
            k = b""
        if rng.chance(1, 12):
            k = b"\xff" * rng.range(1, 12)
        keys.add(k)
    out = []
    for k in sorted(keys):
        tss = set()
        for _ in range(rng.range(1, 3)):
            tss.add(rng.choice([0, 1, 127, 128, 255, 256, 2**32, 2**63, 2**64 - 1, rng.below(2**64), rng.below(1000)]))
        for ts in sorted(tss, reverse=True):
            if rng.chance(1, 5):
                out.append((k, ts, None))
                stats["tombstones"] += 1
            else:
                ln = rng.choice([0, 0, 1, 2, 3, 7, 20, 60, rng.range(0, 40)])
                out.append((k, ts, rng.bytes(ln)))
            if len(out) >= n:
                return out
    return out


def ent_tok(e):
    k, ts, v = e
    return "%s@%d%s" % (k.hex(), ts, "~" if v is None else "=" + v.hex())


def ent_str(e):
    k, ts, v = e
    return "%s@%d%s" % (k.hex(), ts, "~" if v is None else "=" + v.hex())


def parse_walk(tok):
    """'fw:N:DIGEST[e,e,..]!end' -> (n, digest, [entries] or None, end)"""
    body, end = tok.rsplit("!", 1)
    body = body.split(":", 1)[1]
    items = None
    if "[" in body:
        head, rest = body.split("[", 1)
        rest = rest[:-1]
        items = rest.split(",") if rest else []
        body = head
    n, d = body.split(":")
    return int(n), d, items, end


# ---------------------------------------------------------------------------------- damage sets
def flips(off):
    return ["f%d:%d" % (off, b) for b in range(8)]


def overwrites(rng, data, off, many):
    x = data[off]
    vals = {0, 255, (x + 1) & 255, (x - 1) & 255, rng.below(256)}
    if many:
        vals |= {rng.below(256), 10, 13, 45, 43, 48}
    vals.discard(x)
    return ["o%d:%d" % (off, v) for v in sorted(vals)]


UTF8_CHARS = [b"\xc3\xa9", b"\xe2\x82\xac", b"\xf0\x9f\x98\x80"]


def window_patterns(data, off):
    """the byte strings written over data[off:off+len] by the adjacent-bytes damage family"""
    n = len(data)
    out = []
    for c in UTF8_CHARS:
        if off + len(c) <= n:
            out.append(c)
    for w in (2, 3, 4):
        if off + w <= n:
            out.append(b"\xff" * (w - 1) + b"\x01")
            out.append(b"\xff" * (w - 1) + b"\x7f")
            out.append(b"\x80" * (w - 1) + b"\x01")
    for w in (5, 8, 9, 10):
        if off + w <= n:
            out.append(b"\xff" * (w - 1) + b"\x01")
    for w in range(2, 11):
        if off + w <= n:
            out.append(bytes(x | 0x80 for x in data[off:off + w - 1]) + bytes([data[off + w - 1] & 0x7f]))
    return out


def damage_set(rng, data, regions, unchecked, tier, stats, stride_target, big=False):
    """patch strings for one file.  regions: [(name, lo, hi)]; unchecked(name) -> bool"""
    n = len(data)
    offs = set()
    if tier == "thorough" and not big:
        offs = set(range(n))
    else:
        for name, lo, hi in regions:
            if unchecked(name) and not big:
                offs.update(range(lo, hi))
            else:
                offs.update(o for o in (lo, lo + 1, hi - 2, hi - 1) if lo <= o < hi)
        stride = max(1, n // stride_target)
        start = rng.below(stride)
        if not big:
            offs.update(range(start, n, stride))
    patches = []
    for off in sorted(offs):
        patches += flips(off)
        patches += overwrites(rng, data, off, tier == "thorough")
    stats["offsets"] += len(offs)
    # adjacent multi-byte overwrites: windows of 2..10 bytes written with valid multi-byte UTF-8
    # characters, with varint-lengthening patterns, and with the continuation bits of the bytes
    # that are there switched on (a varint that runs on through the fields behind it)
    if tier == "thorough" and not big:
        woffs = range(n)
    elif big:
        woffs = sorted(o for o in offs if o % 3 == 0)
    else:
        woffs = set()
        for name, lo, hi in regions:
            if unchecked(name) or name.startswith(("l", "sep")):
                woffs.update(range(lo, hi))
        wstride = max(1, n // max(1, stride_target // 2))
        woffs.update(range(rng.below(wstride), n, wstride))
        woffs = sorted(woffs)
    nwin = 0
    sst_like = any(name == "trailer" for name, lo, hi in regions)
    full = set()
    for name, lo, hi in regions:
        if unchecked(name) or name.startswith(("l", "sep")):
            full.update(range(lo, hi))
    for off in woffs:
        pats = window_patterns(data, off)
        if tier == "quick" and not big and off not in full:
            pats = pats[:3] + pats[3:6] + pats[-9::3]     # the UTF-8 characters, one varint pattern each way
        elif tier == "quick" and sst_like:
            # an SST's unchecksummed tail: every continuation-bit window, a few fixed patterns
            pats = pats[:1] + [q for q in pats[3:-9] if len(q) in (2, 4, 9) and q[-1] == 1] + pats[-9:]
        for w in pats:
            p = F.overwrite_patch(data, off, w)
            if p != "-":
                patches.append(p)
                nwin += 1
    stats["windows"] += nwin
    # truncations
    if tier == "thorough" and not big:
        cuts = set(range(0, n))
    else:
        cuts = set()
        for name, lo, hi in regions:
            cuts.update(c for c in (lo - 1, lo, lo + 1, hi - 1) if 0 <= c < n)
        if not big:
            cuts.update(range(rng.below(7), n, max(1, n // 60)))
            cuts.update(range(max(0, n - 24), n))
    patches += ["t%d" % c for c in sorted(cuts)]
    stats["truncations"] += len(cuts)
    # extensions
    exts = [b"\x00", b"\xff", b"\n", b"\x00" * 8, b"\x00" * 19, b"\x00" * 20, rng.bytes(1), rng.bytes(3), rng.bytes(17),
            data[-8:], data[-1:], b"--------\n", b"--------", b"\r\n"]
    patches += ["x" + e.hex() for e in exts if e]
    stats["extensions"] += len(exts)
    # short sequences
    nseq = 40 if tier == "quick" else 400
    if big:
        nseq = 10
    lo_off = 0 if not big else max(0, n - 4096)
    for _ in range(nseq):
        k = rng.range(2, 3)
        ops = []
        for _ in range(k):
            kind = rng.below(10)
            off = rng.range(lo_off, n - 1)
            if kind < 5:
                ops.append("f%d:%d" % (off, rng.below(8)))
            elif kind < 8:
                ops.append("o%d:%d" % (off, rng.below(256)))
            elif kind < 9:
                ops.append("t%d" % rng.range(max(lo_off, n - 40), n))
            else:
                ops.append("x" + rng.bytes(rng.range(1, 9)).hex())
        patches.append(",".join(ops))
    stats["sequences"] += nseq
    return patches


# ---------------------------------------------------------------------------------- oracles
class Pristine:
    """what the undamaged file returns, with the digests of every prefix of its walks"""

    def __init__(self, kind, verbose_line):
        self.kind = kind
        self.toks = verbose_line.split()
        self.t = {}
        for tok in self.toks:
            if tok.startswith(("fw:", "bw:", "it:", "ltb:")):
                n, d, items, end = parse_walk(tok)
                name = tok.split(":", 1)[0]
                self.t[name] = {"n": n, "d": d, "items": items, "end": end,
                                "prefix": {(k, "%016x" % h) for k, h in F.digest_list(items)} if items is not None else set()}
            elif tok.startswith("meta:"):
                self.t["meta"] = tok
            elif tok.startswith("lts"):
                self.t["lts"] = tok
            elif tok.startswith("op"):
                # the verbose form prints the state, the plain form its digest
                if tok.startswith("op:{"):
                    tok = "op:%016x" % F.fnv(F.FNV_INIT, tok[3:].encode())
                self.t["op"] = tok
            elif tok.startswith("open"):
                self.t["open"] = tok
        self.gets = [tok for tok in self.toks if tok.startswith("g") and not tok.startswith("get")]


def classify(pr, line, patch, is_trunc):
    """outcome class of one damaged read against the pristine file.
    Returns (class, detail); classes: identical | file-size-only | error | prefix-clean-end |
    final-meta | different | panic | abort | runaway.
    final-meta: metadata() returned a smallest_timestamp / biggest_timestamp / setsum that the
    pristine file does not hold (the detail names the fields and says whether every other
    observation was identical); file-size-only: metadata() differs in file_size alone, which is
    the true size of the damaged file."""
    if line.startswith("ABORT"):
        return "abort", line
    toks = line.split()
    if "PANIC" in toks:
        return "panic", line
    worst = "identical"
    detail = ""
    others = []

    def bump(c, d):
        nonlocal worst, detail
        order = ["identical", "file-size-only", "error", "prefix-clean-end", "final-meta", "different"]
        if c not in ("final-meta", "file-size-only", "identical"):
            others.append(c)
        if order.index(c) > order.index(worst):
            worst, detail = c, d

    gi = 0
    for tok in toks:
        if tok.startswith("ma=") or tok.endswith(":skipped"):
            continue
        if tok.startswith(("open!", "new!")):
            return "error", tok
        if tok in ("open:ok", "new:ok"):
            continue
        if tok.startswith("meta"):
            if tok.startswith("meta!"):
                bump("error", tok)
            elif tok != pr.t.get("meta"):
                a, b = tok.split(":"), pr.t["meta"].split(":")
                if len(a) != 7 or len(b) != 7 or a[1] != b[1] or a[2] != b[2]:
                    bump("different", "metadata first/last key " + tok)
                else:
                    fields = [nm for nm, x, y in zip(("smallest_timestamp", "biggest_timestamp", "setsum"), a[3:6], b[3:6]) if x != y]
                    if fields:
                        bump("final-meta", "metadata() presents %s that the file never held: %s (pristine %s)" % ("+".join(fields), tok, pr.t["meta"]))
                    else:
                        bump("file-size-only", tok)
            continue
        if tok.startswith(("fw:", "bw:", "it:", "ltb:")):
            name = tok.split(":", 1)[0]
            if tok == "ltb:none":
                if pr.t.get("ltb") is not None or "ltb:none" not in pr.toks:
                    # an empty log where the pristine one was not: only a truncation may do that
                    bump("prefix-clean-end" if is_trunc else "different", tok)
                continue
            if tok.startswith("it:open!"):
                bump("error", tok)
                continue
            n, d, items, end = parse_walk(tok)
            p = pr.t.get(name)
            if p is None:
                bump("different", tok)
                continue
            if "RUNAWAY" in end:
                return "runaway", tok
            if end == "end":
                if (n, d) == (p["n"], p["d"]) and p["end"] == "end":
                    pass
                elif (n, d) in p["prefix"] and name != "ltb":
                    bump("prefix-clean-end", tok)
                elif name == "ltb" and is_trunc:
                    bump("prefix-clean-end", tok)      # sorted entries of a prefix of the batches
                else:
                    bump("different", tok)
            else:
                if (n, d) in p["prefix"] or (name == "ltb"):
                    bump("error", tok)
                else:
                    bump("different", "entries before the error are not a prefix: " + tok)
            continue
        if tok.startswith("ltb!") or tok.startswith("lts!") or tok.startswith("op!"):
            bump("error", tok)
            continue
        if tok.startswith("lts:"):
            if tok != pr.t.get("lts"):
                bump("prefix-clean-end" if is_trunc else "different", tok)
            continue
        if tok.startswith("op:"):
            if tok != pr.t.get("op"):
                bump("prefix-clean-end" if is_trunc else "different", tok)
            continue
        if tok.startswith("g"):
            want = pr.gets[gi] if gi < len(pr.gets) else None
            gi += 1
            if tok.startswith("g!"):
                bump("error", tok)
            elif tok != want:
                bump("different", "point read %d: %s (pristine %s)" % (gi - 1, tok, want))
            continue
    if worst == "final-meta":
        detail += " [others identical]" if not others else " [others: %s]" % ",".join(sorted(set(others)))
    return worst, detail


def max_alloc(line):
    m = re.search(r"\bma=(\d+)", line)
    return int(m.group(1)) if m else 0


# ---------------------------------------------------------------------------------- normalising for the model
def norm_impl(kind, line):
    """drop what the model does not produce: log_to_builder and log_to_setsum, the allocation figure"""
    return [tok for tok in line.split() if not tok.startswith(("ma=", "ltb", "lts"))]


def model_agrees(kind, impl_line, model_line, notes):
    return norm_impl(kind, impl_line) == model_line.split()


# ---------------------------------------------------------------------------------- schema cross-check
def source_schema():
    """the #[prototk(N, type)] numbers of the structs the model retypes, read from the source"""
    src = open(os.path.join(vlib.REPO, "sst/src/lib.rs")).read()
    src = re.sub(r"//[^\n]*", "", src)          # e.g. the commented-out ZstdBlock variant

    def nums(decl):
        m = re.search(decl + r"[^{]*\{(.*?)\n\}", src, flags=re.S)
        if not m:
            return None
        return [int(x) for x in re.findall(r"#\[prototk\((\d+),", m.group(1))]

    return {
        "BM": ("S", nums(r"struct BlockMetadata")),
        "FB": ("S", nums(r"struct FinalBlock")),
        "KVPUT": ("S", nums(r"struct KeyValuePut")),
        "KVDEL": ("S", nums(r"struct KeyValueDel")),
        "KVE": ("E", nums(r"enum KeyValueEntry")),
        "SSTENTRY": ("E", nums(r"enum SstEntry")),
    }


# ---------------------------------------------------------------------------------- the check
def run(chk):
    t_start = time.time()
    ok_proof, info = vlib.proof_stage(chk, PROPS, MODULE, const_areas=("Damage",), pins_rel="pins/C09.v")
    okx, outx = vlib.coq_make(["theories/Damage/Extract.vo"])
    okm, outm, mx = vlib.ocaml_build("damage", "mx_damage")
    okh, outh, (hxbin, lsmbin) = vlib.cargo_build(["c09", "lsm"])
    if not (okx and okm):
        raise RuntimeError("model build failed:\n" + outx[-1500:] + outm[-1500:])
    if not okh:
        raise RuntimeError("harness build failed (does /repo still compile?):\n" + outh[-3000:])
    hxbin = os.environ.get("C09_HX", hxbin)
    t_built = time.time()

    quick = chk.tier == "quick"
    nproc = min(vlib.NCPU, 8 if quick else 16)
    rng = vlib.Rng(chk.seed * 1000003 + 9)
    stats = Counter()
    notes = Counter()
    problems = []          # property violations: (name, obj)
    corr = []              # impl vs model disagreements
    known_hits = Counter()

    # ---- schema numbers of the model vs the source
    sch = Runner(mx, []).run(["schema"])[0]
    want = source_schema()
    got = {}
    for tok in sch.split():
        name, v = tok.split("=")
        got[name] = (v[0], [int(x) for x in v[2:-1].split(",") if x])
    schema_ok = all(got.get(k) == v for k, v in want.items())
    if not schema_ok:
        corr.append({"what": "message field numbers of the model differ from the source", "model": got, "source": want})

    # ---- base files from the real builders
    nfiles = 4 if quick else 14
    build_lines, bases = [], []
    for i in range(nfiles):
        es = gen_entries(rng, rng.choice([1, 3, 12, 25, 40, 60]), stats)
        opts = (rng.choice([16, 64, 1024]), rng.choice([1, 2, 4, 16]), rng.choice([60, 100, 200, 4096]), rng.choice([1, 10, 17]))
        build_lines.append("mksst s%d %d %d %d %d | %s" % ((i,) + opts + (" ".join(ent_tok(e) for e in es),)))
        bases.append({"id": "s%d" % i, "kind": "sst", "entries": es, "opts": opts})
    # a corpus-like fixed small table keeps one layout constant across seeds
    for i in range(nfiles):
        nb = rng.range(1, 6)
        batches = [gen_entries(rng, rng.range(1, 5), stats) for _ in range(nb)]
        # distinct keys across the log so that log_to_builder succeeds on the pristine file
        seen, bl = set(), []
        for b in batches:
            # (the empty key at timestamp u64::MAX equals an SstBuilder's initial last key: log_to_builder
            # would refuse it with sort-order on the pristine log already)
            bb = [e for e in b if (e[0], e[1]) not in seen and (e[0], e[1]) != (b"", 2**64 - 1)]
            seen.update((e[0], e[1]) for e in bb)
            if bb:
                bl.append(bb)
        if not bl:
            bl = [[(b"k", 1, b"v")]]
        build_lines.append("mklog l%d | %s" % (i, " ; ".join(" ".join(ent_tok(e) for e in b) for b in bl)))
        bases.append({"id": "l%d" % i, "kind": "log", "batches": bl})
    for i in range(nfiles):
        ne = rng.range(1, 6)
        edits, live = [], set()
        for _ in range(ne):
            toks = []
            for _ in range(rng.range(1, 4)):
                k = rng.below(10)
                if k < 6 or not live:
                    s = bytes(rng.choice(b"abcdefghijklmnopqrstuvwxyz0123456789._-+ /") for _ in range(rng.range(1, 14)))
                    if s.endswith(b"\r") or not s:
                        s = b"x"
                    toks.append("+" + s.hex())
                    live.add(s)
                elif k < 8:
                    s = rng.choice(sorted(live))
                    toks.append("-" + s.hex())
                    live.discard(s)
                else:
                    c = rng.choice([65, 73, 76, 79, 97, 122, 48, 33])
                    v = bytes(rng.choice(b"abcXYZ019 _") for _ in range(rng.range(1, 8)))
                    toks.append("i%d:%s" % (c, v.hex()))
            edits.append(" ".join(toks))
        build_lines.append("mkmani m%d | %s" % (i, " ; ".join(edits)))
        bases.append({"id": "m%d" % i, "kind": "mani"})
    built = Runner(hxbin, []).run(build_lines)
    for b, line in zip(bases, built):
        m = re.search(r"\bf:([0-9a-f]*)", line)
        if " ok " not in " " + line + " " and not line.startswith("ok") or not m:
            raise RuntimeError("builder failed: %s -> %s" % (b["id"], line[:300]))
        b["bytes"] = bytes.fromhex(m.group(1))
        rej = {int(x) for x in re.findall(r"\brej(\d+):", line)}
        if rej and b["kind"] == "sst":
            # an entry the builder refused (e.g. the empty key at timestamp u64::MAX, which equals
            # the builder's initial last key) is not in the table
            b["entries"] = [e for i, e in enumerate(b["entries"]) if i not in rej]

    # ---- the two big logs: a frame in the last 18..20 bytes of the first 1 MiB block (known class)
    #      and a batch split across the block boundary (FIRST / padding / SECOND)
    big_specs = big_logs(hxbin, rng)
    for j, (spec, what) in enumerate(big_specs):
        out = Runner(hxbin, []).run(["mklog b%d | %s" % (j, spec), "get b%d" % j])
        data = bytes.fromhex(out[1].split("f:")[1].split()[0])
        bases.append({"id": "b%d" % j, "kind": "log", "bytes": data, "big": what})

    defs = ["def %s %s" % (b["id"], b["bytes"].hex()) for b in bases]
    hx = Runner(hxbin, defs)
    mxr = Runner(mx, defs)

    # ---- queries for SSTs: present keys at several timestamps, absent keys, with SipHash for the model
    for b in bases:
        if b["kind"] != "sst":
            continue
        qs = []
        es = b["entries"]
        for _ in range(6):
            e = rng.choice(es)
            qs.append((e[0], rng.choice([e[1], 2**64 - 1, 0, e[1] + 1 if e[1] < 2**64 - 1 else e[1]])))
        qs.append((rng.bytes(3), 5))
        qs.append((b"", 2**64 - 1))
        b["qi"] = " ".join("%s:%d" % (k.hex(), t) for k, t in qs)
        b["qm"] = " ".join("%s:%d:%d" % (k.hex(), t, F.siphash24(k)) for k, t in qs)

    cmd = {"sst": "sst", "log": "log", "mani": "mani"}

    def case_line(b, patch, model=False, verbose=False):
        c = cmd[b["kind"]] + ("v" if verbose else "")
        if "big" in b and not verbose and not model:
            c = "logi"
        if b["kind"] == "sst":
            return "%s %s %s | %s" % (c, b["id"], patch, b["qm"] if model else b["qi"])
        return "%s %s %s" % (c, b["id"], patch)

    # ---- pristine outcomes (and: the pristine SST / log returns what was put in — the builders' side
    #      of the oracle)
    plines = hx.run([case_line(b, "-", verbose=True) for b in bases])
    for b, line in zip(bases, plines):
        b["pristine"] = Pristine(b["kind"], line)
        if "PANIC" in line or line.startswith("ABORT") or "!" in line.replace("!end", ""):
            if not (b["kind"] == "log" and "ltb!" in line and "big" in b):
                raise RuntimeError("pristine file does not read cleanly: %s -> %s" % (b["id"], line[:400]))
        if b["kind"] == "sst":
            want_items = [ent_str(e) for e in b["entries"]]
            if b["pristine"].t["fw"]["items"] != want_items or b["pristine"].t["bw"]["items"] != want_items[::-1]:
                problems.append(("c09_pristine_%s.json" % b["id"], {"kind": "property", "what": "the undamaged SST does not return what was put in", "base": b["id"]}))
        if b["kind"] == "log" and "batches" in b:
            want_items = [ent_str(e) for bb in b["batches"] for e in bb]
            if b["pristine"].t["it"]["items"] != want_items:
                problems.append(("c09_pristine_%s.json" % b["id"], {"kind": "property", "what": "the undamaged log does not return what was appended", "base": b["id"]}))

    # ---- layouts
    for b in bases:
        d = b["bytes"]
        if b["kind"] == "sst":
            L = F.SstLayout(d)
            b["regions"] = L.regions
            b["unchecked"] = lambda name: name in ("final", "trailer") or name.endswith(".env")
            b["layout"] = L
        elif b["kind"] == "log":
            b["regions"] = F.log_layout(d)
            b["unchecked"] = lambda name: name.endswith(".hsz") or name.endswith(".header") or name == "pad"
        else:
            b["regions"] = F.mani_layout(d)
            b["unchecked"] = lambda name: name.startswith("sep") or name.endswith(".nl") or name.endswith(".crc") or name.endswith(".action")

    def region_of(b, off):
        for name, lo, hi in b["regions"]:
            if lo <= off < hi:
                return re.sub(r"\d+", "", name)
        return "gap"

    # ---- damage cases
    cases = []   # (base, patch)
    for b in bases:
        if "big" in b:
            patches = big_damage(rng, b, stats)
        else:
            patches = damage_set(rng, b["bytes"], b["regions"], b["unchecked"], chk.tier, stats,
                                 stride_target=110 if quick else 10**9)
        if b["kind"] == "sst":
            # consistent forgery of the index block's restart count: num_restarts (the last four bytes
            # of the index block) overwritten with every value around the points where Block::new's
            # footer arithmetic changes sign, and the block's crc32c in the (unchecksummed) final
            # block recomputed to match: five to eight bytes differ
            d = b["bytes"]
            L = b["layout"]
            lo, hi = L.index_payload
            for n in restart_count_window(hi - lo):
                newp = d[lo:hi - 4] + F.le32(n)
                p = ",".join(x for x in (F.overwrite_patch(d, hi - 4, F.le32(n)),
                                         F.overwrite_patch(d, L.index["crc_at"], F.le32(F.crc32c(newp)))) if x != "-")
                if p:
                    patches.append(p)
                    stats["index_count_forgeries"] += 1
        if b["kind"] == "log" and "big" not in b:
            # a directed sequence: the first frame's header rewritten in place to announce a body of
            # 2^27 bytes (the reader resizes its buffer to that before read_exact fails): the
            # allocation is bounded by TABLE_FULL_SIZE, not by the length of the file
            d = b["bytes"]
            hdr = bytes([12, 0x50]) + F.varint(1 << 27) + bytes([0x58, 1, 0x65, 1, 2, 3, 4])
            if len(d) > len(hdr):
                patches.append(F.overwrite_patch(d, 0, hdr))
                stats["log_size_forgeries"] += 1
        cases += [(b, p) for p in patches]
    # corpus: (kind, base spec, patch) triples that failed before; replayed on a rebuilt base
    corpus_cases = load_corpus(hxbin, chk)
    t_gen = time.time()

    ilines = hx.run_parallel([case_line(b, p) for b, p in cases], nproc)
    t_impl = time.time()

    # ---- classification against the pristine file
    classes = Counter()
    by_region = Counter()
    maxalloc = Counter()
    big_alloc = []
    samples = []
    final_fields = Counter()
    suffix_candidates, pending, combined = [], [], []
    for (b, p), line in zip(cases, ilines):
        is_trunc = bool(re.search(r"(^|,)t\d+", p))
        is_ext = "x" in p
        c, detail = classify(b["pristine"], line, p, is_trunc)
        single = re.fullmatch(r"[fo](\d+):\d+", p)
        reg = region_of(b, int(single.group(1))) if single else ("trunc" if p.startswith("t") else "ext" if p.startswith("x") else "seq")
        if reg == "seq" and re.fullmatch(r"o\d+:\d+(,o\d+:\d+)*", p):
            wo = [int(x) for x in re.findall(r"o(\d+):", p)]
            if wo[-1] - wo[0] < 10:
                reg = "window@" + region_of(b, wo[0])
        key = "%s/%s" % (b["kind"], reg)
        if c == "prefix-clean-end" and not is_trunc:
            c = "different"
            detail = "clean end after a prefix without truncation: " + detail
        if c == "final-meta":
            if b["kind"] == "sst" and "[others identical]" in detail and confined_to_final_block(b, p):
                c = "known:sst-final-block-metadata-unchecksummed"
                known_hits["sst-final-block-metadata-unchecksummed"] += 1
                for nm in ("smallest_timestamp", "biggest_timestamp", "setsum"):
                    if nm in detail.split(" that the file")[0]:
                        final_fields[nm] += 1
            elif b["kind"] == "sst" and split_final_ops(b, p):
                # damage in the final block TOGETHER with damage elsewhere: decided below by running the
                # two parts on their own (the part in the final block must be in the known class by
                # the narrow predicate, the other part is judged like any damage, and the combined
                # outcome must be exactly the superposition of the two)
                combined.append((b, p, line, detail, key))
                continue
            else:
                c = "different"
        if c == "different" and b["kind"] == "sst" and consistent_index_forgery(b, p):
            c = "known:sst-consistent-index-forgery"
            known_hits["sst-consistent-index-forgery"] += 1
        if c == "different" and b["kind"] in ("log", "mani") and re.fullmatch(r"x[0-9a-f]+", p) and wellformed_suffix(b, p):
            # decided below, on the verbose output: the pristine result intact and first, then more
            suffix_candidates.append(len(pending))
            pending.append((b, p, line, c, detail, key))
            continue
        if c == "different" and b["kind"] == "log" and in_tiny_frame_class(b, p):
            c = "known:log-tiny-frame-at-block-end"
            known_hits["log-tiny-frame-at-block-end"] += 1
        classes[c] += 1
        by_region[key + " -> " + c] += 1
        ma = max_alloc(line)
        bound = alloc_bound(b, p)
        maxalloc[b["kind"]] = max(maxalloc[b["kind"]], ma)
        if ma > bound:
            if b["kind"] == "log" and ma <= 2 * TFS + (8 << 20):
                big_alloc.append((b["id"], p, ma))
            else:
                problems.append(("c09_alloc_%s.json" % b["id"], replay_obj(b, p, line, "allocation of %d bytes for a file of %d bytes" % (ma, len(b["bytes"])))))
        if c in ("different", "panic", "abort", "runaway"):
            problems.append(("c09_%s_%s.json" % (c, b["id"]), replay_obj(b, p, line, c + ": " + detail)))
        if len(samples) < 3 and c == "error" and single:
            samples.append("%s %s -> %s" % (b["id"], p, line[:160]))

    # ---- appended suffixes that were read as data: the narrow known class wants the pristine result
    #      intact and first (and, for a manifest, the same state): decided on the verbose output
    if pending:
        vlines = hx.run([case_line(b, p, verbose=True) for b, p, _, _, _, _ in pending])
        for (b, p, line, c, detail, key), vl in zip(pending, vlines):
            if suffix_intact_first(b, vl):
                c = "known:append-wellformed-suffix"
                known_hits["append-wellformed-suffix"] += 1
            else:
                problems.append(("c09_different_%s.json" % b["id"], replay_obj(b, p, line, "different: " + detail)))
            classes[c] += 1
            by_region[key + " -> " + c] += 1

    # ---- final-block damage combined with damage elsewhere
    if combined:
        sub = []
        for b, p, line, detail, key in combined:
            pa, pb = split_final_ops(b, p)
            sub += [case_line(b, pa), case_line(b, pb)]
        subl = hx.run(sub)
        for k, (b, p, line, detail, key) in enumerate(combined):
            pa, pb = split_final_ops(b, p)
            la, lb = subl[2 * k], subl[2 * k + 1]
            ca, da = classify(b["pristine"], la, pa, False)
            cb, db = classify(b["pristine"], lb, pb, False)
            strip = lambda l: [t for t in l.split() if not t.startswith(("meta", "ma="))]
            meta = lambda l: [t for t in l.split() if t.startswith("meta")]
            ok = (ca == "final-meta" and "[others identical]" in da and confined_to_final_block(b, pa)
                  and cb in ("identical", "error", "file-size-only")
                  and strip(line) == strip(lb) and (meta(line) == meta(la) or meta(line) == meta(lb)))
            if ok:
                c = "known:sst-final-block-metadata-unchecksummed"
                known_hits["sst-final-block-metadata-unchecksummed"] += 1
                final_fields["combined_with_detected_damage_elsewhere"] += 1
            else:
                c = "different"
                problems.append(("c09_different_%s.json" % b["id"], replay_obj(b, p, line, "different: " + detail)))
            classes[c] += 1
            by_region[key + " -> " + c] += 1

    # ---- the same cases on the extracted model
    # an SST case costs the model some 5-10 ms, a log or manifest case a fraction of a millisecond:
    # every case of the unchecksummed regions and every truncation / extension / sequence goes to
    # the model; of the windows and single damages inside checksummed SST payloads, a stride
    budget = 22000 if quick else 250000
    sel, rest = [], []
    win_re = re.compile(r"o(\d+):\d+(,o\d+:\d+)+")
    for i, (b, p) in enumerate(cases):
        if "big" in b:
            continue
        single = re.fullmatch(r"[fo](\d+):\d+", p)
        wm = None if single else win_re.fullmatch(p)
        first = int(single.group(1)) if single else int(wm.group(1)) if wm else None
        if first is None:
            sel.append(i)
            continue
        name = next((n for n, lo, hi in b["regions"] if lo <= first < hi), "gap")
        if b["kind"] != "sst":
            (sel if (b["unchecked"](name) or wm) else rest).append(i)
        elif single and b["unchecked"](name):
            sel.append(i)
        elif name in ("final", "trailer") and (not quick or i % 2 == 0):
            sel.append(i)
        else:
            rest.append(i)
    if len(sel) < budget:
        step = max(1, len(rest) // max(1, budget - len(sel)))
        sel += rest[rng.below(step)::step]
    sel = sorted(sel)[:budget * 2]
    mlines = mxr.run_parallel([case_line(*cases[i], model=True) for i in sel], nproc)
    t_model = time.time()
    n_model = 0
    for i, ml in zip(sel, mlines):
        b, p = cases[i]
        n_model += 1
        if ilines[i].startswith("ABORT") or "PANIC" in ilines[i].split():
            continue   # already a property violation
        if not model_agrees(b["kind"], ilines[i], ml, notes):
            corr.append({"base": b["id"], "patch": p, "impl": ilines[i][:500], "model": ml[:500]})

    # ---- malformed stream: CRC-consistent forged SSTs and raw blocks (arbitrary bytes for the readers)
    mal = malformed_cases(rng, 2500 if quick else 60000, stats) + footer_sweep_cases(rng, quick, stats)
    # every forged file is its own definition: send them in independent slices
    def run_mal(exe, model):
        import concurrent.futures
        def one(k):
            part = mal[k::nproc]
            lines = []
            for name, kind, data, q in part:
                lines.append("def %s %s" % (name, data.hex()))
                lines.append("%s %s - | %s" % (kind, name, " ".join(("%s:%d:%d" % (kk.hex(), t, F.siphash24(kk))) if model else ("%s:%d" % (kk.hex(), t)) for kk, t in q)))
            return Runner(exe, []).run(lines)[1::2]
        with concurrent.futures.ThreadPoolExecutor(max_workers=nproc) as ex:
            res = list(ex.map(one, range(nproc)))
        out = [None] * len(mal)
        for k, r in enumerate(res):
            out[k::nproc] = r
        return out
    mi = run_mal(hxbin, False)
    mm = run_mal(mx, True)
    mal_classes = Counter()
    for (name, kind, data, q), il, ml in zip(mal, mi, mm):
        first = il.split()[0] if il else ""
        mal_classes[first.split("!")[0] + ("!" + first.split("!")[1] if "!" in first else "")] += 1
        if il.startswith("ABORT") or "PANIC" in il.split() or "RUNAWAY" in il:
            problems.append(("c09_malformed_%s.json" % name, {"kind": "property", "what": "reader panics / aborts / loops on arbitrary bytes", "cmd": kind, "bytes": data.hex(), "impl": il[:400], "model": ml[:400], "replay_cmd": "printf 'def x HEX\\n%s x - |\\n' | work/target/release/c09" % kind}))
            continue
        if max_alloc(il) > 4 * len(data) + (64 << 10):
            problems.append(("c09_malformed_alloc_%s.json" % name, {"kind": "property", "what": "allocation of %d bytes reading %d arbitrary bytes" % (max_alloc(il), len(data)), "cmd": kind, "bytes": data.hex(), "impl": il[:400]}))
            continue
        if not model_agrees(kind, il, ml, notes):
            if unsorted_index(kind, data):
                notes["forged_unsorted_index_partition_point"] += 1
                continue
            corr.append({"base": name, "patch": "-", "bytes": data.hex(), "impl": il[:500], "model": ml[:500], "cmd": kind})
    t_mal = time.time()

    # ---- the consequence of an accepted final-block timestamp on a real store (known class
    #      sst-final-block-metadata-unchecksummed): one flipped bit in the newest table of a store
    probe = store_probe(lsmbin)
    if probe.get("stale_or_vanished"):
        known_hits["sst-final-block-metadata-unchecksummed"] += 1
    if probe.get("crash"):
        problems.append(("c09_store_probe.json", {"kind": "property", "what": "store crashes on reopen after a bit flip in an SST final block", "probe": probe}))

    # ---- corpus
    for name, obj, line, c in corpus_cases:
        if c == "final-meta":
            # (corpus files damage the final block only)
            known_hits["sst-final-block-metadata-unchecksummed"] += 1
            continue
        if c in ("different", "panic", "abort", "runaway"):
            problems.append(("c09_corpus_%s.json" % name, dict(obj, impl=line[:500], what="corpus case fails again: " + c)))

    # ---- evidence
    nontrivial = sum(v for k, v in classes.items() if k != "identical")
    chk.coverage.update({
        "evaluations": len(cases) + len(mal) + len(corpus_cases) + len(bases),
        "distinct_nontrivial": nontrivial,
        "rule": "one evaluation = one damaged (or forged) file read by the real readers (open + metadata + forward and backward walk + point reads / drain + log_to_builder + log_to_setsum / iterator + Manifest::open); non-trivial = the outcome differs from the pristine file's (error, metadata only, clean prefix); distinct = distinct (file, patch) pairs, generated without repetition",
        "samples": samples + [cases[-1][0]["id"] + " " + cases[-1][1]],
        "input_distribution": {
            "files": {k: sum(1 for b in bases if b["kind"] == k) for k in ("sst", "log", "mani")},
            "file_sizes": sorted(len(b["bytes"]) for b in bases),
            "damage": dict(stats),
            "outcome_classes": dict(classes),
            "outcome_by_region": dict(sorted(by_region.items())),
            "malformed_stream": {"cases": len(mal), "first_token": dict(mal_classes.most_common(20))},
            "max_single_allocation": dict(maxalloc),
            "log_allocations_bounded_by_constant_only": {"count": len(big_alloc), "examples": big_alloc[:3],
                                                         "note": "a damaged frame size makes LogIterator resize its buffer to that size (<= TABLE_FULL_SIZE per frame) before read_exact fails: bounded by a constant, not by the file length (theorem C09_log_reader_total_bounded)"},
        },
        "final_block_fields_accepted": dict(final_fields),
        "correspondence": "impl (Rust, release + overflow-checks, counting allocator) vs extracted Coq model (OCaml, native crc32c) on %d of the damage cases (all of the unchecksummed regions, truncations, extensions, sequences, a stride of the rest) and all %d forged files; impl vs pristine file on all" % (n_model, len(mal)),
        "model_cases": n_model,
        "disagreements_impl_vs_model": len(corr), "disagreements_impl_vs_spec": len(problems),
        "model_gaps_tolerated": dict(notes),
        "schema_numbers_match_source": schema_ok,
        "store_probe": probe,
        "timing_s": {"build": round(t_built - t_start, 1), "generate": round(t_gen - t_built, 1), "impl": round(t_impl - t_gen, 1),
                     "model": round(t_model - t_impl, 1), "malformed": round(t_mal - t_model, 1)},
        "trusted_base": [
            "Coq 8.16.1 kernel (coqc, full .vo build); vm_compute for the concrete witnesses and examples",
            "tools/constants.py (TABLE_FULL_SIZE, HEADER_MAX_SIZE, BLOCK_BITS re-extracted from the source); the #[prototk] field numbers of the model are compared with the source text on every run",
            "extraction via ExtrOcamlBasic + ocaml/damage/mx_damage.ml (native crc32c, partition_point as the count of smaller keys, digests)",
            "harness/src/bin/c09.rs (real builders and readers, files on /dev/shm, counting global allocator, catch_unwind)",
            "checks/c09_fmt.py: crc32c, SipHash-2-4, FNV digests, the layout parser that names the regions, the forger of CRC-consistent files",
            "crc32c is a Section variable of the models: an arbitrary function in every theorem; what a theorem assumes of it is an explicit hypothesis",
        ],
    })
    chk.assumptions = [
        "detection of damage inside checksummed payloads assumes crc distinguishes the damaged payload from the original (hypothesis crc_detects / inequality of the two checksums in the theorems); for CRC32C this holds for single-bit flips and bursts up to 32 bits but is not proved here — decided on samples",
        "truncation at a record boundary (log frame, manifest edit) yields a shorter well-formed file: counted as clean prefix, not as a violation",
        "termination of a whole backward walk on a CRC-consistent forged block is decided by samples only (each prev() call is proved total; progress of prev() on arbitrary restart arrays is not)",
        "crc_detects_envelope: a frame whose length varint / tag was damaged so that a payload of another length is decoded is assumed to have another checksum (a 2^-32 event no property of CRC32C covers); every envelope byte of every sample is swept",
    ]
    for cls, n in known_hits.items():
        for _ in range(n):
            chk.known(cls, KNOWN_TEXT.get(cls, cls))

    with open(os.path.join(chk.work, "problems.json"), "w") as fh:
        json.dump({"problems": [o for _, o in problems[:50]], "correspondence": corr[:50]}, fh, indent=1, default=str)
    if problems:
        name, obj = problems[0]
        obj["others"] = [{"name": n, "what": o.get("what")} for n, o in problems[1:6]]
        chk.violation(name, obj)
    elif corr or not ok_proof:
        chk.violation("c09_unproved.json", {"kind": "no-failing-input-found", "broken": info["broken"],
                                            "correspondence_disagreements": corr[:5]}, no_input=True)


KNOWN_TEXT = {
    "log-tiny-frame-at-block-end": "a log frame of at most 20 bytes that starts within 20 bytes of the next 1 MiB block boundary is silently skipped when its header-size byte is overwritten with 0 (LogIterator takes it for padding)",
    "append-wellformed-suffix": "a single appended suffix that is itself a well-formed, correctly checksummed log frame / manifest separator is read as further data after the pristine result, which is returned intact and first (indistinguishable from a legitimate append)",
    "sst-consistent-index-forgery": "an index block rewritten TOGETHER with its crc32c in the unchecksummed final block (the checksum recomputed to match) is accepted: the table presents what the rewritten index says",
    "sst-final-block-metadata-unchecksummed": "damage confined to the unchecksummed SST final block leaves the file opening and every key, value, timestamp of an entry and tombstone intact, but Sst::metadata() presents a smallest_timestamp / biggest_timestamp / setsum the file never held as genuine (lsmtk derives its next sequence number and the level order from them)",
}


STORE_HISTORY = "put 6b 7631\nput 61 01\nput 62 02\nput 6b 7632\nput 64 04\nflush\n"
STORE_READS = "get 6b\nget 64\nget 61\n"


def store_probe(lsmbin):
    """a real lsmtk store (harness `lsm`): five puts and a flush give one table with
    smallest_timestamp 3 and biggest_timestamp 7; one bit of the biggest_timestamp byte in the
    table's unchecksummed final block is flipped (7 -> 3); the store is reopened and read"""
    import shutil
    root = "/dev/shm/c09-store-%d" % os.getpid()
    shutil.rmtree(root, ignore_errors=True)
    os.makedirs(root)
    out = {"history": STORE_HISTORY.replace("\n", "; "), "reads": STORE_READS.replace("\n", "; ")}
    try:
        def session(d, script):
            p = subprocess.run([lsmbin, d], input=script.encode(), stdout=subprocess.PIPE, stderr=subprocess.STDOUT, timeout=120)
            return p.returncode, [x for x in p.stdout.decode("utf-8", "replace").split("\n") if x and not x.startswith("FILE")]
        a = os.path.join(root, "a")
        rc, lines = session(a, STORE_HISTORY)
        ssts = [f for f in os.listdir(os.path.join(a, "sst")) if f.endswith(".sst")]
        if rc != 0 or len(ssts) != 1:
            out["skipped"] = "unexpected store layout: rc=%d ssts=%d %s" % (rc, len(ssts), lines[-3:])
            return out
        path = os.path.join("sst", ssts[0])
        data = open(os.path.join(a, path), "rb").read()
        L = F.SstLayout(data)
        off = next(v0 for num, wt, t0, v0, v1, e in L.final_fields if num == 21)
        out["table"] = ssts[0]
        out["biggest_timestamp"] = data[off]
        bit = 2
        out["patch"] = "f%d:%d" % (off, bit)
        if data[off] != 7:
            out["skipped"] = "biggest_timestamp is %d, not 7" % data[off]
            return out
        b = os.path.join(root, "b")
        shutil.copytree(a, b)
        d2 = bytearray(data)
        d2[off] ^= 1 << bit
        open(os.path.join(b, path), "wb").write(bytes(d2))
        rc1, r1 = session(a, STORE_READS)
        rc2, r2 = session(b, STORE_READS)
        out["pristine_reopen"] = r1
        out["damaged_reopen"] = r2
        out["crash"] = rc2 != 0 or any("PANIC" in x for x in r2)
        out["stale_or_vanished"] = (not out["crash"]) and r2[:1] == ["OPEN ok"] and r1 != r2
    except Exception as ex:          # the probe is an illustration; it never decides the verdict by failing
        out["skipped"] = "probe failed: %r" % (ex,)
    finally:
        shutil.rmtree(root, ignore_errors=True)
    return out


def replay_obj(b, patch, line, what):
    return {"kind": "property", "what": what, "base": b["id"], "file_kind": b["kind"], "bytes": b["bytes"].hex() if len(b["bytes"]) < 70000 else "(1 MiB log; rebuilt by big_logs())",
            "patch": patch, "queries": b.get("qi", ""), "impl": line[:600],
            "replay_cmd": "printf 'def x <bytes>\\n%s x %s | %s\\n' | work/target/release/c09" % (b["kind"] + "v", patch, b.get("qi", ""))}


def alloc_bound(b, patch):
    n = len(F.patch_apply(b["bytes"], patch)) if len(b["bytes"]) < 70000 else len(b["bytes"]) + 64
    if b["kind"] == "log":
        return 4 * n + (6 << 20)        # BufReader (2 MiB read buffer by default) + the frame buffer
    if b["kind"] == "mani":
        return 4 * n + (16 << 10)       # BufReader (8 KiB) + the line
    # an SST reader allocates the final block, one frame and one copy of its payload at a time, the
    # index entries and the filter: all within the file.  (Measured on undamaged and damaged files
    # of every run: at most about the file size.)  Anything beyond four times the file is reported.
    return 4 * n + 2048


def in_tiny_frame_class(b, patch):
    """single overwrite with 0 of the header-size byte of a frame that starts within 20 bytes of
    the next block boundary"""
    m = re.fullmatch(r"o(\d+):0", patch)
    if not m:
        m = re.fullmatch(r"f(\d+):(\d)", patch)
        if not m or b["bytes"][int(m.group(1))] ^ (1 << int(m.group(2))) != 0:
            return False
    off = int(m.group(1))
    nb = ((off >> 20) + 1) << 20
    return nb - off <= 20 and any(n.endswith(".hsz") and lo == off for n, lo, hi in b["regions"])


def consistent_index_forgery(b, patch):
    """the damaged file differs from the pristine one only inside the index block's payload and in
    the four bytes of that block's crc32c in the final block, and the stored crc32c IS the checksum
    of the changed payload: a rewrite that recomputed the checksum, which no reader can tell from a
    file written that way"""
    d0 = b["bytes"]
    d1 = F.patch_apply(d0, patch)
    if len(d1) != len(d0):
        return False
    L = b["layout"]
    lo, hi = L.index_payload
    ca = L.index["crc_at"]
    for i, (x, y) in enumerate(zip(d0, d1)):
        if x != y and not (lo <= i < hi or ca <= i < ca + 4):
            return False
    return d1[lo:hi] != d0[lo:hi] and int.from_bytes(d1[ca:ca + 4], "little") == F.crc32c(d1[lo:hi])


def split_final_ops(b, patch):
    """a patch made of flips / overwrites only, some inside the final block and some in front of
    it: (the ops inside, the ops in front); None otherwise"""
    ops = patch.split(",")
    if not all(re.fullmatch(r"[fo]\d+:\d+", o) for o in ops):
        return None
    fbo = b["layout"].fbo
    ina = [o for o in ops if int(re.match(r"[fo](\d+)", o).group(1)) >= fbo]
    inb = [o for o in ops if int(re.match(r"[fo](\d+)", o).group(1)) < fbo]
    if not ina or not inb:
        return None
    return ",".join(ina), ",".join(inb)


def confined_to_final_block(b, patch):
    """the damaged file has the length of the pristine one and differs from it only inside the
    final block [final_block_offset, end of file)"""
    d0 = b["bytes"]
    d1 = F.patch_apply(d0, patch)
    if len(d1) != len(d0):
        return False
    fbo = b["layout"].fbo
    return all(x == y for x, y in zip(d0[:fbo], d1[:fbo]))


def suffix_intact_first(b, vline):
    """verbose output of a file extended by a suffix: the iterator returns the pristine items
    first, unchanged, then more, and ends cleanly; a manifest opens to the pristine state"""
    pr = b["pristine"]
    got = None
    for tok in vline.split():
        if tok.startswith("it:") and not tok.startswith("it:open"):
            got = parse_walk(tok)
        if tok.startswith("op") and b["kind"] == "mani":
            if tok.startswith("op:{"):
                tok = "op:%016x" % F.fnv(F.FNV_INIT, tok[3:].encode())
            if tok != pr.t.get("op"):
                return False
    if got is None or got[2] is None or got[3] != "end":
        return False
    want = pr.t["it"]["items"]
    return len(got[2]) > len(want) and got[2][:len(want)] == want


def wellformed_suffix(b, patch):
    """the appended bytes, read on their own at the position they land, contain a record the
    reader accepts: a correctly checksummed log frame or a manifest line block"""
    m = re.search(r"x([0-9a-f]+)$", patch)
    if not m:
        return False
    s = bytes.fromhex(m.group(1))
    if b["kind"] == "mani":
        return b"--------" in s
    try:
        regs = F.log_layout(s)
    except Exception:
        return False
    for n, lo, hi in regs:
        if n.endswith(".body") and hi <= len(s):
            return True
    return False


def unsorted_index(kind, data):
    if kind not in ("sst", "sstv"):
        return False
    try:
        L = F.SstLayout(data)
        body = data[L.index_payload[0]:L.index_payload[1]]
        keys = []
        for num, wt, t0, v0, v1, e in F.fields(body):
            if num in (8, 9):
                for n2, w2, tt, a, z, ee in F.fields(body, v0, v1):
                    if n2 in (2, 6):
                        keys.append(body[a:z])
        return keys != sorted(keys)
    except Exception:
        return True


def big_logs(hxbin, rng):
    """two logs of a little over 1 MiB: (1) a small whole frame in the last 18..20 bytes of the
    first block, then more frames; (2) a batch split across the block boundary"""
    NB = 1 << 20

    def fit(target, tail=(), n=34):
        """34 filler entries, one adjustable filler batch, then the batches `tail`: ends at `target`"""
        adj = 8000
        for _ in range(8):
            spec = " ; ".join([" ".join(["z30000"] * n), "z%d" % adj] + list(tail))
            out = Runner(hxbin, []).run(["mklog t | " + spec])
            sizes = [int(t[2:]) for t in out[0].split() if t.startswith("a:")]
            if sizes[-1] == target:
                return spec
            adj += target - sizes[-1]
        raise RuntimeError("cannot place a frame at %d" % target)

    start = NB - rng.choice([18, 19, 20])
    tiny = {18: "@0~", 19: "@200~", 20: "@0="}[NB - start]
    # three small frames in front of the tiny one: zeroing THEIR size byte must be detected
    a = fit(start, tail=("6b31@1=", "6b32@2=", "6b33@3=")) + " ; " + tiny + " ; 6b34@7=7631 ; 6b35@9~"
    b = fit(NB - 300) + " ; " + " ".join("%s@%d=%s" % ((b"q%02d" % i).hex(), i + 1, "55" * 20) for i in range(20)) + " ; 7a@3=01"
    return [(a, "tiny"), (b, "split")]


def big_damage(rng, b, stats):
    NB = 1 << 20
    n = len(b["bytes"])
    offs = set(range(NB - 64, min(n, NB + 96)))
    for name, lo, hi in b["regions"]:
        if hi > NB - 400 and (name.endswith(".hsz") or name.endswith(".header")):
            offs.update(range(lo, min(hi, n)))
    offs.update(rng.below(NB - 400) for _ in range(6))
    patches = []
    for off in sorted(offs):
        patches += ["f%d:%d" % (off, bit) for bit in (0, 3, 7)] + (["o%d:0" % off] if b["bytes"][off] != 0 else [])
    patches += ["t%d" % c for c in range(NB - 24, min(n, NB + 40))]
    patches += ["x00", "x" + b["bytes"][-30:].hex()]
    stats["offsets"] += len(offs)
    return patches


def restart_count_window(length):
    """the values of a block's trailing num_restarts around which Block::new's arithmetic changes
    sign, for a block of `length` bytes: 4n+5 = length (restart array and capstone just fit),
    4n+5+footer_head = length for footer_head 2..4 (the footer just fits), each +-4, and the extremes"""
    vals = {0, 1, 2, 2**32 - 1, 2**30, 2**31}
    for h in (0, 2, 3, 4, 5):
        c = (length - 5 - h) // 4
        vals.update(v for v in range(c - 4, c + 5) if 0 <= v < 2**32)
    return sorted(vals)


def footer_sweep_cases(rng, quick, stats):
    """Block::new on blocks of every small length, real sealed blocks and arbitrary byte strings,
    with the trailing num_restarts overwritten with every value of restart_count_window"""
    out = []
    qs = [(b"a", 9), (b"c", 2**64 - 1)]
    lengths = list(range(4, 140 if quick else 420))
    if quick:
        lengths += [rng.range(140, 400) for _ in range(12)]
    for L in lengths:
        bases = [rng.bytes(L)]
        # a sealed block of exactly L bytes when one exists: one put whose value pads to the length
        for v in range(0, L):
            blk = F.enc_block(F.enc_kve(0, b"a", 5, b"\x07" * v), [0])
            if len(blk) == L:
                bases.append(blk)
                break
            if len(blk) > L:
                break
        for base in bases:
            for n in restart_count_window(L):
                out.append(("w%d" % len(out), "blk", base[:-4] + F.le32(n), qs))
    stats["footer_sweep_blocks"] += len(out)
    return out


def malformed_cases(rng, n, stats):
    """(name, command, bytes, queries): CRC-consistent forged SSTs (every layer lies in turn) and
    raw blocks"""
    out = []
    qs = [(b"a", 9), (b"ab", 1), (b"c", 2**64 - 1), (b"", 0), (b"zz", 3)]
    for i in range(n):
        k = rng.below(10)
        recs = F.enc_kve(0, b"a", 5, b"x") + F.enc_kve(1, b"b", 4, None) + F.enc_kve(0, b"c", 3, b"zz")
        offs = [0, 12, 21]
        if k < 4:
            # a raw block: valid records with a lying footer, or mutated / random bytes
            kind = rng.below(6)
            if kind == 0:
                data = F.enc_block(recs, [rng.choice(offs + [1, 500, 2**32 - 1]) for _ in range(rng.range(0, 4))], nrest=rng.choice([None, 0, 1, 2, 3, 1000, 2**32 - 1]))
            elif kind == 1:
                data = F.enc_block(recs, [0], body_len=rng.choice([0, 3, 4, 5, 200]))
            elif kind == 2:
                data = rng.bytes(rng.choice([0, 1, 3, 4, 5, 8, 9, 11, 30]))
            elif kind == 3:
                good = bytearray(F.enc_block(recs, [0, 12]))
                for _ in range(rng.range(1, 3)):
                    good[rng.below(len(good))] = rng.below(256)
                data = bytes(good)
            elif kind == 4:
                # shared larger than the previous key, huge shared, empty fragments
                r2 = F.enc_kve(rng.choice([0, 5, 2**63]), b"", rng.below(2**64), rng.choice([None, b""])) + F.enc_kve(3, b"k", 1, b"v")
                data = F.enc_block(r2, [0])
            else:
                data = F.enc_block(recs + rng.bytes(rng.range(1, 6)), [0])
            out.append(("r%d" % i, "blk", data, qs))
            stats["malformed_blocks"] += 1
        else:
            kind = rng.below(8)
            good = F.enc_block(recs, [0])
            lie = None
            idx = None
            fpl = None
            blocks = [(b"c", good)]
            if kind == 0:
                v = rng.choice([0, 1, 2**30, 2**62, 2**64 - 1, 100000])
                lie = lambda kk, s, l, c, v=v: (s, v, c)
            elif kind == 1:
                lie = lambda kk, s, l, c: (rng.choice([l, l + 1, 2**64 - 1]), l, c)
            elif kind == 2:
                blocks = [(b"c", F.enc_block(recs, [rng.choice([0, 1, 12, 400])], nrest=rng.choice([0, 1, 2, 77])))]
            elif kind == 3:
                idx = lambda metas: F.enc_block(b"".join(F.enc_kve(0, key, 0, rng.choice([F.enc_meta(*m), b"", b"\x68", rng.bytes(4)])) for key, m in metas), [0])
            elif kind == 4:
                idx = lambda metas: F.enc_block(b"".join(F.enc_kve(0, key, 0, None) for key, m in metas), [0])
            elif kind == 5:
                fpl = rng.choice([b"", b"\x01" * 31, b"\x00" * 32, b"\xff" * 64, rng.bytes(33)])
            elif kind == 6:
                blocks = [(b"ab", F.enc_block(F.enc_kve(0, b"a", 5, b"x") + F.enc_kve(1, b"b", 4, None), [0])), (b"c", rng.bytes(rng.range(0, 12)))]
            else:
                blocks = [(b"c", good), (b"d", F.enc_block(F.enc_kve(0, b"d", 1, b"1"), [0]))]
                lie = lambda kk, s, l, c: (s, l, c ^ (1 if kk == 1 and rng.chance(1, 2) else 0))
            data = F.forge_sst(blocks, index_entries=idx, filter_payload=fpl, lie=lie)
            out.append(("g%d" % i, "sst", data, qs))
            stats["malformed_ssts"] += 1
    return out


def load_corpus(hxbin, chk):
    """corpus/C09/*.json: {"kind", "bytes", "patch", "queries"} replayed first"""
    d = os.path.join(vlib.VERIF, "corpus", "C09")
    out = []
    if not os.path.isdir(d):
        return out
    for fn in sorted(os.listdir(d)):
        if not fn.endswith(".json"):
            continue
        obj = json.load(open(os.path.join(d, fn)))
        if "bytes" not in obj:
            continue
        kind = obj["kind"]
        lines = Runner(hxbin, ["def x " + obj["bytes"]]).run(["%sv x - | %s" % (kind, obj.get("queries", "")),
                                                               "%s x %s | %s" % (kind, obj["patch"], obj.get("queries", ""))])
        pr = Pristine(kind, lines[0])
        c, detail = classify(pr, lines[1], obj["patch"], bool(re.search(r"(^|,)t\d+", obj["patch"])))
        for ln in lines:
            if ln.startswith("ABORT"):
                c = "abort"
            elif "PANIC" in ln.split():
                c = "panic"
            elif max_alloc(ln) > 4 * (len(obj["bytes"]) // 2) + (6 << 20):
                c = "abort"
                obj = dict(obj, what_alloc="allocation of %d bytes" % max_alloc(ln))
        out.append((fn[:-5], obj, lines[1], c))
    return out


def replay(path):
    with open(path) as fh:
        obj = json.load(fh)
    print(json.dumps({k: (v if len(str(v)) < 400 else str(v)[:400] + "...") for k, v in obj.items()}, indent=1))
    if "bytes" in obj and "patch" in obj and not str(obj["bytes"]).startswith("("):
        okh, outh, (hxbin,) = vlib.cargo_build(["c09"])
        kind = obj.get("file_kind") or obj.get("cmd") or "sst"
        lines = Runner(hxbin, ["def x " + obj["bytes"]]).run(["%sv x - | %s" % (kind, obj.get("queries", "")),
                                                               "%sv x %s | %s" % (kind, obj["patch"], obj.get("queries", ""))])
        print("pristine now:", lines[0][:600])
        print("damaged  now:", lines[1][:600])
        pr = Pristine(kind, lines[0])
        c, detail = classify(pr, lines[1], obj["patch"], bool(re.search(r"(^|,)t\d+", obj["patch"])))
        print("class now   :", c, detail)
        return 1 if c in ("different", "panic", "abort", "runaway") else 0
    return 1
