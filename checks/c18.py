"""C18 — sync42: the coalescing queue runs each request once, in order, returning its own result;
the wait list has exactly one head among linked waiters; the LRU cache is a sequential LRU map
with exact size accounting.

Decided by: theorems of coq/theories/Sync42/Props_C18.v over three executable models
(ModelLru.v: pointer-level model of lru.rs; ModelWaitList.v: the ring of wait_list.rs;
ModelWcq.v: small-step interleaving model of do_work with mutexes, condition variables and
spurious wake-ups), tied to the code by
  * lru: real LeastRecentlyUsedCache vs extracted model vs an independent Python LRU map;
  * wait list: one client thread + helper threads (so that link can block) on a real WaitList with
    few slots (hook), the recorded event trace replayed on the extracted ring model and on an
    independent Python statement of "the head is the oldest linked waiter";
  * queue: real multi-threaded runs of WorkCoalescingQueue::do_work with an instrumented core,
    the totally ordered hook trace accepted step by step by the extracted small-step model, which
    must predict the same outputs and batches; direct oracle on outputs / core log / link order.
"""
import json
import os
import time

import vlib

META = {
    "category": "proof",
    "text": "Coq theorems (Sync42/Props_C18.v) over executable models of sync42's lru.rs (pointer-level doubly linked list + index refines a sequential LRU map for every operation sequence: no panic, no dangling pointer, no leak, size = sum of entry sizes, size <= capacity + sizes of entries last written with eviction disabled), wait_list.rs (the ring of slots refines 'set of linked waiters, oldest is the head' for every sequence of link / blocked link / wake / unlink in any order / notify / store / load incl. more waiters than slots and index wrap-around) and work_coalescing_queue.rs (small-step interleaving model, any number of threads and calls, any core batching policy, mutexes, condition variables with spurious wake-ups and arbitrary notify_one choice: every schedule is panic-free, the core sees each input exactly once in link order, every call returns the output at its own position of its own batch, no reachable state is a deadlock, every run takes at most 33 effective steps per call (so any non-idling scheduler completes every call), linked calls are served strictly first-come-first-served; refuted and recorded as known class link-starvation: a call still asleep in link() can be overtaken without bound by later arrivals); the models are tied to the code by differential runs (LRU, wait list) and by acceptance of hook traces of real multi-threaded runs (queue).",
    "note": "Trusted: Coq kernel; the hand-written models' fidelity to the Rust (sampled by the correspondence runs; the merging of several critical sections into one model step is justified in ModelWcq.v by the lock discipline, not proved); sequentially consistent interleaving semantics of std Mutex/Condvar (no weak-memory effects); progress is proved without fairness for finite workloads (deadlock freedom incl. lost wake-ups + bounded work); for unbounded arrivals starvation inside link() is possible and recorded (link-starvation); the core is assumed to return at least `taken` outputs; HashMap, Box allocation and usize overflow of the byte count are abstracted; extraction (ExtrOcamlBasic) + ocaml/sync42 driver; harness c18; hooks under cfg(blue_verif).",
}

PROPS = "theories/Sync42/Props_C18.v"
MODULE = "Sync42.Props_C18"
PID = "C18"


# ======================================================================== LRU
class LruRef:
    """a least-recently-used map, independently: list of [key, id, size], most recent first"""

    def __init__(self, cap):
        self.cap = cap
        self.l = []

    def size(self):
        return sum(e[2] for e in self.l)

    def _del(self, k):
        for i, e in enumerate(self.l):
            if e[0] == k:
                return self.l.pop(i)
        return None

    def insert(self, k, i, sz, evict=True):
        self._del(k)
        self.l.insert(0, [k, i, sz])
        if evict:
            while self.size() > self.cap and self.l:
                self.l.pop()

    def lookup(self, k):
        e = self._del(k)
        if e is None:
            return None
        self.l.insert(0, e)
        return e

    def remove(self, k):
        self._del(k)

    def pop(self):
        return self.l.pop() if self.l else None


def lru_gen(rng, stats):
    capk = rng.below(10)
    cap = [0, 1, 8, 16, 24, 64, rng.range(2, 40), rng.range(20, 200), 1000, 2 ** 40][capk]
    nkeys = rng.choice([1, 2, 3, 4, 6, 9, 20])
    nops = rng.range(1, 40)
    szs = [0, 1, 7, 8, 9, cap, cap + 1, max(cap, 1) - 1, cap // 2, cap // 3 + 1]
    ref = LruRef(cap)
    ops, exp = [], []
    nid = 0
    ne_live = {}
    for _ in range(nops):
        k = rng.below(100)
        key = rng.below(nkeys) + 1
        if k < 34:
            nid += 1
            sz = min(rng.choice(szs), 2 ** 41)
            ops.append("i %d %d %d" % (key, nid, sz))
            ref.insert(key, nid, sz)
            ne_live.pop(key, None)
            stats["insert"] += 1
            stats["insert_overwrite"] += 0
        elif k < 46:
            nid += 1
            sz = min(rng.choice(szs), 2 ** 41)
            ops.append("n %d %d %d" % (key, nid, sz))
            ref.insert(key, nid, sz, evict=False)
            ne_live[key] = 1
            stats["insert_no_evict"] += 1
        elif k < 68:
            ops.append("l %d" % key)
            e = ref.lookup(key)
            exp.append("%d:%d" % (e[1], e[2]) if e else "-")
            stats["lookup_hit" if e else "lookup_miss"] += 1
        elif k < 80:
            ops.append("r %d" % key)
            ref.remove(key)
            stats["remove"] += 1
        elif k < 90:
            ops.append("p")
            e = ref.pop()
            exp.append("%d=%d:%d" % tuple(e) if e else "-")
            stats["pop"] += 1
        else:
            ops.append("s")
            exp.append(str(ref.size()))
            stats["size"] += 1
        # the property's size clause, checked on the reference itself as it runs
        present = {e[0] for e in ref.l}
        for kk in list(ne_live):
            if kk not in present:
                del ne_live[kk]
        ne_sum = sum(e[2] for e in ref.l if e[0] in ne_live)
        if ref.size() > cap + ne_sum:
            stats["ref_capacity_broken"] += 1
        if ref.size() > cap:
            stats["over_capacity_states"] += 1
    exp.append("| %d" % ref.size())
    for e in reversed(ref.l):
        exp.append("%d=%d:%d" % tuple(e))
    return "lru %d ; %s" % (cap, " ; ".join(ops)), " ".join(exp)


def lruc_gen(rng, stats):
    """several threads on one cache; the hook gives the linearisation order"""
    cap = rng.choice([0, 8, 16, 24, 40, 100])
    nthreads = rng.choice([2, 3, 4, 6])
    nkeys = rng.choice([2, 3, 5])
    progs = []
    nid = 0
    for t in range(nthreads):
        ops = []
        for _ in range(rng.range(3, 25)):
            k = rng.below(100)
            key = rng.below(nkeys) + 1
            if k < 35:
                nid += 1
                ops.append("i %d %d %d" % (key, nid, rng.choice([0, 1, 8, 8, 9, cap, cap + 1])))
            elif k < 45:
                nid += 1
                ops.append("n %d %d %d" % (key, nid, rng.choice([1, 8, cap + 1])))
            elif k < 75:
                ops.append("l %d" % key)
            elif k < 88:
                ops.append("r %d" % key)
            else:
                ops.append("p")
        progs.append(ops)
    stats["lruc_threads_%d" % nthreads] = stats.get("lruc_threads_%d" % nthreads, 0) + 1
    return "lruc %d %d ; %s" % (cap, rng.below(2 ** 32), " ; ".join(" , ".join(p) for p in progs)), cap, progs


def lruc_linearise(out, cap, progs):
    """the sequential case the concurrent run is equivalent to (ops in hook order) and the outputs
    the threads observed, in that order"""
    if "PANIC" in out.split() or not out.startswith("T "):
        return None, None, ["concurrent cache run panicked / unparsable: " + out[:200]]
    tpart, rpart, fpart = out[2:].split("|", 2)
    order = [int(x) for x in tpart.split()]
    allops = {t * 1000 + k + 1: op for t, p in enumerate(progs) for k, op in enumerate(p)}
    bad = []
    if sorted(order) != sorted(allops):
        bad.append("operations recorded %d, issued %d (each op must enter the critical section exactly once)" % (len(order), len(allops)))
        return None, None, bad
    # program order must be respected by the linearisation
    pos = {tag: i for i, tag in enumerate(order)}
    for t, p in enumerate(progs):
        for k in range(1, len(p)):
            if pos[t * 1000 + k] > pos[t * 1000 + k + 1]:
                bad.append("thread %d: op %d linearised after op %d" % (t, k, k + 1))
    res = dict(x.split("=", 1) for x in rpart.split())
    seq = [allops[tag] for tag in order]
    observed = [res[str(tag)] for tag in order if allops[tag][0] in "lp"]
    return "lru %d ; %s" % (cap, " ; ".join(seq)), " ".join(observed + ["|" + fpart.rstrip()]).replace("| ", "| ", 1), bad


def lru_exhaustive(maxlen):
    """every op sequence up to maxlen over 2 keys, 2 sizes, capacity 2 (thorough tier)"""
    alphabet = []
    for key in (1, 2):
        for sz in (1, 2):
            alphabet.append(("i", key, sz))
        alphabet.append(("n", key, 2))
        alphabet.append(("l", key))
        alphabet.append(("r", key))
    alphabet.append(("p",))
    out = []

    def rec(prefix):
        if prefix:
            out.append(list(prefix))
        if len(prefix) == maxlen:
            return
        for a in alphabet:
            prefix.append(a)
            rec(prefix)
            prefix.pop()

    rec([])
    cases = []
    for seq in out:
        ref = LruRef(2)
        ops, exp = [], []
        nid = 0
        for a in seq:
            if a[0] in "in":
                nid += 1
                ops.append("%s %d %d %d" % (a[0], a[1], nid, a[2]))
                ref.insert(a[1], nid, a[2], evict=(a[0] == "i"))
            elif a[0] == "l":
                ops.append("l %d" % a[1])
                e = ref.lookup(a[1])
                exp.append("%d:%d" % (e[1], e[2]) if e else "-")
            elif a[0] == "r":
                ops.append("r %d" % a[1])
                ref.remove(a[1])
            else:
                ops.append("p")
                e = ref.pop()
                exp.append("%d=%d:%d" % tuple(e) if e else "-")
        exp.append("| %d" % ref.size())
        for e in reversed(ref.l):
            exp.append("%d=%d:%d" % tuple(e))
        cases.append(("lru 2 ; " + " ; ".join(ops), " ".join(exp)))
    return cases


# ======================================================================== wait list
def wl_gen(rng, stats):
    slots = rng.choice([1, 2, 2, 3, 3, 4, 5, 8])
    nops = rng.range(3, 45)
    ops = []
    linked = 0
    for _ in range(nops):
        k = rng.below(100)
        if k < 34:
            ops.append("L %d" % rng.below(1000))
            linked += 1
        elif k < 60:
            ops.append("U %d" % rng.below(8))
        elif k < 66:
            ops.append("N")
        elif k < 74:
            ops.append("S %d %d" % (rng.below(8), rng.below(1000)))
        elif k < 82:
            ops.append("G %d" % rng.below(8))
        elif k < 90:
            ops.append("H %d" % rng.below(8))
        elif k < 94:
            ops.append("C %d" % rng.below(8))
        elif k < 97:
            ops.append("I %d" % rng.below(8))
        else:
            ops.append("W %d %d" % (rng.below(8), rng.below(6)))
    stats["wl_slots_%d" % slots] = stats.get("wl_slots_%d" % slots, 0) + 1
    return "wl %d ; %s" % (slots, " ; ".join(ops)), slots


class WlRef:
    """the wait list as the property states it: linked waiters in link order; the head is the
    oldest linked waiter; link blocks while head + slots <= next"""

    def __init__(self, n):
        self.n, self.next, self.live, self.blocked = n, 0, [], []   # live: [idx, value]

    def head(self):
        return self.live[0][0] if self.live else self.next

    def full(self):
        return self.head() + self.n <= self.next


def wl_replay(trace_tokens, slots, stats):
    """from the recorded trace: the model's op list, the expected model outputs (= what the
    implementation did), and the list of direct-oracle failures"""
    ref = WlRef(slots)
    mops, mexp, bad = [], [], []
    pending = {}
    hang = False
    toks = trace_tokens
    if "|" in toks:
        i = toks.index("|")
        hang = "HANG" in toks[i:]
        toks = toks[:i]

    def pos(idx):
        for j, e in enumerate(ref.live):
            if e[0] == idx:
                return j
        return None

    for tk in toks:
        try:
            tid, what, a, b, c = tk.split(":")
            tid, a, b, c = int(tid), int(a), int(b), int(c)
        except ValueError:
            bad.append("unparsable token in the trace: " + tk[:80])
            break
        if what == "r_link_call":
            pending[a] = b
        elif what == "link_wait":
            stats["wl_blocked_links"] += 1
            if not ref.full():
                bad.append("link blocked although head+slots > next: %s" % tk)
            if tid in ref.blocked:
                j = ref.blocked.index(tid)
                mops.append("K %d" % j)
                ref.blocked.pop(j)
            else:
                mops.append("L %d" % pending[tid])
            ref.blocked.append(tid)
            mexp.append("B")
            if (a, b, c) != (ref.head(), ref.next, len(ref.blocked)):
                bad.append("link_wait sees head/tail/waiting %s, expected %s" % ((a, b, c), (ref.head(), ref.next, len(ref.blocked))))
        elif what == "link_wake":
            stats["wl_wakes"] += 1
        elif what == "link":
            if ref.full():
                bad.append("link succeeded although the ring is full: %s" % tk)
            if a != ref.next:
                bad.append("link index %d, expected the next index %d" % (a, ref.next))
            if tid in ref.blocked:
                j = ref.blocked.index(tid)
                mops.append("K %d" % j)
                ref.blocked.pop(j)
                stats["wl_links_after_block"] += 1
            else:
                mops.append("L %d" % pending[tid])
            ref.live.append([a, pending[tid]])
            ref.next = a + 1
            mexp.append("L%d" % a)
            stats["wl_links"] += 1
            if (b, c) != (ref.head(), ref.next):
                bad.append("link sees head/tail %s, expected %s" % ((b, c), (ref.head(), ref.next)))
        elif what == "unlink":
            j = pos(a)
            if j is None:
                bad.append("unlink of an index that is not linked: %s" % tk)
                continue
            was_head = j == 0
            ref.live.pop(j)
            flag = 1 if ref.blocked else 0
            mops.append("U %d" % j)
            mexp.append("U%d:%d" % (a, flag))
            stats["wl_unlink_head" if was_head else "wl_unlink_other"] += 1
            if b != ref.head():
                bad.append("after unlink of %d the head is %d, expected the oldest linked waiter %d" % (a, b, ref.head()))
            if c != flag:
                bad.append("unlink notify-available flag %d, expected %d" % (c, flag))
        elif what in ("notify_available", "notify_available_pre", "notify_head_pre"):
            pass
        elif what == "notify_head":
            mops.append("N")
            mexp.append("N%d" % ref.head() if ref.live else "N-")
            if a != (1 if ref.live else 0) or (ref.live and b != ref.head()):
                bad.append("notify_head notified %s, expected head %s" % (tk, ref.head() if ref.live else None))
            stats["wl_notify_head"] += 1
        elif what == "r_store":
            j = pos(a)
            ref.live[j][1] = b
            mops.append("S %d %d" % (j, b))
            mexp.append("-")
        elif what == "r_load":
            j = pos(a)
            mops.append("G %d" % j)
            mexp.append("V%d" % b)
            if ref.live[j][1] != b:
                bad.append("load of %d returned %d, expected %d" % (a, b, ref.live[j][1]))
        elif what == "r_is_head":
            j = pos(a)
            mops.append("H %d" % j)
            mexp.append("T" if b else "F")
            # exactly one head among linked waiters: the oldest
            if bool(b) != (j == 0):
                bad.append("is_head(%d) = %d but the oldest linked waiter is %d" % (a, b, ref.live[0][0]))
            stats["wl_is_head_true" if b else "wl_is_head_false"] += 1
        elif what == "r_count":
            mops.append("C")
            mexp.append("#%d" % b)
            if b != ref.next - ref.head():
                bad.append("count %d, expected %d" % (b, ref.next - ref.head()))
        elif what == "r_iter":
            if b != ref.next - a or c != ref.next:
                bad.append("iteration from %d yielded %d guards ending at %d, expected up to %d" % (a, b, c - 1, ref.next - 1))
        elif what == "r_get_waiter":
            want = 1 if (b >= a and pos(b) is not None) else 0
            if c != want:
                bad.append("get_waiter(%d) from %d = %d, expected %d" % (b, a, c, want))
        elif what in ("load", "store", "is_head", "iter_next"):
            if (b, c) != (ref.head(), ref.next):
                bad.append("%s sees head/tail %s, expected %s" % (what, (b, c), (ref.head(), ref.next)))
        else:
            bad.append("unknown event " + tk)
    if hang:
        bad.append("a blocked link was never woken although slots became free (HANG)")
    if ref.live or ref.blocked:
        bad.append("wind-down left linked=%s blocked=%s" % (ref.live, ref.blocked))
    mexp.append("| h%d t%d w%d" % (ref.head(), ref.next, len(ref.blocked)))
    return "wl %d ; %s" % (slots, " ; ".join(mops)), " ".join(mexp), bad


# ======================================================================== coalescing queue
def wcq_gen(rng, stats):
    nthreads = rng.choice([2, 2, 3, 3, 4, 5, 6, 8])
    slots = rng.choice([1, 2, 3, 4, 0, 0])          # 0 = MAX_CONCURRENCY
    if slots == 0:
        slots_real = 65536
    else:
        slots_real = slots
    limit = rng.choice([0, 1, 2, 3, 4, 1000, 1000])
    modulus = rng.choice([0, 0, 2, 3, 5])
    delay = rng.choice([0, 0, 20, 100, 300])
    # an over-producing core: the right outputs followed by junk items the queue must not hand out
    extra = rng.choice([0, 0, 1, 3])
    if extra:
        delay = rng.choice([100, 300, 600])     # long work(): calls enter the queue meanwhile
    seed = rng.below(2 ** 32)
    progs = []
    for t in range(nthreads):
        n = rng.range(1, 6)
        progs.append([1 + t * 100 + k for k in range(n)])
    kind = "refuse" if limit <= 1 else ("limit" if limit < 1000 else "accept")
    stats["wcq_core_" + kind] += 1
    stats["wcq_threads_%d" % nthreads] = stats.get("wcq_threads_%d" % nthreads, 0) + 1
    stats["wcq_small_ring" if slots else "wcq_full_ring"] += 1
    stats["wcq_core_overproducing" if extra else "wcq_core_exact"] += 1
    cfg = dict(slots=slots_real, limit=limit, modulus=modulus, delay=delay, seed=seed, progs=progs, extra=extra)
    return cfg


def wcq_line(cfg):
    line = "wcq %d %d %d %d %d %d %d %d ; %s" % (
        cfg["slots"], cfg["limit"], cfg["modulus"], cfg["delay"], cfg["seed"], cfg.get("extra", 0),
        cfg.get("short", 0), cfg.get("watchdog", 0), " ; ".join(" ".join(str(x) for x in p) for p in cfg["progs"]))
    for g in cfg.get("gates", []):
        line += " ; G %d %s %d %d %s %d" % tuple(g)
    return line


def wcq_placed(rng):
    """placed schedules (hook verif::add_gate): a thread stops at a program point, inside whatever
    critical section it is in, until another thread has reached a given point"""
    out = []
    for extra in (0, 2):
        for more in (0, 1, 3):
            others = [[301 + 100 * k + j for j in range(rng.range(1, 3))] for k in range(more)]
            # the other threads join once the placed part is under way
            og1 = [(2 + k, "call", 1, 1, "link", 1) for k in range(more)]
            og3 = [(3 + k, "call", 1, 2, "link", 1) for k in range(more)]
            # (1) a call enters the queue while the leader is inside work(): thread 1 starts its
            #     call only after thread 0 has closed its batch; thread 0 enters work() only after
            #     thread 1 has linked
            out.append(dict(slots=rng.choice([2, 4, 65536]), limit=1000, modulus=0, delay=0, seed=rng.below(2 ** 32),
                            extra=extra, progs=[[1], [101]] + others, placed="late arrival during work()",
                            gates=[(1, "call", 1, 0, "batched", 1), (0, "work", 1, 1, "link", 1)] + og1))
            # (2) the window between a waiter's load and its wait: thread 1 is batched by leader 0,
            #     loads Stolen, and is held before its wait until the leader has stored its output,
            #     notified it (both notifications are lost) and unlinked; the leader then needs
            #     `state` (held by thread 1) to clear doing_work; the hand-over notify_head wakes 1
            out.append(dict(slots=rng.choice([2, 4, 65536]), limit=1000, modulus=0, delay=0, seed=rng.below(2 ** 32),
                            extra=extra, progs=[[1], [101]] + others, placed="early notifications lost between load and wait",
                            gates=[(1, "call", 1, 0, "link", 1), (0, "leader", 1, 1, "link", 1),
                                   (0, "work", 1, 1, "wait", 1), (1, "wait", 1, 0, "unlink", 1)] + og1))
            # (3) waiters asleep with their input not yet taken while leaders that refuse batching
            #     pass: threads 1 and 2 link and go to sleep while leader 0 is held before work()
            out.append(dict(slots=rng.choice([3, 65536]), limit=1, modulus=0, delay=0, seed=rng.below(2 ** 32),
                            extra=extra, progs=[[1], [101], [201]] + others, placed="sleeper with untouched input",
                            gates=[(1, "call", 1, 0, "link", 1), (2, "call", 1, 1, "link", 1),
                                   (0, "work", 1, 2, "wait", 1)] + og3))
    return out


def parse_results(s):
    """'0:1>1.0.0,2>2.1.1 1:..' -> {tid: [(lhs, (a,b,c) | None)]}"""
    res = {}
    for part in s.split():
        tid, rest = part.split(":", 1)
        lst = []
        if rest:
            for item in rest.split(","):
                lhs, rhs = item.split(">")
                lst.append((int(lhs), None if rhs == "PANIC" else tuple(int(x) for x in rhs.split("."))))
        res[int(tid)] = lst
    return res


def wcq_oracle(cfg, out, stats):
    """direct oracle: the property's queue clauses stated on what the real run produced"""
    bad = []
    if "HANG" in out.split("| E")[0]:
        return ["calls blocked forever (threads did not finish): HANG"], None, None, ""
    try:
        rpart, rest = out.split(" | B ", 1)
        bpart, epart = rest.split(" | E ", 1) if " | E " in rest else (rest.split("| E")[0], rest.split("| E")[1] if "| E" in rest else "")
    except ValueError:
        return ["unparsable harness output: " + out[:200]], None, None, ""
    res = parse_results(rpart[1:].strip())
    if " | G " in bpart:
        bpart, gpart = bpart.split(" | G ", 1)
        fired, timeouts = [int(x) for x in gpart.split()]
        stats["wcq_gates_fired"] += fired
        stats["wcq_gate_timeouts"] += timeouts
        if fired == len(cfg.get("gates", [])) and timeouts == 0:
            stats["wcq_placed_schedules_realised"] += 1
    batches = [[int(x) for x in b.split(",")] if b else [] for b in bpart.strip().split(";")] if bpart.strip() else []
    events = [tk for tk in epart.split() if tk.split(":")[1] != "call"]
    # barging: calls that arrive later and link while an earlier call sleeps in link()
    asleep, barged = {}, 0
    for tk in events:
        f = tk.split(":")
        t = int(f[0])
        if f[1] == "link_wait":
            asleep.setdefault(t, 0)
        elif f[1] == "link":
            if t in asleep:
                barged = max(barged, asleep.pop(t))
            else:
                for u in asleep:
                    asleep[u] += 1
    stats["wcq_runs_with_barging"] += 1 if barged else 0
    stats["wcq_max_overtaken_in_link"] = max(stats["wcq_max_overtaken_in_link"], barged)
    progs = cfg["progs"]
    # every call returned, with the output made for its own input
    for t, p in enumerate(progs):
        got = res.get(t, [])
        if [g[0] for g in got] != p:
            bad.append("thread %d completed calls %s of %s" % (t, [g[0] for g in got], p))
        for inp, o in got:
            if o is None:
                bad.append("thread %d: do_work(%d) panicked" % (t, inp))
            elif o[0] != inp:
                bad.append("thread %d: do_work(%d) returned the output made for input %d" % (t, inp, o[0]))
            elif o[1] >= len(batches) or o[2] >= len(batches[o[1]]) or batches[o[1]][o[2]] != inp:
                bad.append("thread %d: output %s of do_work(%d) is not at that position of the core's batch log" % (t, o, inp))
    # the core saw each input exactly once
    flat = [x for b in batches for x in b]
    allin = sorted(x for p in progs for x in p)
    if sorted(flat) != allin:
        bad.append("core saw inputs %s, submitted %s" % (sorted(flat), allin))
    # in the order the calls entered the queue (= link order = index order)
    nth = {t: 0 for t in range(len(progs))}
    link_order = {}
    for tk in events:
        f = tk.split(":")
        if f[1] == "link":
            t = int(f[0])
            if nth[t] < len(progs[t]):
                link_order[int(f[2])] = progs[t][nth[t]]
            nth[t] += 1
            stats["wcq_links"] += 1
        elif f[1] == "link_wait":
            stats["wcq_link_blocked"] += 1
        elif f[1] == "wait":
            stats["wcq_waits"] += 1
        elif f[1] == "saw_output":
            stats["wcq_followers"] += 1
        elif f[1] == "leader":
            stats["wcq_leaders"] += 1
        elif f[1] == "break":
            stats["wcq_breaks"] += 1
    by_index = [link_order[i] for i in sorted(link_order)]
    if sorted(link_order) != list(range(len(by_index))):
        bad.append("link indices are not consecutive: %s" % sorted(link_order))
    if flat != by_index:
        bad.append("core processed %s but the calls entered the queue in the order %s" % (flat, by_index))
    # the batching hints were honoured (first input always taken)
    for b in batches:
        if not b:
            bad.append("empty batch")
        if len(b) > max(1, cfg["limit"]):
            bad.append("batch %s longer than the limit %d" % (b, cfg["limit"]))
        if cfg["modulus"]:
            for x in b[1:]:
                if x % cfg["modulus"] == 0:
                    bad.append("batch %s contains refused input %d" % (b, x))
    stats["wcq_batches"] += len(batches)
    stats["wcq_batched_gt1"] += sum(1 for b in batches if len(b) > 1)
    return bad, res, batches, " ".join(events)


# ======================================================================== plumbing
def run_lines(exe, lines, workdir, tag, timeout=2400):
    """feed lines to a per-line filter; if the process dies early (exit 3 = HANG), continue with a
    fresh process after the line it died on"""
    outs = []
    i = 0
    rounds = 0
    while i < len(lines):
        rounds += 1
        p = os.path.join(workdir, "%s.%d.in" % (tag, rounds))
        with open(p, "w") as fh:
            fh.write("\n".join(lines[i:]) + "\n")
        rc, out = vlib.sh("%s < %s 2>/dev/null" % (exe, p), timeout=timeout)
        res = out.split("\n")
        if res and res[-1] == "":
            res.pop()
        res = res[:len(lines) - i]
        outs += res
        i += len(res)
        if i < len(lines):
            if rounds > 40:
                outs += ["DIED rc=%d" % rc] * (len(lines) - i)
                break
            if not res or "HANG" not in res[-1].split("| E")[0]:
                # the process died (abort / timeout) while working on line i: that case is DIED,
                # the rest is run by a fresh process
                outs.append("DIED rc=%d" % rc)
                i += 1
                continue
            if "HANG" in res[-1].split("| E")[0]:
                # threads stuck inside the queue: one such case is a verdict; every further one
                # would cost the watchdog time again
                outs += ["SKIPPED"] * (len(lines) - i)
                break
    return outs


def load_corpus():
    d = os.path.join(vlib.VERIF, "corpus", PID)
    cases = []
    if os.path.isdir(d):
        for fn in sorted(os.listdir(d)):
            if fn.endswith(".json"):
                with open(os.path.join(d, fn)) as fh:
                    c = json.load(fh)
                c["file"] = fn
                cases.append(c)
    return cases


def run(chk):
    t_start = time.time()
    ok_proof, info = vlib.proof_stage(chk, PROPS, MODULE, const_areas=("Sync42",), pins_rel="pins/C18.v")
    okx, outx = vlib.coq_make(["theories/Sync42/Extract.vo"])
    okm, outm, mx = vlib.ocaml_build("sync42", "mx_sync42")
    okh, outh, (hxbin,) = vlib.cargo_build(["c18"])
    if not (okx and okm):
        raise RuntimeError("model build failed:\n" + outx[-1500:] + outm[-1500:])
    if not okh:
        raise RuntimeError("harness build failed (does /repo still compile?):\n" + outh[-3000:])
    t_built = time.time()

    quick = chk.tier == "quick"
    rng = vlib.Rng(chk.seed * 1000003 + 18)
    stats = {k: 0 for k in [
        "insert", "insert_overwrite", "insert_no_evict", "lookup_hit", "lookup_miss", "remove", "pop", "size",
        "over_capacity_states", "ref_capacity_broken",
        "wl_blocked_links", "wl_wakes", "wl_links", "wl_links_after_block", "wl_unlink_head", "wl_unlink_other",
        "wl_notify_head", "wl_is_head_true", "wl_is_head_false",
        "wcq_core_refuse", "wcq_core_limit", "wcq_core_accept", "wcq_small_ring", "wcq_full_ring", "wcq_links",
        "wcq_link_blocked", "wcq_waits", "wcq_followers", "wcq_leaders", "wcq_breaks", "wcq_batches", "wcq_batched_gt1",
        "wcq_core_overproducing", "wcq_core_exact", "wcq_gates_fired", "wcq_gate_timeouts",
        "wcq_placed_schedules_realised", "wcq_runs_with_barging", "wcq_max_overtaken_in_link"]}
    prop_bad, corr_bad = [], []
    corpus = load_corpus()

    # ---------------------------------------------------------------- LRU
    n_lru = 20000 if quick else 500000
    lru_cases = [(c["impl"], c["expect"], "corpus:" + c["file"]) for c in corpus if c.get("part") == "lru"]
    n_lru_corpus = len(lru_cases)
    r1 = rng.fork()
    for k in range(n_lru):
        lru_cases.append(lru_gen(r1, stats) + ("lru%d" % k,))
    n_exh = 0
    if not quick:
        ex = lru_exhaustive(5)
        n_exh = len(ex)
        lru_cases += [(a, b, "exh%d" % i) for i, (a, b) in enumerate(ex)]
    impl_out = run_lines(hxbin, [c[0] for c in lru_cases], chk.work, "lru_impl")
    model_out = run_lines(mx, [c[0] for c in lru_cases], chk.work, "lru_model")
    if len(impl_out) != len(lru_cases) or len(model_out) != len(lru_cases):
        raise RuntimeError("lru: output line count mismatch impl=%d model=%d cases=%d" % (len(impl_out), len(model_out), len(lru_cases)))
    lru_distinct = set()
    for (line, exp, tag), io, mo in zip(lru_cases, impl_out, model_out):
        if line.count(";") >= 4 and not io.endswith("| 0"):
            lru_distinct.add(line)
        if io != exp:
            prop_bad.append({"part": "lru", "tag": tag, "case": line, "impl_out": io, "model_out": mo, "spec_out": exp,
                             "what": "cache differs from the sequential LRU map (lookups / pops / size / final order)"})
        elif mo != io:
            corr_bad.append({"part": "lru", "tag": tag, "case": line, "impl_out": io, "model_out": mo, "spec_out": exp})

    # ---------------------------------------------------------------- LRU, several threads
    n_lruc = 300 if quick else 10000
    r1c = rng.fork()
    lruc_cases = [lruc_gen(r1c, stats) for _ in range(n_lruc)]
    lruc_out = run_lines(hxbin, [c[0] for c in lruc_cases], chk.work, "lruc_impl")
    if len(lruc_out) != len(lruc_cases):
        raise RuntimeError("lruc: output line count mismatch")
    seq_cases, seq_obs, seq_tags = [], [], []
    for k, ((line, cap, progs), out) in enumerate(zip(lruc_cases, lruc_out)):
        seq, obs, bad = lruc_linearise(out, cap, progs)
        if bad:
            prop_bad.append({"part": "lruc", "tag": "lruc%d" % k, "case": line, "impl_out": out[:2000], "what": bad[:5]})
            continue
        seq_cases.append(seq)
        seq_obs.append(obs)
        seq_tags.append((k, line, out))
    seq_model = run_lines(mx, seq_cases, chk.work, "lruc_model") if seq_cases else []
    lruc_ok = 0
    for (k, line, out), seq, obs, mo in zip(seq_tags, seq_cases, seq_obs, seq_model):
        # independent reference on the linearised sequence
        toks = seq.split(";")
        ref = LruRef(int(toks[0].split()[1]))
        exp = []
        for op in toks[1:]:
            t = op.split()
            if t[0] == "i":
                ref.insert(int(t[1]), int(t[2]), int(t[3]))
            elif t[0] == "n":
                ref.insert(int(t[1]), int(t[2]), int(t[3]), evict=False)
            elif t[0] == "l":
                e = ref.lookup(int(t[1]))
                exp.append("%d:%d" % (e[1], e[2]) if e else "-")
            elif t[0] == "r":
                ref.remove(int(t[1]))
            elif t[0] == "p":
                e = ref.pop()
                exp.append("%d=%d:%d" % tuple(e) if e else "-")
        exp.append("| %d" % ref.size())
        for e in reversed(ref.l):
            exp.append("%d=%d:%d" % tuple(e))
        exp = " ".join(exp)
        obs = " ".join(obs.split())
        if obs != exp:
            prop_bad.append({"part": "lruc", "tag": "lruc%d" % k, "case": line, "impl_out": out[:2000], "linearised": seq,
                             "observed": obs, "spec_out": exp,
                             "what": "the concurrent run is not the sequential LRU map applied in the order the operations entered the critical section"})
        elif mo != exp:
            corr_bad.append({"part": "lruc", "tag": "lruc%d" % k, "case": seq, "impl_out": obs, "model_out": mo, "spec_out": exp})
        else:
            lruc_ok += 1

    # ---------------------------------------------------------------- model exploration
    # every schedule of the extracted small-step model for small configurations (a check of the
    # model the theorems are about, not of the implementation)
    mc_cfgs = ["mc 2 100 0 400000 ; 1 ; 2", "mc 1 100 0 400000 ; 1 ; 2 ; 3", "mc 1 0 0 400000 ; 1 2 ; 3",
               "mc 2 2 0 400000 ; 1 ; 2 ; 3", "mc 2 100 0 400000 2 ; 1 ; 2 ; 3", "mc 1 1 0 400000 1 ; 1 2 ; 3"]
    if not quick:
        mc_cfgs += ["mc 2 100 0 6000000 ; 1 2 ; 3 4 ; 5", "mc 1 2 0 6000000 ; 1 2 ; 3 4 ; 5",
                    "mc 3 1 0 6000000 ; 1 ; 2 ; 3 ; 4", "mc 2 3 2 6000000 ; 1 ; 2 ; 3 ; 4",
                    "mc 1 100 0 6000000 ; 1 ; 2 ; 3 ; 4", "mc 2 100 3 6000000 ; 1 2 3 ; 4 5",
                    "mc 1 1 0 6000000 ; 1 2 ; 3 4 ; 5 6", "mc 2 100 0 20000000 ; 1 2 ; 3 4 ; 5 6",
                    "mc 2 2 0 20000000 ; 1 ; 2 ; 3 ; 4 ; 5", "mc 3 2 2 20000000 ; 1 2 ; 3 4 ; 5 6"]
    mc_out = run_lines(mx, mc_cfgs, chk.work, "mc")
    mc_states = 0
    for cfg_line, o in zip(mc_cfgs, mc_out):
        if not o.startswith("OK "):
            corr_bad.append({"part": "model", "tag": "mc", "case": cfg_line, "model_out": o,
                             "what": "exhaustive exploration of the extracted small-step model found a panic / deadlock / wrong result (or was truncated)"})
        else:
            mc_states += int(o.split("states=")[1].split()[0])

    # ---------------------------------------------------------------- wait list
    n_wl = 400 if quick else 10000
    wl_cases = [(c["impl"], c["slots"], "corpus:" + c["file"]) for c in corpus if c.get("part") == "wl"]
    r2 = rng.fork()
    for k in range(n_wl):
        wl_cases.append(wl_gen(r2, stats) + ("wl%d" % k,))
    wl_out = run_lines(hxbin, [c[0] for c in wl_cases], chk.work, "wl_impl")
    if len(wl_out) != len(wl_cases):
        raise RuntimeError("wl: output line count mismatch")
    wl_model_in, wl_expect, wl_tags = [], [], []
    wl_distinct = set()
    for (line, slots, tag), io in zip(wl_cases, wl_out):
        if io.endswith("PANIC") or io.startswith("DIED"):
            prop_bad.append({"part": "wl", "tag": tag, "case": line, "impl_out": io[-300:], "what": "wait list panicked / harness died"})
            continue
        mline, mexp, bad = wl_replay(io.split(), slots, stats)
        if bad:
            prop_bad.append({"part": "wl", "tag": tag, "case": line, "impl_trace": io, "what": bad[:5]})
            continue
        wl_model_in.append(mline)
        wl_expect.append(mexp)
        wl_tags.append((tag, line))
        if len(mline.split(";")) >= 6:
            wl_distinct.add(mline)
    wl_model_out = run_lines(mx, wl_model_in, chk.work, "wl_model") if wl_model_in else []
    for (tag, line), mline, mexp, mo in zip(wl_tags, wl_model_in, wl_expect, wl_model_out):
        if mo != mexp:
            corr_bad.append({"part": "wl", "tag": tag, "case": line, "model_case": mline, "impl_out": mexp, "model_out": mo})

    # ---------------------------------------------------------------- coalescing queue
    n_wcq = 800 if quick else 30000
    cfgs = [(c["cfg"], "corpus:" + c["file"]) for c in corpus if c.get("part") == "wcq"]
    r3 = rng.fork()
    placed = wcq_placed(r3)
    if not quick:
        placed = placed * 20
    for k, c in enumerate(placed):
        cfgs.append((c, "placed%d" % k))
    for k in range(n_wcq):
        cfgs.append((wcq_gen(r3, stats), "wcq%d" % k))
    # a long-running caller next to a call that has to wait for the only slot: how many later calls
    # overtake the one asleep in link() (known class link-starvation)
    # (the gate names no thread of the run: it only switches the pauses between calls off)
    cfgs.append((dict(slots=1, limit=1000, modulus=0, delay=0, seed=1, extra=0, gates=[(99, "call", 1, 0, "link", 1)],
                      progs=[[1000 + k for k in range(300)], [5], [7], [11], [13], [17]]), "barging"))
    wcq_out = run_lines(hxbin, [wcq_line(c) for c, _ in cfgs], chk.work, "wcq_impl")
    if len(wcq_out) != len(cfgs):
        raise RuntimeError("wcq: output line count mismatch")
    acc_in, acc_meta = [], []
    wcq_distinct = set()
    barging_demo = {}
    for (cfg, tag), out in zip(cfgs, wcq_out):
        if out == "SKIPPED":
            continue
        if out.startswith("DIED") or out.endswith("PANIC"):
            prop_bad.append({"part": "wcq", "tag": tag, "case": wcq_line(cfg), "impl_out": out[-400:], "what": "harness died / panic"})
            continue
        before = stats["wcq_max_overtaken_in_link"]
        if tag == "barging":
            stats["wcq_max_overtaken_in_link"] = 0
        bad, res, batches, ev = wcq_oracle(cfg, out, stats)
        if tag == "barging":
            barging_demo = {"case": wcq_line(cfg)[:120] + " ...", "later_calls_that_overtook_a_call_asleep_in_link": stats["wcq_max_overtaken_in_link"]}
            stats["wcq_max_overtaken_in_link"] = max(before, stats["wcq_max_overtaken_in_link"])
        if bad:
            prop_bad.append({"part": "wcq", "tag": tag, "case": wcq_line(cfg), "what": bad[:5], "impl_out": out[:3000]})
            continue
        # a ring with more slots than there are calls never fills and never wraps: the model is
        # run with (number of calls + 1) slots in that case (the extracted naturals are unary)
        mslots = min(cfg["slots"], sum(len(p) for p in cfg["progs"]) + 1)
        acc_in.append("wcq %d %d %d %d ; %s | %s" % (mslots, cfg["limit"], cfg["modulus"], cfg.get("extra", 0),
                                                     " ; ".join(" ".join(str(x) for x in p) for p in cfg["progs"]), ev))
        acc_meta.append((cfg, tag, res, batches))
        wcq_distinct.add(ev)
    acc_out = run_lines(mx, acc_in, chk.work, "wcq_model") if acc_in else []
    # traces the strict acceptor rejects are tried again without the wake-up discipline: if that
    # accepts, the only thing wrong was a wake-up the model cannot explain by a notification
    retry = [i for i, ao in enumerate(acc_out) if ao.startswith("REJECT")]
    unexplained = []
    if retry:
        lenient_in = []
        for i in retry:
            hd, rest = acc_in[i].split(" ; ", 1)
            lenient_in.append(hd + " lenient ; " + rest)
        lenient_out = run_lines(mx, lenient_in, chk.work, "wcq_model_lenient")
        for i, lo in zip(retry, lenient_out):
            if lo.startswith("ACCEPT finished"):
                unexplained.append((acc_meta[i][1], acc_out[i]))
                acc_out[i] = lo
    accepted = 0
    for (cfg, tag, res, batches), line, ao in zip(acc_meta, acc_in, acc_out):
        okc = False
        if ao.startswith("ACCEPT finished R "):
            try:
                rpart, rest = ao[len("ACCEPT finished R "):].split(" | B ", 1)
                bpart, lpart = rest.split(" | L ", 1)
                mres = parse_results(rpart)
                mb = [[int(x) for x in b.split(",")] for b in bpart.strip().split(";")] if bpart.strip() else []
                okc = (mb == batches and all([o for _, o in mres.get(t, [])] == [o for _, o in res.get(t, [])] for t in range(len(cfg["progs"]))))
            except ValueError:
                okc = False
        if okc:
            accepted += 1
        else:
            corr_bad.append({"part": "wcq", "tag": tag, "case": wcq_line(cfg), "model_verdict": ao[:300],
                             "what": "the small-step model does not accept the recorded trace / predicts other outputs",
                             "acceptor_input": line[:6000]})

    # wake-ups without a notification: a real condition variable may wake spuriously (rarely), a
    # queue that notifies the wrong waiter does so all the time
    if len(unexplained) >= 3:
        corr_bad.append({"part": "wcq", "tag": unexplained[0][0], "case": "see tag", "model_verdict": unexplained[0][1],
                         "what": "%d traces contain a wake-up that no notification explains (strict acceptor rejects, lenient accepts): a notify goes to the wrong waiter or is missing" % len(unexplained)})

    # the known class: a call asleep in link() is overtaken by calls that arrived later
    if stats["wcq_runs_with_barging"]:
        for kind, cls, text in vlib.known_findings(PID):
            if kind == "known" and cls == "link-starvation":
                for _ in range(stats["wcq_runs_with_barging"]):
                    chk.known(cls, "a call asleep in WaitList::link was overtaken by later calls (up to %d in one run); unbounded by theorem C18_link_starvation_refuted" % stats["wcq_max_overtaken_in_link"])

    # ---------------------------------------------------------------- the core's contract (informational)
    # work() must yield at least `taken` outputs.  What the real queue does otherwise (outside the
    # property, which is about cores that accept, limit or refuse batching):
    demo = {}
    d1 = dict(slots=4, limit=1000, modulus=0, delay=0, seed=1, extra=0, short=1, watchdog=1500, progs=[[1], [101]],
              gates=[(1, "call", 1, 0, "link", 1), (0, "leader", 1, 1, "link", 1)])
    d2 = dict(slots=4, limit=1000, modulus=0, delay=0, seed=1, extra=0, short=2, watchdog=1500, progs=[[1], [101]],
              gates=[(1, "call", 1, 0, "unlink", 1)])
    for name, d in (("one_output_too_few", d1), ("no_outputs", d2)):
        o = run_lines(hxbin, [wcq_line(d)], chk.work, "contract_" + name)
        o = o[0] if o else ""
        hd = o.split("| E")[0]
        demo[name] = {"case": wcq_line(d), "observed": hd.strip()[:200]}
    demo["reading"] = ("one output too few for a batch of two: the leader returns, the waiter whose input was taken keeps "
                       "the Stolen cell and panics ('stolen at head of line') when it becomes head (or sleeps for ever if it does not); "
                       "no outputs: the leader panics ('Thread gave everyone except itself an output') with doing_work still set "
                       "and `core` poisoned, so every later call blocks for ever (HANG)")

    t_end = time.time()
    evaluations = len(lru_cases) + len(lruc_cases) + len(wl_cases) + len(cfgs)
    chk.coverage.update({
        "evaluations": evaluations,
        "distinct_nontrivial": len(lru_distinct) + len(wl_distinct) + len(wcq_distinct),
        "rule": "lru: op lists (insert / insert_no_evict / lookup / remove / pop / size) over 1..20 keys with sizes biased to 0,1,cap-1,cap,cap+1 and capacities 0..2^40, non-trivial = at least 4 ops and a non-empty final cache, distinct = distinct op strings; wait list: op lists (link incl. blocking, unlink any guard, notify_head, store, load, is_head, count, iterate, get_waiter) on rings of 1..8 slots, distinct = distinct replayed model op lists with >= 5 ops; queue: 2..8 threads x 1..5 calls, rings of 1..4 slots or MAX_CONCURRENCY, cores that refuse / limit / accept batching and refuse by input value, distinct = distinct recorded event traces; all from one SplitMix64 seed (real-thread schedules are not reproducible from the seed; the recorded trace is stored with every failure)",
        "samples": [lru_cases[n_lru_corpus][0][:300], wl_cases[-1][0][:300], wcq_line(cfgs[-1][0])[:300]],
        "input_distribution": stats,
        "corpus_cases": len(corpus),
        "lru_cases": len(lru_cases), "lru_exhaustive_cases": n_exh,
        "lru_concurrent_runs": len(lruc_cases), "lru_concurrent_runs_linearised_ok": lruc_ok,
        "model_exploration": {"configurations": len(mc_cfgs), "states": mc_states,
                              "what": "all schedules of the extracted small-step queue model for small configurations: no panic, no deadlock, results correct"},
        "waitlist_cases": len(wl_cases), "queue_runs": len(cfgs), "queue_placed_schedules": len(placed),
        "queue_traces_with_unexplained_wakeup": len(unexplained),
        "core_contract_demo": demo,
        "link_starvation_demo": barging_demo,
        "traces_validated_against_impl": accepted + len(wl_model_out) - sum(1 for c in corr_bad if c["part"] == "wl"),
        "queue_traces_accepted_by_model": accepted,
        "correspondence": "lru: Rust vs extracted pointer-level model vs independent Python LRU map (3-way), plus multi-threaded runs on one cache linearised by the order in which the hook saw the operations enter the critical section; wait list: recorded trace of the real ring replayed on the extracted ring model and on a Python statement of the specification; queue: hook trace of real multi-threaded runs accepted by the extracted small-step model (which must predict the same outputs and batches) + direct oracle on outputs, core log and link order",
        "disagreements_impl_vs_model": len(corr_bad), "disagreements_impl_vs_spec": len(prop_bad),
        "timing_s": {"proof_and_builds": round(t_built - t_start, 1), "runs": round(t_end - t_built, 1)},
        "trusted_base": [
            "Coq 8.16.1 kernel (coqc, full .vo build)",
            "fidelity of ModelLru.v / ModelWaitList.v / ModelWcq.v to the Rust source (sampled by the runs above); the merging of adjacent critical sections into one model step (argued in ModelWcq.v from the lock discipline)",
            "interleaving (sequentially consistent) semantics of std::sync::Mutex / Condvar; notify_one wakes at most one sleeper; spurious wake-ups allowed",
            "tools/constants.py (MAX_CONCURRENCY re-extracted from sync42/src/lib.rs)",
            "extraction via ExtrOcamlBasic (no Extract Constant of ours) + ocaml/sync42/mx_sync42.ml driver",
            "harness/src/bin/c18.rs and the cfg(blue_verif) hooks in sync42 (events are recorded inside the critical section of the step they describe)",
            "HashMap, Box allocation (fresh addresses) and the core's contract (work yields at least `taken` outputs) are abstracted",
        ],
    })
    chk.assumptions = [
        "key equality is decidable and reflects equality (keqb_spec)",
        "the core's work() returns at least `taken` outputs (hypothesis of every queue theorem; NOT in the trait's documentation and not checked by do_work: with fewer outputs the waiters left over stay Stolen and never return, with none the leader panics holding `core` with doing_work set; shown on the real queue in coverage.core_contract_demo; more outputs than `taken` are allowed and exercised: the surplus must not be handed out)",
        "sequential consistency of the mutex / condition-variable operations; no fairness assumed: progress is proved as deadlock freedom + a bound on the effective steps of ANY run (finite workloads always complete); with unboundedly many arrivals a call asleep in link() can be overtaken for ever (known class link-starvation), a linked call cannot",
        "usize additions in the LRU byte count do not wrap",
    ]

    if prop_bad:
        b = prop_bad[0]
        name = "c18_%s_%s.json" % (b["part"], b["tag"].replace(":", "_"))
        chk.violation(name, {"kind": "property", "failures": len(prop_bad), "case": b,
                             "replay_cmd": "./bin/check C18 --replay work/replay/C18/" + name})
    elif corr_bad or not ok_proof:
        chk.violation("c18_unproved.json", {"kind": "no-failing-input-found", "broken": info["broken"],
                                            "correspondence_disagreements": corr_bad[:5]}, no_input=True)


def replay(path):
    with open(path) as fh:
        obj = json.load(fh)
    print(json.dumps(obj, indent=1)[:6000])
    case = obj.get("case")
    if not case or "case" not in case:
        return 1
    okh, outh, (hxbin,) = vlib.cargo_build(["c18"])
    rc, out = vlib.sh("echo '%s' | %s" % (case["case"], hxbin), timeout=120)
    out = out.strip()
    print("impl now :", out[:3000])
    if case["part"] == "lru":
        print("spec     :", case["spec_out"])
        return 0 if out == case["spec_out"] else 1
    stats = {}

    class D(dict):
        def __missing__(self, k):
            return 0
    stats = D()
    if case["part"] == "wl":
        slots = int(case["case"].split()[1])
        _, _, bad = wl_replay(out.split(), slots, stats)
        print("oracle   :", bad or "ok")
        return 0 if not bad else 1
    if case["part"] == "wcq":
        f = case["case"].split(";")
        h = f[0].split()
        cfg = dict(slots=int(h[1]), limit=int(h[2]), modulus=int(h[3]), delay=int(h[4]), seed=int(h[5]),
                   extra=int(h[6]) if len(h) > 6 else 0,
                   progs=[[int(x) for x in p.split()] for p in f[1:] if not p.split()[0] == "G"],
                   gates=[p.split()[1:] for p in f[1:] if p.split()[0] == "G"])
        bad, _, _, _ = wcq_oracle(cfg, out, stats)
        print("oracle   :", bad or "ok (schedules of real threads vary from run to run)")
        return 0 if not bad else 1
    return 1
