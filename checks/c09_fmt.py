"""C09 helpers: CRC32C, an independent reading of the three file formats (just enough to find
the regions of a file and to forge CRC-consistent malformed files), patch strings, FNV digests."""

# ---------------------------------------------------------------- crc32c (Castagnoli, reflected)
_T = []
for _i in range(256):
    _c = _i
    for _ in range(8):
        _c = (_c >> 1) ^ 0x82F63B78 if _c & 1 else _c >> 1
    _T.append(_c)


def crc32c(b):
    c = 0xFFFFFFFF
    for x in b:
        c = _T[(c ^ x) & 0xFF] ^ (c >> 8)
    return c ^ 0xFFFFFFFF


assert crc32c(b"123456789") == 0xE3069283

# ---------------------------------------------------------------- FNV-1a 64 (the harness digest)
FNV_INIT = 0xCBF29CE484222325
M64 = (1 << 64) - 1


def fnv(h, b):
    for x in b:
        h = ((h ^ x) * 0x100000001B3) & M64
    return h


def digest_list(items):
    """[(n, digest)] for every prefix length 0..len(items) of a list of canonical strings"""
    h = FNV_INIT
    out = [(0, h)]
    for i, s in enumerate(items):
        h = fnv(fnv(h, s.encode()), b"\n")
        out.append((i + 1, h))
    return out


# ---------------------------------------------------------------- varints / protobuf fields
def varint(n):
    out = bytearray()
    while True:
        b = n & 0x7F
        n >>= 7
        if n:
            out.append(b | 0x80)
        else:
            out.append(b)
            return bytes(out)


def unvarint(b, i):
    """(value, next index) or raises ValueError"""
    v, sh = 0, 0
    for k in range(10):
        if i + k >= len(b):
            raise ValueError("short varint")
        x = b[i + k]
        v |= (x & 0x7F) << sh
        sh += 7
        if x < 0x80:
            return v & M64, i + k + 1
    raise ValueError("long varint")


def fields(b, lo=0, hi=None):
    """the (field number, wire type, value start, value end, field end) of a well-formed message
    in b[lo:hi]; value range is the payload for length-delimited fields"""
    hi = len(b) if hi is None else hi
    out = []
    i = lo
    while i < hi:
        t0 = i
        tag, i = unvarint(b, i)
        num, wt = tag >> 3, tag & 7
        if wt == 0:
            _, j = unvarint(b, i)
            out.append((num, wt, t0, i, j, j))
            i = j
        elif wt == 1:
            out.append((num, wt, t0, i, i + 8, i + 8))
            i += 8
        elif wt == 5:
            out.append((num, wt, t0, i, i + 4, i + 4))
            i += 4
        elif wt == 2:
            n, j = unvarint(b, i)
            out.append((num, wt, t0, j, j + n, j + n))
            i = j + n
        else:
            raise ValueError("wire type")
        if i > hi:
            raise ValueError("overrun")
    return out


# ---------------------------------------------------------------- SST layout
class SstLayout:
    """regions of a well-formed SST file as [lo, hi) byte ranges with a name:
    data<i>.env / data<i>.payload, index.env / index.payload, filter.env / filter.payload,
    final (without the trailer), trailer (the last 8 bytes)"""

    def __init__(self, b):
        self.b = b
        n = len(b)
        self.fbo = int.from_bytes(b[n - 8:], "little")
        fb = fields(b, self.fbo, n)
        self.final_fields = fb
        meta = {}
        for num, wt, t0, v0, v1, e in fb:
            if num in (16, 17):
                m = {}
                for n2, w2, tt, a, z, ee in fields(b, v0, v1):
                    if n2 == 13:
                        m["start"] = unvarint(b, a)[0]
                    elif n2 == 14:
                        m["limit"] = unvarint(b, a)[0]
                    elif n2 == 15:
                        m["crc"] = int.from_bytes(b[a:a + 4], "little")
                        m["crc_at"] = a
                meta[num] = m
        self.index = meta[16]
        self.filter = meta[17]
        self.regions = []
        # data blocks from the index block
        ib = self.frame(self.index["start"], self.index["limit"])
        self.data = []
        body = b[ib[0]:ib[1]]
        # records of the index block up to the footer (field 10)
        i = 0
        for num, wt, t0, v0, v1, e in fields(body):
            if num in (8, 9):
                ent = {}
                for n2, w2, tt, a, z, ee in fields(body, v0, v1):
                    if n2 == 4:
                        for n3, w3, t3, a3, z3, e3 in fields(body, a, z):
                            if n3 == 13:
                                ent["start"] = unvarint(body, a3)[0]
                            elif n3 == 14:
                                ent["limit"] = unvarint(body, a3)[0]
                                ent["limit_at"] = ib[0] + a3
                                ent["limit_len"] = z3 - a3
                            elif n3 == 15:
                                ent["crc"] = int.from_bytes(body[a3:a3 + 4], "little")
                                ent["crc_at"] = ib[0] + a3
                if "start" in ent:
                    self.data.append(ent)
            else:
                break
        for k, d in enumerate(self.data):
            p = self.frame(d["start"], d["limit"])
            self.regions.append(("data%d.env" % k, d["start"], p[0]))
            self.regions.append(("data%d.payload" % k, p[0], p[1]))
        self.index_payload = ib
        self.regions.append(("index.env", self.index["start"], ib[0]))
        self.regions.append(("index.payload", ib[0], ib[1]))
        fp = self.frame(self.filter["start"], self.filter["limit"])
        self.filter_payload = fp
        self.regions.append(("filter.env", self.filter["start"], fp[0]))
        self.regions.append(("filter.payload", fp[0], fp[1]))
        self.regions.append(("final", self.fbo, n - 8))
        self.regions.append(("trailer", n - 8, n))

    def frame(self, start, limit):
        """payload range of the SstEntry frame occupying [start, limit)"""
        f = fields(self.b, start, limit)
        assert len(f) == 1 and f[0][5] == limit, "one frame per range"
        return (f[0][3], f[0][4])

    def region_of(self, off):
        for name, lo, hi in self.regions:
            if lo <= off < hi:
                return name
        return "gap"


def block_records(body):
    """(offsets of the records, restarts boundary) of a well-formed block"""
    offs = []
    boundary = len(body)
    for num, wt, t0, v0, v1, e in fields(body):
        if num in (8, 9):
            offs.append((t0, e))
        elif num == 10:
            boundary = t0
            break
    return offs, boundary


# ---------------------------------------------------------------- log layout
def log_layout(b, block_bits=20):
    """regions of a well-formed log: per frame  hsz (1 byte), header, body; padding runs"""
    regs = []
    i, k = 0, 0
    n = len(b)
    while i < n:
        if b[i] == 0:
            j = i
            while j < n and b[j] == 0 and (j >> block_bits) == (i >> block_bits):
                j += 1
            regs.append(("pad", i, j))
            i = j
            continue
        hs = b[i]
        size = 0
        disc = 0
        for num, wt, t0, v0, v1, e in fields(b, i + 1, i + 1 + hs):
            if num == 10:
                size = unvarint(b, v0)[0]
            elif num == 11:
                disc = unvarint(b, v0)[0]
        regs.append(("f%d.hsz" % k, i, i + 1))
        regs.append(("f%d.header" % k, i + 1, i + 1 + hs))
        regs.append(("f%d.body" % k, i + 1 + hs, i + 1 + hs + size))
        i = i + 1 + hs + size
        k += 1
    return regs


# ---------------------------------------------------------------- manifest layout
def mani_layout(b):
    """regions of a well-formed manifest: per line  crc (8 hex digits), action, payload, newline;
    separator lines and their newline"""
    regs = []
    i, k = 0, 0
    while i < len(b):
        j = b.index(b"\n", i)
        line = b[i:j]
        if line == b"--------":
            regs.append(("sep%d" % k, i, j))
            regs.append(("sep%d.nl" % k, j, j + 1))
        else:
            regs.append(("l%d.crc" % k, i, i + 8))
            regs.append(("l%d.action" % k, i + 8, i + 9))
            regs.append(("l%d.payload" % k, i + 9, j))
            regs.append(("l%d.nl" % k, j, j + 1))
        i = j + 1
        k += 1
    return regs


# ---------------------------------------------------------------- patches
def patch_apply(b, patch):
    d = bytearray(b)
    if patch in ("-", ""):
        return bytes(d)
    for p in patch.split(","):
        k, r = p[0], p[1:]
        if k == "o":
            a, v = r.split(":")
            if int(a) < len(d):
                d[int(a)] = int(v)
        elif k == "f":
            a, v = r.split(":")
            if int(a) < len(d):
                d[int(a)] ^= 1 << int(v)
        elif k == "t":
            del d[int(r):]
        elif k == "x":
            d.extend(bytes.fromhex(r))
        else:
            raise ValueError(p)
    return bytes(d)


def overwrite_patch(b, off, new):
    """patch string that replaces b[off:off+len(new)] by new"""
    return ",".join("o%d:%d" % (off + i, x) for i, x in enumerate(new) if b[off + i] != x) or "-"


# ---------------------------------------------------------------- forging files (malformed stream)
def le32(x):
    return (x & 0xFFFFFFFF).to_bytes(4, "little")


def enc_kve(shared, frag, ts, val):
    """one KeyValueEntry record (val None = tombstone)"""
    if val is not None:
        body = b"\x08" + varint(shared) + b"\x12" + varint(len(frag)) + frag + b"\x18" + varint(ts) + b"\x22" + varint(len(val)) + val
        return b"\x42" + varint(len(body)) + body
    body = b"\x28" + varint(shared) + b"\x32" + varint(len(frag)) + frag + b"\x38" + varint(ts)
    return b"\x4a" + varint(len(body)) + body


def enc_block(records, restarts, nrest=None, body_len=None):
    """bytes of a block: the records, the restart array and the capstone; nrest / body_len let the
    caller lie about the number of restarts / the length of the restart array"""
    arr = b"".join(le32(r) for r in restarts)
    return (records + b"\x52" + varint(len(arr) if body_len is None else body_len) + arr
            + b"\x5d" + le32(len(restarts) if nrest is None else nrest))


FRAME_TAG = {"plain": 0x52, "filter": 0x6A, "final": 0x62}


def enc_frame(kind, payload):
    return bytes([FRAME_TAG[kind]]) + varint(len(payload)) + payload


def enc_meta(start, limit, crc):
    return b"\x68" + varint(start) + b"\x70" + varint(limit) + b"\x7d" + le32(crc)


def enc_final(imeta, fmeta, setsum, smallest, biggest, fbo):
    return (b"\x82\x01" + varint(len(imeta)) + imeta + b"\x8a\x01" + varint(len(fmeta)) + fmeta
            + b"\x9a\x01\x20" + setsum + b"\xa0\x01" + varint(smallest) + b"\xa8\x01" + varint(biggest)
            + b"\x91\x01" + fbo.to_bytes(8, "little"))


def forge_sst(data_payloads, index_entries=None, filter_payload=None, lie=None):
    """an SST file assembled by hand with consistent CRCs.
    data_payloads: list of (dividing key, block payload bytes)
    index_entries: override of the index block payload builder: function(metas) -> payload
    lie: function(k, start, limit, crc) -> (start, limit, crc) applied to the metadata of data
    block k before it is written into the index block"""
    out = bytearray()
    metas = []
    for k, (key, payload) in enumerate(data_payloads):
        start = len(out)
        out += enc_frame("plain", payload)
        m = (start, len(out), crc32c(payload))
        if lie:
            m = lie(k, *m)
        metas.append((key, m))
    if index_entries:
        ipayload = index_entries(metas)
    else:
        recs = b"".join(enc_kve(0, key, 0, enc_meta(*m)) for key, m in metas)
        ipayload = enc_block(recs, [0])
    istart = len(out)
    out += enc_frame("plain", ipayload)
    ilimit = len(out)
    fpl = filter_payload if filter_payload is not None else b"\xff" * 32
    out += enc_frame("filter", fpl)
    flimit = len(out)
    out += enc_final(enc_meta(istart, ilimit, crc32c(ipayload)), enc_meta(ilimit, flimit, crc32c(fpl)),
                     b"\x00" * 32, 0, 0, flimit)
    return bytes(out)


# ---------------------------------------------------------------- SipHash-2-4 (sbbf.rs KEY)
SBBF_KEY = bytes([98, 124, 9, 13, 179, 65, 108, 38, 187, 225, 14, 208, 137, 80, 122, 145])


def siphash24(data, key16=SBBF_KEY):
    M = (1 << 64) - 1
    k0 = int.from_bytes(key16[:8], "little")
    k1 = int.from_bytes(key16[8:], "little")
    v = [k0 ^ 0x736f6d6570736575, k1 ^ 0x646f72616e646f6d, k0 ^ 0x6c7967656e657261, k1 ^ 0x7465646279746573]

    def rotl(x, b):
        return ((x << b) | (x >> (64 - b))) & M

    def rnd():
        v[0] = (v[0] + v[1]) & M; v[1] = rotl(v[1], 13); v[1] ^= v[0]; v[0] = rotl(v[0], 32)
        v[2] = (v[2] + v[3]) & M; v[3] = rotl(v[3], 16); v[3] ^= v[2]
        v[0] = (v[0] + v[3]) & M; v[3] = rotl(v[3], 21); v[3] ^= v[0]
        v[2] = (v[2] + v[1]) & M; v[1] = rotl(v[1], 17); v[1] ^= v[2]; v[2] = rotl(v[2], 32)

    n = len(data)
    for i in range(0, n - n % 8, 8):
        m = int.from_bytes(data[i:i + 8], "little")
        v[3] ^= m; rnd(); rnd(); v[0] ^= m
    m = int.from_bytes(data[n - n % 8:] + b"\x00" * (7 - n % 8) + bytes([n & 0xff]), "little")
    v[3] ^= m; rnd(); rnd(); v[0] ^= m
    v[2] ^= 0xff
    rnd(); rnd(); rnd(); rnd()
    return v[0] ^ v[1] ^ v[2] ^ v[3]
