"""C17 — the lock-free skiplist (skipfree) loses no insert and always iterates in order; the same for
the prepend-only list (listfree); an iterator remains valid for as long as it is held.

Decided by: the theorems of coq/theories/SkipList/Props_C17.v over small-step models of
skipfree/src/lib.rs (Model.v) and listfree/src/lib.rs (ModelList.v): invariants for EVERY schedule
of any number of threads at the granularity of the individual get_next/set_next/cas_next steps
(sequential consistency assumed), and from them: no lost insert, linearisable contains/seek/next/
prev (nearest key), sorted exactly-once iteration, prepend-list iteration newest-first once, and
the ownership model of the repaired iterator (F4).
Tied to the code by trace acceptance: the real code runs multi-threaded with `cfg(blue_verif)`
hooks at every atomic operation, (a) under a controlled scheduler (one thread runs between two
gates; schedule chosen from the seed; exhaustive for small scopes) and (b) free-running with a
lock around each atomic operation; the extracted model replays the recorded schedule and must
predict every event (node, level, value read, outcome of every CAS), every result and the final
content.  Direct oracle (no model): contains / seek / next / prev / full iteration against the set
of inserts completed before / begun before the observation, on the traces (Python) and on
untraced free-running stress runs (evaluated in the harness)."""
import json
import os
import re
import time

import vlib

META = {
    "category": "proof",
    "technique": "invariant proof over all interleavings of a small-step model (Coq) + trace acceptance of the real code (controlled scheduler, exhaustive small scopes) + direct oracle",
    "text": "Coq theorems (SkipList/Props_C17.v, closed under the global context) over small-step models of skipfree::SkipList and listfree::List: for every number of threads, every program and EVERY schedule at the granularity of single get_next/set_next/cas_next steps (sequential consistency assumed) the level chains are strictly sorted and gap-free, level l+1 is a sub-chain of level l, in-flight inserts keep valid predecessor/successor hypotheses, nothing panics; hence no returned insert is ever missed by a later contains or full iteration, iteration is strictly increasing and exactly-once, contains/seek/first/next/prev return the nearest key of the key set at their last read, iterator positions are consistent from one call to the next; the prepend list yields the content at its head load (newest first, once); with the F4 repair a held iterator never touches freed nodes. The models are tied to the code by replaying recorded real multi-threaded runs (every atomic operation hooked) in the extracted model, which must predict every event, result and the final content, plus a model-free direct oracle. Stage sk-iso: one thread, signed keys (some ordering below K::default(), the head sentinel's key): the same program on SkipList<i64> and shifted onto SkipList<u64>, both against a sorted-list reference cursor.",
    "note": "EVERY TRACED RUN IS SERIALISED: in sk-sched/ls-sched the gate lets exactly one thread run between two atomic operations and in sk-free/ls-free a global lock is held around each one, so the harness ENFORCES sequential consistency there and treats each hooked operation (get_next, set_next, cas_next, head load, head CAS) as atomic - an operation that is hooked as one step but is not atomic in the source (e.g. a CAS rewritten as load+store) is invisible to the traced stages. Only the untraced stages (sk-stress, sk-hammer, ls-stress, ls-hammer, sk-own: hooks off or registry only, real threads) execute with the hardware's real memory ordering, and that hardware is x86-64 (TSO) only; they are judged by the direct oracle alone. Trusted: Coq kernel; extraction (ExtrOcamlBasic) + ocaml/skiplist driver; harness c17 (scheduler, hooks, oracle); the add-only cfg(blue_verif) hooks in skipfree/listfree. Assumed: sequential consistency of the atomic operations (Release/Acquire/SeqCst on the hardware's memory model is not modelled); Rust's memory safety outside the modelled ownership discipline; the allocator never reuses a live node's address. Keys are u64 in the harness, unbounded N in the model (only compared). Lock-freedom/termination is not claimed.",
}

PROPS = "theories/SkipList/Props_C17.v"
MODULE = "SkipList.Props_C17"
MAXHS = [1, 2, 3, 4, 12]
U64 = (1 << 64) - 1


# ------------------------------------------------------------------------------- generators
def key_pool(rng, kind, n):
    """n distinct keys of a given shape"""
    if kind == "dense":
        span = max(n, 1) + rng.below(4)
        base = rng.choice([0, 1, 7, 1000, U64 - span + 1])
        ks = list(range(base, base + span))
    elif kind == "bounds":
        ks = [0, 1, 2, U64, U64 - 1, U64 - 2, 1 << 63, (1 << 63) - 1, (1 << 32), (1 << 32) - 1] + list(range(100, 100 + n))
    else:
        ks = []
        seen = set()
        while len(ks) < n + 2:
            k = rng.below(U64 + 1)
            if k not in seen:
                seen.add(k)
                ks.append(k)
    # shuffle
    for i in range(len(ks) - 1, 0, -1):
        j = rng.below(i + 1)
        ks[i], ks[j] = ks[j], ks[i]
    return ks[: max(n, 1)]


def gen_height(rng, maxh, style):
    if style == "random":
        return 0
    if style == "tall":
        return maxh if rng.chance(2, 3) else rng.range(1, maxh)
    if style == "flat":
        return 1
    # mixed: geometric-ish but much taller than 1/4
    h = 1
    while h < maxh and rng.chance(1, 2):
        h += 1
    return h


def gen_sk_progs(rng, nthreads, maxh, nins, nreads, stats, allow_dup=False):
    """inserter threads over one key pool (distinct keys), reader threads around the same keys"""
    kind = rng.choice(["dense", "dense", "dense", "asc", "desc", "random", "bounds"])
    pool = key_pool(rng, "dense" if kind in ("asc", "desc") else kind, nins)
    if kind == "asc":
        pool.sort()
    elif kind == "desc":
        pool.sort(reverse=True)
    stats["keys_" + kind] += 1
    hstyle = rng.choice(["mixed", "mixed", "tall", "flat", "random"])
    nwriters = max(1, rng.range(1, nthreads))
    if nthreads >= 2 and rng.chance(3, 4):
        nwriters = max(1, min(nwriters, nthreads - 1))
    progs = [[] for _ in range(nthreads)]
    # deal the keys: round-robin (neighbouring keys land in different threads) or in blocks
    deal = rng.choice(["rr", "rr", "block"])
    for i, k in enumerate(pool):
        w = i % nwriters if deal == "rr" else (i * nwriters) // max(len(pool), 1)
        progs[w].append("i%d:%d" % (k, gen_height(rng, maxh, hstyle)))
    near = lambda: max(0, min(U64, rng.choice(pool) + rng.choice([-1, 0, 0, 0, 1])))
    for t in range(nthreads):
        isreader = t >= nwriters
        n = nreads if isreader else rng.below(max(1, nreads // 3) + 1)
        ops = []
        while len(ops) < n:
            c = rng.below(100)
            if c < 22:
                ops.append("c%d" % near())
            elif c < 40:
                ops.append("s%d" % near())
            elif c < 55:
                ops.append("F")
                for _ in range(rng.range(0, min(len(pool) + 1, 8))):
                    ops.append("N")
            elif c < 65:
                ops.append("L")
                for _ in range(rng.range(1, 4)):
                    ops.append("P")
            elif c < 82:
                ops.append("N")
            else:
                ops.append("P")
        if isreader:
            progs[t] = ops
        else:
            # interleave reads between the inserts of a writer
            merged, ins = [], progs[t]
            i = j = 0
            while i < len(ins) or j < len(ops):
                if j >= len(ops) or (i < len(ins) and rng.chance(2, 3)):
                    merged.append(ins[i])
                    i += 1
                else:
                    merged.append(ops[j])
                    j += 1
            progs[t] = merged
    # outside the property's quantifier (distinct keys), for the correspondence only: a key that is
    # inserted twice.  Sequentially the second insert hits the assert; concurrently both may go in.
    if allow_dup and rng.chance(1, 40):
        w = rng.below(nwriters)
        inserts = [o for p in progs for o in p if o[0] == "i"]
        if inserts:
            progs[w].insert(rng.below(len(progs[w]) + 1), rng.choice(inserts))
            stats["dup_key_cases"] += 1
    for p in progs:
        for o in p:
            stats["op_" + o[0]] += 1
    return progs


def gen_policy(rng):
    c = rng.below(100)
    if c < 45:
        return "r%d" % rng.below(1 << 32)
    if c < 60:
        return "f%d" % rng.below(1 << 32)
    return "p%d:%d" % (rng.below(1 << 32), rng.range(1, 4))


def gen_ls_progs(rng, nthreads, nops, stats):
    progs = []
    d = rng.below(1000)
    for t in range(nthreads):
        p = []
        for _ in range(rng.range(1, nops)):
            if rng.chance(3, 5):
                d += 1
                p.append("p%d" % d)
                stats["op_p"] += 1
            else:
                p.append("T")
                stats["op_T"] += 1
        progs.append(p)
    return progs


def gen_life(rng, stats):
    """a list, iterators created / cloned / dropped / used in a random order; the list may be
    dropped while iterators are held (F4)"""
    toks = []
    live_iters = []
    list_alive = True
    nextit = 0
    keys = []
    for _ in range(rng.range(4, 30)):
        c = rng.below(100)
        if c < 25 and list_alive:
            k = rng.below(40)
            if k not in keys:
                keys.append(k)
                toks.append("i%d" % k)
        elif c < 40 and list_alive:
            toks.append("I%d" % nextit)
            live_iters.append(nextit)
            nextit += 1
        elif c < 47 and live_iters:
            toks.append("C%d:%d" % (nextit, rng.choice(live_iters)))
            live_iters.append(nextit)
            nextit += 1
        elif c < 55 and list_alive and (live_iters or rng.chance(1, 4)):
            toks.append("D")
            list_alive = False
            stats["life_drop_with_iters"] += bool(live_iters)
        elif c < 62 and live_iters:
            j = rng.choice(live_iters)
            live_iters.remove(j)
            toks.append("d%d" % j)
        elif live_iters:
            j = rng.choice(live_iters)
            o = rng.choice(["F", "L", "N", "N", "P", "P", "S"])
            toks.append("%s%d" % (o, j) if o != "S" else "S%d:%d" % (j, rng.below(41)))
    return " ".join(toks)


# ------------------------------------------------------------------------------- references
class RefIter:
    """the sequential specification of the iterator over a sorted key set"""

    def __init__(self):
        self.pos = ("end",)

    def shown(self):
        return "K%d" % self.pos[1] if self.pos[0] == "key" else "K-"

    def apply(self, op, arg, keys):
        ks = sorted(keys)
        if op == "F":
            self.pos = ("key", ks[0]) if ks else ("end",)
        elif op == "L":
            self.pos = ("end",)
        elif op == "S":
            g = [k for k in ks if k >= arg]
            self.pos = ("key", g[0]) if g else ("end",)
        elif op == "N":
            if self.pos[0] == "head":
                self.pos = ("key", ks[0]) if ks else ("end",)
            elif self.pos[0] == "key":
                g = [k for k in ks if k > self.pos[1]]
                self.pos = ("key", g[0]) if g else ("end",)
        elif op == "P":
            if self.pos[0] == "end":
                self.pos = ("key", ks[-1]) if ks else ("head",)
            elif self.pos[0] == "key":
                g = [k for k in ks if k < self.pos[1]]
                self.pos = ("key", g[-1]) if g else ("head",)
        return self.shown()


def life_reference(line):
    """expected output of an sk-life case: the iterators behave as over a list that is never
    freed while they are held"""
    keys, its, outs, alive = set(), {}, [], True
    for tok in line.split():
        c, a = tok[0], tok[1:]
        args = a.split(":")
        j = int(args[0]) if args[0] else 0
        if c == "i":
            if alive:
                keys.add(j)
        elif c == "I":
            if alive:
                its[j] = RefIter()
        elif c == "C":
            src = int(args[1])
            if src in its:
                n = RefIter()
                n.pos = its[src].pos
                its[j] = n
        elif c == "D":
            alive = False
        elif c == "d":
            its.pop(j, None)
        else:
            if j in its:
                outs.append(its[j].apply(c, int(args[1]) if c == "S" else None, keys))
            else:
                outs.append("noiter")
    return " ".join(outs) + " | live=0"


# ------------------------------------------------------------------------------- trace oracle
def iso_reference(body):
    """sorted-list reference for a one-thread program with signed keys: positions are an index into the sorted
    keys, -1 = the head (before the first), len = null (after the last).  As in skipfree: seek_to_last parks on
    null (prev from there is the last entry), next on null stays, prev on the head stays, next from the head is
    the first entry."""
    keys, pos, outs = [], None, []
    pos = 0           # a fresh iterator sits on null (after the last): prev() from there is the last entry

    def show():
        return "K%d" % keys[pos] if 0 <= pos < len(keys) else "K-"
    for t in [x.strip() for x in body.split(",") if x.strip()]:
        if t[0] == "i":
            k = int(t[1:])
            cur = keys[pos] if 0 <= pos < len(keys) else None
            at_null = pos >= len(keys) and pos != -1
            keys.append(k)
            keys.sort()
            if cur is not None:
                pos = keys.index(cur)
            elif at_null:
                pos = len(keys)
            outs.append("I%d" % k)
        elif t[0] == "c":
            outs.append("B%d" % (1 if int(t[1:]) in keys else 0))
        elif t[0] == "s":
            k = int(t[1:])
            pos = len([x for x in keys if x < k])
            outs.append(show())
        elif t == "F":
            pos = 0
            outs.append(show())
        elif t == "L":
            pos = len(keys)
            outs.append(show())
        elif t == "N":
            if pos < len(keys):
                pos += 1
            outs.append(show())
        elif t == "P":
            if pos >= 0:
                pos -= 1
            outs.append(show())
    return "%s = %s" % (",".join(outs), ",".join(str(k) for k in keys))


def parse_record(line):
    f = [x.strip() for x in line.split("|")]
    if len(f) != 7 or f[0] != "R":
        return None
    progs = [[o for o in p.strip().split(",") if o] for p in f[2].split("/")]
    sched = f[3]
    events = f[4].split() if f[4] else []
    outs = [[o for o in p.strip().split(",") if o] for p in f[5].split("/")]
    return {"maxh": f[1], "progs": progs, "progs_s": f[2], "sched": sched, "events_s": f[4], "events": events,
            "outs_s": f[5], "outs": outs, "final": f[6]}


def op_windows(rec):
    """per thread: list of (begin_index, end_index) of each started operation in the event order"""
    n = len(rec["progs"])
    win = [[] for _ in range(n)]
    for i, e in enumerate(rec["events"]):
        t, ev = e.split(":", 1)
        t = int(t)
        if ev == "b":
            win[t].append([i, i])
        elif win[t]:
            win[t][-1][1] = i
    return win


def sk_oracle(rec):
    """the property itself, on one recorded run; returns None or a description of the failure.
    `before(k, i)`: insert(k) returned before event index i; `begun(k, i)`: it began before i."""
    win = op_windows(rec)
    ins = {}
    dup = False
    for t, p in enumerate(rec["progs"]):
        for j, o in enumerate(p):
            if o[0] == "i" and j < len(win[t]) and j < len(rec["outs"][t]) and rec["outs"][t][j].startswith("I"):
                k = int(o[1:].split(":")[0])
                if k in ins:
                    dup = True
                ins[k] = tuple(win[t][j])
    allk = [int(o[1:].split(":")[0]) for p in rec["progs"] for o in p if o[0] == "i"]
    if dup or len(set(allk)) != len(allk):
        return "SKIP"
    for t, p in enumerate(rec["progs"]):
        if "PANIC" in rec["outs"][t]:
            return "thread %d panicked" % t
        if len(rec["outs"][t]) != len(p):
            return "thread %d: %d results for %d operations" % (t, len(rec["outs"][t]), len(p))
    fin = [int(x) for x in rec["final"].split(",") if x]
    if fin != sorted(ins):
        return "final iteration %r differs from the inserted keys %r" % (fin[:20], sorted(ins)[:20])
    skeys = sorted(ins)
    for t, p in enumerate(rec["progs"]):
        cur = None          # key the iterator stands on, if valid
        it_start = None     # (begin index, yielded keys) of a running full iteration
        for j, o in enumerate(p):
            b, e = win[t][j]
            r = rec["outs"][t][j]
            done_before = lambda k: ins[k][1] < b
            begun_before = lambda k: ins[k][0] < e
            c = o[0]
            if c == "i":
                if r != "I" + o[1:].split(":")[0]:
                    return "insert result %s for %s" % (r, o)
                continue
            if c == "c":
                k = int(o[1:])
                if k in ins and done_before(k) and r != "B1":
                    return "thread %d op %d: contains(%d) = false although its insert had returned (events %d < %d)" % (t, j, k, ins[k][1], b)
                if (k not in ins or not begun_before(k)) and r != "B0":
                    return "thread %d op %d: contains(%d) = true before any insert of it began" % (t, j, k)
                continue
            val = None if r == "K-" else int(r[1:]) if r[1:].isdigit() else "bad"
            if val == "bad":
                return "thread %d op %d: result %s" % (t, j, r)
            if val is not None and (val not in ins or not begun_before(val)):
                return "thread %d op %d: %s yielded key %d that was not inserted" % (t, j, o, val)
            lo = hi = None      # no key completed-before may lie strictly inside (lo, hi)
            check = True
            if c == "s":
                k = int(o[1:])
                if val is not None and val < k:
                    return "thread %d op %d: seek(%d) landed on %d" % (t, j, k, val)
                lo, hi = k - 1, val
            elif c == "F":
                lo, hi = -1, val
                it_start = (b, [])
            elif c == "L":
                check = False
            elif c == "N":
                if cur is None:
                    check = False
                else:
                    if val is not None and val <= cur:
                        return "thread %d op %d: next from %d went to %d" % (t, j, cur, val)
                    lo, hi = cur, val
            elif c == "P":
                if cur is None:
                    check = False
                else:
                    if val is not None and val >= cur:
                        return "thread %d op %d: prev from %d went to %d" % (t, j, cur, val)
                    lo, hi = (val if val is not None else -1), cur
            if check:
                for k in skeys:
                    if k > lo and (hi is None or k < hi) and done_before(k):
                        return "thread %d op %d: %s (from %r) = %r skipped key %d whose insert had returned (event %d < %d)" % (t, j, o, cur, val, k, ins[k][1], b)
            # full iteration bookkeeping
            if c in ("F", "N") and it_start is not None:
                if val is None:
                    start, ys = it_start
                    if ys != sorted(set(ys)):
                        return "thread %d: iteration %r not strictly increasing" % (t, ys)
                    for k in skeys:
                        if ins[k][1] < start and k not in ys:
                            return "thread %d: full iteration begun at event %d misses key %d (insert returned at %d)" % (t, start, k, ins[k][1])
                    it_start = None
                else:
                    it_start[1].append(val)
            elif c not in ("F", "N"):
                it_start = None
            cur = val
    return None


def ls_oracle(rec):
    win = op_windows(rec)
    pre = {}
    for t, p in enumerate(rec["progs"]):
        if len(rec["outs"][t]) != len(p) or "PANIC" in rec["outs"][t]:
            return "thread %d: results %r for %d operations" % (t, rec["outs"][t][:5], len(p))
        for j, o in enumerate(p):
            if o[0] == "p":
                d = int(o[1:])
                if d in pre:
                    return "SKIP"
                pre[d] = tuple(win[t][j])
    fin = [int(x) for x in rec["final"].split(",") if x]
    its = [(len(rec["events"]), len(rec["events"]), fin, "final")]
    for t, p in enumerate(rec["progs"]):
        for j, o in enumerate(p):
            if o[0] == "T":
                r = rec["outs"][t][j]
                its.append((win[t][j][0], win[t][j][1], [int(x) for x in r[1:].split(".") if x], "thread %d op %d" % (t, j)))
    if sorted(fin) != sorted(pre):
        return "final content %r is not the prepended elements" % fin[:20]
    for b, e, v, who in its:
        if len(set(v)) != len(v):
            return "%s: an element appears twice: %r" % (who, v)
        for d in v:
            if d not in pre or not pre[d][0] < e:
                return "%s: element %d was never prepended" % (who, d)
        for d, (pb, pe) in pre.items():
            if pe < b and d not in v:
                return "%s: iteration begun at event %d misses %d prepended by event %d" % (who, b, d, pe)
        for x, y in zip(v, v[1:]):
            if pre[x][1] < pre[y][0]:
                return "%s: %d precedes %d although its prepend returned before the other began" % (who, x, y)
    # every iteration is a suffix of the final content (newest first, in publication order)
    for b, e, v, who in its:
        if v and fin[len(fin) - len(v):] != v:
            return "%s: %r is not a suffix of the final content" % (who, v[:20])
    return None


# ------------------------------------------------------------------------------- running
def run_harness(exe, lines, workdir, tag, per_line_timeout=120, max_restarts=4):
    """feeds the lines; restarts after a DIVERGED / crash so that one bad case does not hide the
    others.  returns list of (line, [output lines]) — `x` cases produce many lines up to END"""
    results = []
    i = 0
    attempt = 0
    while i < len(lines):
        chunk = lines[i:]
        p = os.path.join(workdir, "%s.%d.in" % (tag, attempt))
        with open(p, "w") as fh:
            fh.write("\n".join(chunk) + "\n")
        rc, out = vlib.sh("%s < %s" % (exe, p), timeout=per_line_timeout + 2 * len(chunk))
        attempt += 1
        outl = out.split("\n")
        if outl and outl[-1] == "":
            outl.pop()
        k = 0
        consumed = 0
        for ln in chunk:
            if ln.split()[0:1] and ln.split()[2].startswith("x") and ln.split()[0].endswith("-sched"):
                grp = []
                while k < len(outl) and not outl[k].startswith("END"):
                    grp.append(outl[k])
                    k += 1
                if k < len(outl):
                    grp.append(outl[k])
                    k += 1
                    results.append((ln, grp))
                    consumed += 1
                    continue
                results.append((ln, grp + ["CRASHED rc=%s" % rc]))
                consumed += 1
                break
            if k < len(outl):
                results.append((ln, [outl[k]]))
                k += 1
                consumed += 1
                if outl[k - 1] == "DIVERGED":
                    break
            else:
                results.append((ln, ["CRASHED rc=%s" % rc]))
                consumed += 1
                break
        i += consumed
        if attempt > max_restarts and i < len(lines):
            # the code hangs again and again: do not spend the budget on more of the same
            results.extend((ln, ["NOT-RUN after repeated divergence"]) for ln in lines[i:])
            break
    return results


def run_model(mx, inputs, workdir, tag):
    p = os.path.join(workdir, tag + ".in")
    with open(p, "w") as fh:
        fh.write("\n".join(inputs) + "\n")
    rc, out = vlib.sh("%s < %s" % (mx, p), timeout=1800)
    res = out.split("\n")
    if res and res[-1] == "":
        res.pop()
    return res


def load_corpus():
    d = os.path.join(vlib.VERIF, "corpus", "C17")
    out = []
    if os.path.isdir(d):
        for fn in sorted(os.listdir(d)):
            if fn.endswith(".json"):
                with open(os.path.join(d, fn)) as fh:
                    c = json.load(fh)
                out.append((fn, c))
    return out


class Counter(dict):
    def __missing__(self, k):
        return 0


def trace_stats(rec, stats, listmode):
    ev = rec["events"]
    stats["events"] += len(ev)
    sw = 0
    last = None
    for e in ev:
        t, x = e.split(":", 1)
        if last is not None and t != last:
            sw += 1
        last = t
        if listmode:
            if x[0] == "C":
                a, b = x[1:].split(">")
                stats["list_cas_fail" if a == b else "list_cas_ok"] += 1
        elif x[0] == "c":
            lvl = int(x[1:].split(":")[0].split(".")[1])
            a, b = x.split(":")[1].split(">")
            if a == b:
                stats["cas_fail_level0" if lvl == 0 else "cas_fail_upper"] += 1
            else:
                stats["cas_ok_level0" if lvl == 0 else "cas_ok_upper"] += 1
    stats["context_switches"] += sw
    return sw


def check_traced(kind, results, mx, chk, stats, bad, tagp):
    """kind 'S' skiplist / 'L' list: model acceptance + direct oracle for every record"""
    recs, minputs = [], []
    for ln, outl in results:
        for o in outl:
            if o.startswith("END"):
                stats["exhaustive_" + ("complete" if o.endswith("complete") else "truncated")] += 1
                stats["exhaustive_schedules"] += int(o.split()[1])
                continue
            rec = parse_record(o)
            if rec is None:
                if o.startswith("NOT-RUN"):
                    stats["not_run"] += 1
                    continue
                bad["prop"].append({"kind": "harness", "what": "the real code did not finish the case (an operation never returned, or the process died): " + o[:200], "harness_line": ln})
                continue
            rec["line"] = ln
            recs.append(rec)
            minputs.append("%s | %s | %s | %s" % (kind, rec["maxh"], rec["progs_s"], rec["sched"]))
    mouts = run_model(mx, minputs, chk.work, tagp) if minputs else []
    if len(mouts) != len(recs):
        raise RuntimeError("model produced %d lines for %d traces" % (len(mouts), len(recs)))
    nontrivial = set()
    for rec, mo in zip(recs, mouts):
        sw = trace_stats(rec, stats, kind == "L")
        stats["traces_" + kind] += 1
        replay_line = "%s %s t%s | %s" % (rec["line"].split()[0], rec["maxh"] if kind == "S" else "0", rec["sched"].replace(" ", "."), rec["progs_s"])
        err = (sk_oracle if kind == "S" else ls_oracle)(rec)
        if err == "SKIP":
            stats["oracle_skipped_dup"] += 1
            err = None
        if err:
            bad["prop"].append({"kind": "property", "what": err, "harness_line": rec["line"], "replay_line": replay_line,
                                "outs": rec["outs_s"], "final": rec["final"], "events": rec["events_s"][:4000]})
            continue
        mf = [x.strip() for x in mo.split("|")]
        if len(mf) != 4 or mf[3] != "OK" or mf[0] != rec["events_s"] or mf[1] != rec["outs_s"] or mf[2] != rec["final"]:
            # first differing event, for the report
            me, re_ = mf[0].split(), rec["events"]
            idx = next((i for i, (a, b) in enumerate(zip(me, re_)) if a != b), min(len(me), len(re_)))
            bad["corr"].append({"kind": "trace-not-accepted", "harness_line": rec["line"], "replay_line": replay_line,
                                "first_difference_at_event": idx, "impl_event": re_[idx] if idx < len(re_) else None,
                                "model_event": me[idx] if idx < len(me) else None, "model_status": mf[3] if len(mf) == 4 else mo[:100],
                                "impl_outs": rec["outs_s"], "model_outs": mf[1] if len(mf) > 1 else None,
                                "impl_final": rec["final"], "model_final": mf[2] if len(mf) > 2 else None})
            continue
        if len(rec["progs"]) >= 2 and sw >= 2 and len(rec["events"]) >= 10:
            nontrivial.add(rec["progs_s"] + "#" + rec["sched"])
    return len(recs), nontrivial


def run(chk):
    ok_proof, info = vlib.proof_stage(chk, PROPS, MODULE, const_areas=("SkipList",), pins_rel="pins/C17.v")
    okx, outx = vlib.coq_make(["theories/SkipList/Extract.vo"])
    okm, outm, mx = vlib.ocaml_build("skiplist", "mx_skiplist")
    okh, outh, (hx,) = vlib.cargo_build(["c17"])
    if not (okx and okm):
        raise RuntimeError("model build failed:\n" + outx[-1500:] + outm[-1500:])
    if not okh:
        raise RuntimeError("harness build failed (does /repo still compile?):\n" + outh[-3000:])
    if os.environ.get("C17_HX"):
        # self-test only: a harness binary built against a MUTATED private copy of the crates
        hx = os.environ["C17_HX"]
        chk.notes.append("SELF-TEST: harness binary overridden by C17_HX=%s (not /repo's code)" % hx)
    rc, out = vlib.sh(["python3", os.path.join(vlib.VERIF, "tools", "constants.py"), "SkipList", "--json"])
    default_maxh = json.loads(out.strip().splitlines()[-1])["SkipList"]["DEFAULT_MAX_HEIGHT"]
    if default_maxh not in MAXHS:
        raise RuntimeError("DEFAULT_MAX_HEIGHT = %r is not one of the heights the harness instantiates" % default_maxh)

    quick = chk.tier == "quick"
    rng = vlib.Rng(chk.seed * 1000003 + 17)
    stats = Counter()
    bad = {"prop": [], "corr": []}

    # ---------------------------------------------------------------- case lists
    sk_lines, ls_lines, stress_lines, life_lines, exh_lines = [], [], [], [], []
    corpus = load_corpus()
    for fn, c in corpus:
        for ln in c.get("lines", []):
            m = ln.split()[0]
            (sk_lines if m in ("sk-sched", "sk-free") else ls_lines if m in ("ls-sched", "ls-free") else
             life_lines if m == "sk-life" else stress_lines).append(ln)   # hammer lines run with the stress lines
    n_sched = 3000 if quick else 40000
    n_free = 500 if quick else 4000
    for i in range(n_sched):
        maxh = rng.choice([1, 2, 2, 3, 3, 4, default_maxh, default_maxh])
        nth = rng.choice([1, 2, 2, 2, 3, 3, 3, 4, 4, 5])
        big = rng.chance(1, 12)
        progs = gen_sk_progs(rng, nth, maxh, rng.range(2, 40 if big else 12), rng.range(0, 30 if big else 10), stats, allow_dup=True)
        sk_lines.append("sk-sched %d %s | %s" % (maxh, gen_policy(rng), " / ".join(",".join(p) for p in progs)))
    for i in range(n_free):
        maxh = rng.choice([2, 3, 4, default_maxh, default_maxh])
        nth = rng.choice([2, 3, 4, 4, 6])
        progs = gen_sk_progs(rng, nth, maxh, rng.range(8, 60), rng.range(4, 40), stats, allow_dup=True)
        sk_lines.append("sk-free %d r0 | %s" % (maxh, " / ".join(",".join(p) for p in progs)))
    for i in range(1200 if quick else 15000):
        progs = gen_ls_progs(rng, rng.choice([1, 2, 2, 3, 3, 4]), rng.range(2, 10), stats)
        ls_lines.append("ls-sched 0 %s | %s" % (gen_policy(rng), " / ".join(",".join(p) for p in progs)))
    for i in range(250 if quick else 2000):
        progs = gen_ls_progs(rng, rng.choice([2, 3, 4, 6]), rng.range(5, 40), stats)
        ls_lines.append("ls-free 0 r0 | %s" % " / ".join(",".join(p) for p in progs))
    for i in range(120 if quick else 1000):
        maxh = rng.choice([2, 4, default_maxh, default_maxh])
        nth = rng.choice([3, 4, 6, 8])
        progs = gen_sk_progs(rng, nth, maxh, rng.range(200, 1500 if quick else 6000), rng.range(100, 800 if quick else 3000), stats)
        # heights: let random_height choose (the code's own distribution) in half of the cases
        if rng.chance(1, 2):
            progs = [[(o.split(":")[0] + ":0") if o[0] == "i" else o for o in p] for p in progs]
        stress_lines.append("sk-stress %d r0 | %s" % (maxh, " / ".join(",".join(p) for p in progs)))
    for i in range(40 if quick else 300):
        progs = gen_ls_progs(rng, rng.choice([3, 4, 8]), rng.range(100, 1500), stats)
        stress_lines.append("ls-stress 0 r0 | %s" % " / ".join(",".join(p) for p in progs))
    # hammer: many short rounds, all threads inserting into ONE gap at the same moment, hooks off
    # (real threads, real memory ordering): the stage that sees an operation the hooks believe to be
    # atomic (cas_next, the head CAS of listfree) not being atomic
    hammer_lines = []
    for i in range(28 if quick else 250):
        maxh = rng.choice([1, 2, 4, default_maxh, default_maxh])
        nth = rng.choice([2, 2, 3, 4, 4, 6, 8])
        hammer_lines.append("sk-hammer %d r%d | %d %d %d" % (maxh, rng.below(1 << 32), nth, 1200 if quick else 3000, rng.range(3, 12)))
    # ownership under real threads: SkipList::drop runs on one thread while iterators and iterator
    # clones are alive on others (node-lifetime registry on)
    for i in range(60 if quick else 1500):
        hammer_lines.append("sk-own %d r%d | %d %d" % (rng.choice([2, default_maxh]), rng.below(1 << 32), rng.choice([1, 2, 3, 4, 8]), rng.range(1, 60)))
    for i in range(8 if quick else 100):
        hammer_lines.append("ls-hammer 0 r0 | %d %d %d" % (rng.choice([2, 3, 4, 8]), 1500 if quick else 4000, rng.range(3, 12)))
    for i in range(1500 if quick else 20000):
        life_lines.append("sk-life %d r0 | %s" % (rng.choice([2, default_maxh]), gen_life(rng, stats)))
    # exhaustive small scopes: all schedules of two or three short programs on the real code
    exh = [
        ("sk-sched 1 x%d | i5:1 / i6:1", 40000),
        ("sk-sched 2 x%d | i5:2 / i6:2", 40000),
        ("sk-sched 1 x%d | i5:1 / c5,F,N", 40000),
        ("ls-sched 0 x%d | p1 / p2 / T", 40000),
        ("ls-sched 0 x%d | p1,T / p2", 40000),
    ]
    if not quick:
        exh += [
            ("sk-sched 2 x%d | i6:2 / i5:2", 100000),
            ("sk-sched 2 x%d | i5:1,i7:1 / i6:2", 200000),
            ("sk-sched 1 x%d | i5:1 / i6:1 / c6", 300000),
            ("sk-sched 1 x%d | i5:1,i3:1 / F,N,N", 200000),
            ("sk-sched 2 x%d | i5:2 / L,P,P", 200000),
            ("sk-sched 1 x%d | i5:1 / i6:1 / s5,N", 400000),
            ("ls-sched 0 x%d | p1,p2 / p3 / T", 400000),
            ("ls-sched 0 x%d | p1 / p2 / T,T", 400000),
        ]
    cap = 8000 if quick else None
    for pat, lim in exh:
        exh_lines.append(pat % (min(lim, cap) if cap else lim))

    # ---------------------------------------------------------------- run
    tm = {}
    t0 = time.time()
    tm["proof_and_builds_s"] = round(t0 - chk.t0, 1)
    res_sk = run_harness(hx, sk_lines + [l for l in exh_lines if l.startswith("sk-")], chk.work, "sk")
    res_ls = run_harness(hx, ls_lines + [l for l in exh_lines if l.startswith("ls-")], chk.work, "ls")
    tm["traced_runs_s"] = round(time.time() - t0, 1)
    t0 = time.time()
    n1, nt1 = check_traced("S", res_sk, mx, chk, stats, bad, "model_sk")
    n2, nt2 = check_traced("L", res_ls, mx, chk, stats, bad, "model_ls")
    tm["model_and_oracle_s"] = round(time.time() - t0, 1)
    t0 = time.time()

    res_st = run_harness(hx, stress_lines, chk.work, "stress", per_line_timeout=300, max_restarts=1)
    for ln, outl in res_st:
        o = outl[0]
        stats["stress_runs"] += 1
        if o.startswith("OK"):
            stats["stress_observations"] += int(o.split()[1])
        elif o.startswith("SKIP"):
            stats["stress_skipped"] += 1
        elif o.startswith("NOT-RUN"):
            stats["not_run"] += 1
        else:
            bad["prop"].append({"kind": "property-stress", "what": o[:400], "harness_line": ln[:3000],
                                "note": "free-running threads: the schedule is not reproducible; re-run the line several times"})
    res_h = run_harness(hx, hammer_lines, chk.work, "hammer", per_line_timeout=300, max_restarts=1)
    for ln, outl in res_h:
        o = outl[0]
        if ln.startswith("sk-own"):
            stats["own_runs"] += 1
            if not o.startswith("OK") and not o.startswith("NOT-RUN"):
                bad["prop"].append({"kind": "property-lifetime", "what": "an iterator (or clone) held on one thread while the list was dropped on another: " + o[:400], "harness_line": ln})
            continue
        stats["hammer_runs"] += 1
        if o.startswith("OK"):
            stats["hammer_rounds"] += int(o.split()[1])
            stats["hammer_keys"] += int(o.split()[3])
        elif o.startswith("NOT-RUN"):
            stats["not_run"] += 1
        else:
            bad["prop"].append({"kind": "property-hammer", "what": o[:500], "harness_line": ln,
                                "note": "free-running threads, hooks off: the schedule is not reproducible, but the failure rate per line is high; re-run the line"})
    res_life = run_harness(hx, life_lines, chk.work, "life")
    for ln, outl in res_life:
        o = outl[0]
        stats["life_cases"] += 1
        want = life_reference(ln.split("|", 1)[1])
        if o.startswith("NOT-RUN"):
            stats["not_run"] += 1
        elif o != want:
            bad["prop"].append({"kind": "property-lifetime", "what": "iterator use after the nodes were freed / wrong position: got `%s` want `%s`" % (o[:300], want[:300]),
                                "harness_line": ln})

    # ---- sk-iso: one thread, signed keys.  The traced stages use u64 keys, all >= K::default(); the head
    # sentinel holds K::default(), so code that compares against the head's key (or forgets that the head is
    # not an entry) is only visible with keys that order BELOW the default.  The same program runs on
    # SkipList<i64> and, shifted by 2^63, on SkipList<u64> (the instantiation the model's traces cover):
    # the observations must be equal, and equal to a sorted-list reference cursor.
    irng = vlib.Rng(chk.seed * 1000003 + 1717)
    iso_lines = []
    for k in range(400 if chk.tier == "quick" else 20000):
        keys = list(range(-6, 7)) if k % 3 else [-(1 << 63), -(1 << 62), -5, -1, 0, 1, 7, (1 << 62), (1 << 63) - 1]
        ins, ops = set(), []
        for _ in range(irng.range(3, 30)):
            c = irng.below(100)
            if c < 22:
                kk = irng.choice(keys)
                if kk not in ins:
                    ins.add(kk)
                    ops.append("i%d" % kk)
            elif c < 30:
                ops.append("c%d" % irng.choice(keys))
            elif c < 42:
                ops.append("s%d" % irng.choice(keys))
            elif c < 50:
                ops.append("F")
            elif c < 58:
                ops.append("L")
            elif c < 76:
                ops.append("N")
            else:
                ops.append("P")
        if k % 5 == 0:
            ops += ["F"] + ["P"] * irng.range(1, 3) + ["N"] * irng.range(1, 3)     # off the front, again, and back
        iso_lines.append("sk-iso %d - | %s" % (irng.choice([1, 2, 4, 12]), ",".join(ops)))
    res_iso = run_harness(hx, iso_lines, chk.work, "iso")
    for ln, outl in res_iso:
        o = outl[0]
        stats["iso_cases"] = stats.get("iso_cases", 0) + 1
        m = re.match(r"ISO i64\[ (.*) \] u64\[ (.*) \]$", o)
        want = iso_reference(ln.split("|", 1)[1])
        if o.startswith("NOT-RUN"):
            stats["not_run"] += 1
        elif not m or m.group(1) != m.group(2) or m.group(1) != want:
            bad["prop"].append({"kind": "property-key-order", "what": "one thread, signed keys: SkipList<i64> gives `%s`, the same program shifted onto u64 gives `%s`, the sorted-list reference `%s`" % (
                (m.group(1) if m else o)[:400], (m.group(2) if m else "")[:400], want[:400]), "harness_line": ln})

    tm["untraced_stages_s"] = round(time.time() - t0, 1)
    evaluations = n1 + n2 + stats.get("iso_cases", 0) + stats["stress_runs"] + stats["life_cases"] + stats["hammer_rounds"] + stats["own_runs"]
    chk.coverage.update({
        "evaluations": evaluations,
        "distinct_nontrivial": len(nt1) + len(nt2),
        "rule": "one evaluation = one run of the real code (multi-threaded, every atomic operation hooked, or an untraced stress run, or one round of the same-gap hammer, or a lifetime script, or a multi-threaded ownership run); non-trivial = a traced run with >= 2 threads, >= 10 atomic steps and >= 2 context switches whose trace the model accepted event by event; distinct = distinct (programs, recorded schedule)",
        "samples": [sk_lines[len(sk_lines) // 3][:300], ls_lines[len(ls_lines) // 2][:200], life_lines[-1][:200]],
        "input_distribution": dict(stats),
        "stage_seconds": tm,
        "corpus_cases": sum(len(c.get("lines", [])) for _, c in corpus),
        "traces_validated_against_impl": n1 + n2 - len(bad["corr"]),
        "exhaustive": False,
        "correspondence": "real skipfree/listfree (release, debug-assertions, cfg(blue_verif) hooks) vs extracted Coq model on the recorded schedule: every event (node, level, value read / written, cell value before and after every CAS), every result, final content; direct oracle independently of the model",
        "disagreements_impl_vs_model": len(bad["corr"]), "disagreements_impl_vs_spec": len(bad["prop"]),
        "trusted_base": [
            "Coq 8.16.1 kernel (coqc, full .vo build); vm_compute only in the two Examples and the F4 witness",
            "tools/constants.py (DEFAULT_MAX_HEIGHT re-extracted from skipfree/src/lib.rs)",
            "extraction via ExtrOcamlBasic (no Extract Constant of ours) + ocaml/skiplist/mx_skiplist.ml driver",
            "harness/src/bin/c17.rs: gate scheduler / lock recorder / stamps + oracle for stress runs / same-gap hammer / node-lifetime registry (sequential scripts and multi-threaded ownership runs)",
            "hooks in skipfree/src/verif.rs and listfree/src/verif.rs (add-only, cfg(blue_verif)); the hook reads the cell again after the operation while it holds the exclusion",
            "ghost fields of the model (nlnk, lorder, snap) are never read by the model's control flow (by inspection of Model.v / ModelList.v)",
        ],
    })
    chk.assumptions = [
        "sequential consistency of get_next (Acquire load), set_next (Release store), cas_next (SeqCst): the C11/hardware memory model is not modelled; the traced runs are serialised by the gate / lock (the harness enforces SC), only the untraced stress / hammer / ownership stages run with real memory ordering, on x86-64 (TSO) only",
        "each hooked operation is atomic in the source (the hook brackets the whole function): checked only by the untraced same-gap hammer, statistically",
        "inserted keys are pairwise distinct (the property's quantifier; a sequential duplicate panics by the assert in insert, concurrent duplicates are both inserted)",
        "heights are an oracle input in 1..MAX_HEIGHT (what random_height returns)",
        "Rust's ownership rules: a dropped handle is not used; allocation returns a fresh node",
        "termination / lock-freedom is not claimed (a thread that is never scheduled does not finish)",
    ]

    if not bad["prop"] and not bad["corr"]:
        for fn in os.listdir(chk.work):
            if fn.endswith(".in"):
                os.remove(os.path.join(chk.work, fn))
    if bad["prop"]:
        for k, b in enumerate(bad["prop"][:3]):
            b["replay_cmd"] = "echo '<replay_line or harness_line>' | work/target/release/c17   (then ./bin/check C17 --replay <this file>)"
            chk.violation("c17_property_%d.json" % k, b)
    elif bad["corr"] or not ok_proof:
        chk.violation("c17_unproved.json", {"kind": "no-failing-input-found", "broken": info["broken"],
                                            "trace_not_accepted": bad["corr"][:3]}, no_input=True)


def replay(path):
    with open(path) as fh:
        obj = json.load(fh)
    print(json.dumps(obj, indent=1)[:6000])
    line = obj.get("replay_line") or obj.get("harness_line")
    if not line and obj.get("trace_not_accepted"):
        line = obj["trace_not_accepted"][0].get("replay_line")
    if not line:
        return 1
    okh, outh, (hx,) = vlib.cargo_build(["c17"])
    okm, outm, mx = vlib.ocaml_build("skiplist", "mx_skiplist")
    work = os.path.join(vlib.WORK, "C17")
    os.makedirs(work, exist_ok=True)
    res = run_harness(hx, [line], work, "replay")
    o = res[0][1][0]
    print("impl now:", o[:2000])
    mode = line.split()[0]
    if mode == "sk-life":
        want = life_reference(line.split("|", 1)[1])
        print("want    :", want)
        return 0 if o == want else 1
    if mode.endswith("stress") or mode.endswith("hammer") or mode == "sk-own":
        return 0 if o.startswith("OK") or o.startswith("SKIP") else 1
    rec = parse_record(o)
    if rec is None:
        return 1
    kind = "S" if mode.startswith("sk") else "L"
    err = (sk_oracle if kind == "S" else ls_oracle)(rec)
    print("oracle  :", err)
    mo = run_model(mx, ["%s | %s | %s | %s" % (kind, rec["maxh"], rec["progs_s"], rec["sched"])], work, "replay_model")[0]
    mf = [x.strip() for x in mo.split("|")]
    acc = len(mf) == 4 and mf[3] == "OK" and mf[0] == rec["events_s"] and mf[1] == rec["outs_s"] and mf[2] == rec["final"]
    print("model accepts the trace:", acc)
    return 0 if (err in (None, "SKIP") and acc) else 1
