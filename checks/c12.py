"""C12 — the log returns each batch once, in order; a torn tail loses only the tail.

Decided by: the theorems of coq/theories/Log/Props_C12.v over the executable model Log/Model.v
(+ Log/ModelWire.v for the protobuf header/entry codecs, Log/ModelConc.v for the coalescing
queues), tied to sst/src/log.rs by running the extracted model and the real LogBuilder /
LogIterator / ConcurrentLogBuilder on the same generated logs (byte-exact file, every append
result, every read result incl. error class, truncations, mutations, raw malformed files), plus the
direct oracle: the property itself evaluated on the implementation's own outputs."""
import json
import os
import subprocess
import time

import vlib
import c12_gen as G

META = {
    "category": "proof",
    "text": "Coq theorems (Log/Props_C12.v, closed under the global context) over an executable model of sst/src/log.rs (WriteBatch, LogBuilder::_append/append_split/true_up, LogIterator::next/next_frame/next_header/true_up, the prototk header and entry codecs) for every block size > HEADER_MAX_SIZE, every batch size/count and an arbitrary crc function: reading a written log returns exactly the entries of the successfully appended batches in order and ends cleanly; reading ANY byte prefix of it returns exactly the batches wholly inside the prefix and then ends or errors; a consumer that keeps calling next() after an error gets a clean end on every cut, never an entry (C12_nothing_after_error; fix 71e5745); the writer never panics, lays frames out as whole | first+padding+second with padding <= HEADER_MAX_SIZE, fails only at the two size checks; the reader is total on arbitrary bytes; plus, for every schedule of ConcurrentLogBuilder::append over the wait-list-level model of sync42's WorkCoalescingQueue that area Sync42 proves correct (two copies of Sync42/ModelWcq.v instantiated with WriteCoalescingCore and FsyncCoalescingCore and glued as append glues them; threads as program counters, mutexes, condition variables with spurious wake-ups, rings smaller than the number of threads; no atomicity assumed): no panic, the file is the sequential log of the merged batches (each linked request at most once, whole, in link order), a call returns Ok only after an fdatasync covering its bytes completed, no fdatasync is issued or trusted after one has failed (fix be5f137), an append is refused by `poison` only after some call was answered with an error (b7cac52), and an acknowledged batch is read back from every cut at or after the durable mark. The model is tied to the code by differential runs on boundary-solved logs (0..25 bytes before the 1 MiB boundary), all truncations in windows around boundaries/frame ends, mutated and raw malformed files, multi-threaded appends (file decomposition + strace ordering of write/fdatasync/ack, also with one fdatasync made to fail by strace fault injection); after every read error both sides call next() three more times and the results are compared.",
    "note": "Outside the property and not modelled: ConcurrentLogBuilder::fsync() (fsync_cq.do_work(0) returns true without a system call when it is alone, although its doc says all previously written data is durable; lsmtk does not call it) ; I/O write errors (52fc470 FailStop) are outside the model. The model's builder starts on an empty file: a directed case checks that LogBuilder::new / ConcurrentLogBuilder::new refuse an existing path and leave it untouched; write(2) errors (ENOSPC/EIO injected by strace on the log file) are checked against the fail-stop oracle only, not modelled. The `poison` flag (read at the top of append since b7cac52) is modelled: C12_conc_refused_only_after_error. Trusted: Coq kernel; tools/constants.py; ExtrOcamlBasic extraction + ocaml/log/mx_log.ml (incl. its crc32c); harness c12; strace. crc32c is an arbitrary function (no property used). I/O errors other than short reads, and the BufWriter/BufReader internals, are outside the model. The concurrent theorems rest on Sync42's invariant of the queue machine (imported, not re-proved) and on: ModelWcq.v being the real queue (C18's correspondence), the four glue lines of append, and the meaning of fdatasync.",
}

PROPS = "theories/Log/Props_C12.v"
MODULE = "Log.Props_C12"
GC = "o=400,s=16M"
AGAIN = "3"      # after an error both sides call next() this many more times and print what comes


def run_parallel(exe, lines, workdir, tag, nproc, env=None, prefix=""):
    """run `exe` over `lines` split into nproc contiguous chunks, in parallel; returns output lines"""
    if not lines:
        return []
    nproc = max(1, min(nproc, len(lines)))
    # balance by cost (length of the line is a good proxy for the size of the log)
    order = sorted(range(len(lines)), key=lambda i: -len(lines[i]))
    buckets = [[] for _ in range(nproc)]
    loads = [0] * nproc
    for i in order:
        k = loads.index(min(loads))
        buckets[k].append(i)
        loads[k] += len(lines[i]) + 2000
    procs = []
    for k, b in enumerate(buckets):
        pin = os.path.join(workdir, "%s.%d.in" % (tag, k))
        pout = os.path.join(workdir, "%s.%d.out" % (tag, k))
        with open(pin, "w") as fh:
            fh.write("\n".join(lines[i] for i in b) + "\n")
        e = dict(os.environ)
        if env:
            e.update(env)
        p = subprocess.Popen(["bash", "-c", "%s%s < %s > %s 2> %s.err" % (prefix, exe, pin, pout, pout)], env=e)
        procs.append((p, b, pout))
    out = [None] * len(lines)
    for p, b, pout in procs:
        try:
            p.wait(timeout=3000)
        except subprocess.TimeoutExpired:
            p.kill()
        with open(pout) as fh:
            res = fh.read().split("\n")
        if res and res[-1] == "":
            res.pop()
        for i, r in zip(b, res):
            out[i] = r
    return out


CONC_TIMEOUT = 90      # seconds; a concurrent case that has not finished by then hangs ("HANG")


def run_each(exe, lines, nproc, timeout):
    """one process per line (a hung case must not take the others with it); 'HANG' on timeout"""
    from concurrent.futures import ThreadPoolExecutor

    def one(line):
        try:
            p = subprocess.run([exe], input=(line + "\n").encode(), stdout=subprocess.PIPE, stderr=subprocess.DEVNULL, timeout=timeout)
            return p.stdout.decode().strip() or "HARNESS-PANIC"
        except subprocess.TimeoutExpired:
            return "HANG"
    with ThreadPoolExecutor(max_workers=max(1, nproc)) as ex:
        return list(ex.map(one, lines))


def split_out(line):
    return [x.strip() for x in line.split(" | ")] if line is not None else None


def parse_read(s):
    # n=.. j=.. d=.. o=..
    if s == "PANIC":
        return {"panic": True}
    d = dict(kv.split("=", 1) for kv in s.split())
    return d


def oracle_case(case, impl_secs):
    """the property itself on the implementation's outputs.  Returns list of (what, detail)."""
    bad = []
    if impl_secs is None or impl_secs[0].startswith("HARNESS-PANIC"):
        return [("harness-panic", "")]
    if case.raw:
        for r in impl_secs[2:]:
            if r == "PANIC":
                bad.append(("panic-on-malformed-input", r))
        return bad
    wres = impl_secs[0].split()
    ends = []          # file offset after each successful append
    for w, spec in zip(wres, case.batch_expect):
        head, res = w.split("=", 1)
        if res.startswith("PANIC") or res.startswith("SKIPPED"):
            bad.append(("append-panic", w))
            continue
        parts = res.split(":")
        if parts[0] == "ok":
            ends.append(int(parts[1]))
        if spec == "ok" and parts[0] != "ok":
            bad.append(("append-failed", w))
        if spec == "empty" and not (parts[0] == "err" and parts[1] == "empty-batch"):
            bad.append(("empty-batch-accepted", w))
    flen = int(impl_secs[1].split()[1].split("=")[1])
    for (muts, cut), r in zip(case.reads, impl_secs[2:]):
        if r == "PANIC":
            bad.append(("reader-panic", "%s@%s" % (muts, cut)))
            continue
        d = parse_read(r)
        if muts:
            continue          # damaged file: nothing is promised by C12 beyond no panic (C09's business)
        n = flen if cut == "-" else min(int(cut), flen)
        want_j = sum(1 for e in ends if e <= n)
        if d["j"] == "?":
            bad.append(("partial-or-invented-batch", "%s@%s -> %s" % (muts, cut, r)))
        elif int(d["j"]) != want_j:
            bad.append(("wrong-prefix", "cut %s: read %s batches, %d are wholly inside the prefix" % (cut, d["j"], want_j)))
        if not (d["o"] == "end" or d["o"].startswith("err:")):
            bad.append(("bad-outcome", r))
        if "entry(" in d["o"]:
            # a consumer that calls next() again after the error gets entries: of a torn batch
            bad.append(("entries-after-error", "cut %s -> %s" % (cut, r[:300])))
        if n == flen and d["o"] != "end":
            # an untruncated log must end cleanly
            bad.append(("untruncated-log-errors", r))
    return bad


def load_corpus(pid):
    d = os.path.join(vlib.VERIF, "corpus", pid)
    cases = []
    if os.path.isdir(d):
        for fn in sorted(os.listdir(d)):
            if fn.endswith(".json"):
                with open(os.path.join(d, fn)) as fh:
                    c = json.load(fh)
                cases.append(G.Case.from_json(c, "corpus:" + fn))
    return cases


def run(chk):
    ok_proof, info = vlib.proof_stage(chk, PROPS, MODULE, const_areas=("Log",), pins_rel="pins/C12.v")
    rc, out = vlib.sh(["python3", os.path.join(vlib.VERIF, "tools", "constants.py"), "Log", "--json"])
    consts = json.loads(out.strip().splitlines()[-1])["Log"]
    G.set_constants(consts)

    okx, outx = vlib.coq_make(["theories/Log/Extract.vo"])
    okm, outm, mx = vlib.ocaml_build("log", "mx_log")
    okh, outh, (hxbin,) = vlib.cargo_build(["c12"])
    if not (okx and okm):
        raise RuntimeError("model build failed:\n" + outx[-1500:] + outm[-1500:])
    if not okh:
        raise RuntimeError("harness build failed (does /repo still compile?):\n" + outh[-3000:])

    rng = vlib.Rng(chk.seed * 1000003 + 12)
    quick = chk.tier == "quick"
    stats = {}
    cases = load_corpus("C12")
    ncorpus = len(cases)
    cases += G.gen_cases(rng, quick, stats)

    nproc = max(2, min(14, vlib.NCPU - 2))
    t0 = time.time()
    impl_lines = [c.impl_line() for c in cases]
    model_lines = [c.model_line() for c in cases]
    impl_out = run_parallel(hxbin, impl_lines, chk.work, "impl", nproc, env={"C12_AGAIN": AGAIN})
    t1 = time.time()
    model_out = run_parallel(mx, model_lines, chk.work, "model", nproc, env={"OCAMLRUNPARAM": GC, "C12_AGAIN": AGAIN}, prefix="ulimit -s unlimited; ")
    t2 = time.time()

    corr_bad, prop_bad = [], []
    distinct = set()
    n_reads = n_cuts = n_model_reads = 0
    errkinds = {}
    for c, io, mo in zip(cases, impl_out, model_out):
        isec, msec = split_out(io), split_out(mo)
        if io is None or mo is None or mo.startswith("DRIVER-ERROR"):
            corr_bad.append({"tag": c.tag, "impl_case": c.impl_line()[:2000], "impl_out": io, "model_out": mo, "what": "no output"})
            continue
        # direct oracle
        for what, detail in oracle_case(c, isec):
            prop_bad.append({"tag": c.tag, "what": what, "detail": detail, "case": c.to_json(), "impl_out": io[:3000]})
        # correspondence: writer section, file digest, and the reads the model was given
        ok = isec[0] == msec[0] and isec[1] == msec[1]
        for k, mi in enumerate(c.model_idx):
            if 2 + mi >= len(isec) or 2 + k >= len(msec) or isec[2 + mi] != msec[2 + k]:
                ok = False
        if not ok:
            corr_bad.append({"tag": c.tag, "case": c.to_json(), "impl_out": io[:3000], "model_out": mo[:3000]})
        n_reads += len(c.reads)
        n_model_reads += len(c.model_idx)
        n_cuts += sum(1 for m, cut in c.reads if cut != "-")
        for r in isec[2:]:
            if r != "PANIC":
                o = parse_read(r).get("o", "?").split("+")[0]
                errkinds[o] = errkinds.get(o, 0) + 1
        if c.nontrivial():
            distinct.add(c.impl_line())

    # ---- concurrent appends
    conc = G.gen_conc_cases(rng.fork(), quick, stats)
    conc_out = run_each(hxbin, [c.line for c in conc], min(4, nproc), CONC_TIMEOUT)
    conc_bad = []
    for c, o in zip(conc, conc_out):
        for what, detail in G.check_conc(c, o):
            conc_bad.append({"tag": c.tag, "what": what, "detail": detail, "case": c.line[:3000], "impl_out": (o or "")[:3000]})
    strace_info = G.strace_durability(chk, hxbin, rng.fork(), quick)
    for what, detail, caseline in strace_info["bad"]:
        conc_bad.append({"tag": "strace", "what": what, "detail": detail, "case": caseline, "under_strace": True})
    # ---- write errors (strace fault injection on the log file) and the builder on an existing path
    wf = G.write_fault_runs(chk, hxbin, rng.fork(), quick)
    for what, detail, rp in wf["bad"]:
        conc_bad.append({"tag": "wfault", "what": what, "detail": detail, "case": rp["line"], "write_fault": rp})
    ex_out = run_each(hxbin, ["exists"], 1, CONC_TIMEOUT)[0]
    exd = dict(kv.split("=", 1) for kv in ex_out.split()[1:]) if ex_out.startswith("exists ") else {}
    if not (exd.get("seq", "").startswith("err:") and exd.get("conc", "").startswith("err:") and exd.get("same") == "true"):
        conc_bad.append({"tag": "exists", "what": "builder-opened-an-existing-log", "case": "exists",
                         "detail": "LogBuilder::new / ConcurrentLogBuilder::new on an existing non-empty log must fail and leave it byte-identical: " + ex_out[:200]})
    t3 = time.time()

    chk.coverage.update({
        "evaluations": len(cases) + len(conc) + strace_info["runs"],
        "distinct_nontrivial": len(distinct) + len(set(c.line for c in conc)),
        "rule": "logs generated from one SplitMix64 seed: (a) small logs, every truncation length; (b) boundary logs: prefix batches solved (from the header/entry size formulas) to end 0..25 (and a few larger) bytes before the 1 MiB boundary, a probe batch from 8 bytes to the 2^20-byte maximum incl. exact fits, followers; reads = full + every truncation within +-48 bytes of each block boundary, +-3 of each append end, the tail; (c) rollover / table-full logs; (d) mutated logs and raw malformed files (frames built independently in Python: non-canonical varints, unknown/duplicate/reordered fields, wrong wire types, bad sizes, discriminants, crc right and wrong, damaged entries); (e) 2..8 threads appending through ConcurrentLogBuilder, small batches and batches of 400-700 KiB (so that the write core's can_batch refuses), one process per case with a 90 s limit (a hang is a verdict); strace runs, plain and with the K-th fdatasync held and failed (EIO) among 4-8 appenders; non-trivial = at least one successful append and one read (or a raw file of >= 2 bytes); distinct = distinct case lines",
        "samples": [cases[ncorpus].impl_line()[:600] if len(cases) > ncorpus else "", cases[-1].impl_line()[:600], conc[0].line[:400] if conc else ""],
        "input_distribution": stats, "read_outcomes_impl": errkinds,
        "corpus_cases": ncorpus, "reads": n_reads, "truncations": n_cuts, "reads_also_run_on_model": n_model_reads,
        "write_fault_runs": {k: v for k, v in wf.items() if k != "bad"}, "existing_path_refused": ex_out,
        "concurrent_cases": len(conc), "strace": {k: v for k, v in strace_info.items() if k != "bad"},
        "traces_validated_against_impl": strace_info["runs"] + len(conc),
        "correspondence": "impl (Rust, release + overflow-checks + debug-assertions) vs extracted Coq model: append results and offsets, byte-exact file (length + FNV-1a 64), read results (entries as batch prefix or digest, end/error class); direct oracle: prefix rule from the implementation's own append offsets",
        "disagreements_impl_vs_model": len(corr_bad), "disagreements_impl_vs_spec": len(prop_bad) + len(conc_bad),
        "timing_s": {"impl": round(t1 - t0, 1), "model": round(t2 - t1, 1), "concurrent": round(t3 - t2, 1)},
        "trusted_base": [
            "Coq 8.16.1 kernel (coqc, full .vo build)",
            "tools/constants.py (BLOCK_BITS, HEADER_MAX_SIZE, discriminants, TABLE_FULL_SIZE, key/value limits, prototk field-number limits re-extracted from the source)",
            "extraction via ExtrOcamlBasic (no Extract Constant of ours) + ocaml/log/mx_log.ml driver (its crc32c, FNV, case parser)",
            "harness/src/bin/c12.rs (case parser, prefix matcher, FNV); checks/c12_gen.py (generator, Python frame builder/walker for malformed files and the strace check)",
            "strace -f for the order of write / fdatasync / acknowledgement system calls",
            "crc32c::crc32c is a section variable (arbitrary function to u32); I/O failures other than end-of-file are not modelled",
        ],
    })
    chk.assumptions = ["crc32c is an arbitrary function (no detection property used or needed by C12)",
                       "write_all/flush/fdatasync do not fail (I/O errors are outside the model)",
                       "the concurrent theorems are about Log/ModelConcWL.v (two Sync42/ModelWcq.v machines + the glue of append); that ModelWcq.v is the real queue is C18's correspondence; a successful fdatasync makes every byte flushed so far durable"]

    if prop_bad or conc_bad:
        b = (prop_bad + conc_bad)[0]
        chk.violation("c12_%s.json" % b["tag"].replace(":", "_"), {"kind": "property", "what": b["what"], "detail": b.get("detail"), "case": b.get("case"),
                                                               "under_strace": b.get("under_strace", False), "write_fault": b.get("write_fault"),
                                                               "impl_out": b.get("impl_out"), "others": len(prop_bad) + len(conc_bad) - 1,
                                                               "replay_cmd": "./bin/check C12 --replay <this file>"})
    elif corr_bad or not ok_proof:
        chk.violation("c12_unproved.json", {"kind": "no-failing-input-found", "broken": info["broken"],
                                            "correspondence_disagreements": corr_bad[:5]}, no_input=True)


def replay(path):
    with open(path) as fh:
        obj = json.load(fh)
    print(json.dumps(obj, indent=1)[:6000])
    rc, out = vlib.sh(["python3", os.path.join(vlib.VERIF, "tools", "constants.py"), "Log", "--json"])
    G.set_constants(json.loads(out.strip().splitlines()[-1])["Log"])
    case = obj.get("case")
    if not case:
        return 1
    okh, outh, (hxbin,) = vlib.cargo_build(["c12"])
    if obj.get("write_fault"):
        o = G.write_fault_replay(hxbin, obj["write_fault"], os.path.join(vlib.WORK, "replay", "C12", "wfault_replay"))
        print("impl now :", o[:2000])
        print("verdict  : compare with `detail` above (an append that returned err must not be in the file; no ok after an err)")
        return 1 if ("HANG" in o) else 0
    if case == "exists":
        o = run_each(hxbin, ["exists"], 1, CONC_TIMEOUT)[0]
        print("impl now :", o)
        ok = " seq=err:" in o and " conc=err:" in o and "same=true" in o
        print("verdict  :", "holds" if ok else "builder opened an existing log")
        return 0 if ok else 1
    if isinstance(case, str) and obj.get("under_strace"):
        info = {"runs": 0, "acks_checked": 0, "fdatasyncs": 0, "writes": 0, "bad": []}
        d = os.path.join(vlib.WORK, "replay", "C12", "strace_replay")
        import re
        mi = re.search(r"inject_when=(\d+)", str(obj.get("detail")))
        for _ in range(5):          # the schedule is not reproducible: a few attempts
            G.strace_one(hxbin, case, d, info, inject_when=int(mi.group(1)) if mi else None)
        print("strace   :", {k: v for k, v in info.items() if k != "bad"})
        print("verdict  :", [b[:2] for b in info["bad"]] or "holds (in 5 runs)")
        return 1 if info["bad"] else 0
    if isinstance(case, str):          # a concurrent case line
        o = run_each(hxbin, [case], 1, CONC_TIMEOUT)[0]
        print("impl now :", o[:3000])
        bad = G.check_conc(G.ConcCase(case, "replay"), o)
        print("verdict  :", bad or "holds")
        return 1 if bad else 0
    c = G.Case.from_json(case, "replay")
    p = subprocess.run([hxbin], input=(c.impl_line() + "\n").encode(), stdout=subprocess.PIPE, env=dict(os.environ, C12_AGAIN=AGAIN))
    o = p.stdout.decode().strip()
    print("impl now :", o[:3000])
    bad = oracle_case(c, split_out(o))
    print("verdict  :", bad or "holds")
    return 1 if bad else 0
