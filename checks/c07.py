"""C07 — a scan cursor is a stable, memory-safe snapshot while the store moves under it.

Decided by: theorems of coq/theories/Snap/Props_C07.v over the executable model Snap/Model.v (the
skiplist iterator as a node position in a growing list, the lazy sst cursors with a count of the
files they open, the nesting built by KeyValueStore::range_scan out of the combinator models of
area Cursor, and the lifetime machinery: Arc<MemTable>/Arc<Body>, Arc<Version>, take_snapshot /
install_version / explicit_ref / explicit_unref, the reference counter, rename to trash, unlink,
open-by-name, sst cache).  Tied to the code by replaying single-stepped histories of the real
KeyValueStore with several cursors held open across writes, rollover+flush (dropping the memtable
a cursor reads), compactions / moves / GCs (retiring SSTs a cursor reads) and trash clean-up, in
lock step on the extracted model (`mx_snap`): every cursor observation (key, timestamp, value),
every error, and the contents of sst/ and trash/ after every event; plus the direct oracle: a
Python reference cursor over the key->value map frozen when the scan was opened.  Also in the
histories: scans of the TREE itself (LsmTree::range_scan; oracle = the flushed contents at open),
held across the same events; cursor calls with a write PLACED INSIDE them (the harness writes from
the skip list's hook at a chosen hook event of the call; sweeps put a write of the very key prev()
is stepping onto at every offset 0..59 from the end of the call).  Two concurrent stages: writers
against scanners (atomic batches, stable walks), and many scanner threads opening the same small
ssts lazily at the same moment while writers hammer the keys under the cursors (no panic, no
error, no poisoned lock, the process survives, identical walks)."""
import json
import os
import select
import shutil
import subprocess
import time

import vlib

META = {
    "category": "proof",
    "text": "Coq theorems (Snap/Props_C07.v) over an executable model of the scan cursor and of the lifetimes of what it reads (skiplist nodes, versions, SST files, open handles): in every interleaving of completed writes, rollovers, flushes, installs of new versions (compactions, moves, GCs), trash clean-up, cache evictions and cursor calls - forward, backward, seeks, several cursors - no cursor call touches freed skiplist nodes or a missing file, and each cursor keeps behaving as the reference cursor over the contents at scan-open time - writes into the very memtable it iterates included, whole or in their parts (sequence number assigned / entries inserted one by one / published; a scan may be opened between insert and publish) (C07_cursor_snapshot_stable: late-tolerant children, merge and pruning cursor), at every state reached by an accepted history with nothing evaluated on that state (C07_cursor_snapshot_stable_accepted: the hypotheses about the store at scan-open are invariants); the pre-repair lifetime rules (iterator not owning the nodes, cursor not owning its VersionRef) are models too and are refuted. The model is tied to lsmtk by lock-step replay of single-stepped real histories with cursors held across events (observations, errors, sst/ and trash/ contents), with an allocation registry on every skiplist node dereference and a count of freed nodes compared with the model's memtable lifetimes, against a Python reference cursor over the map (key -> sequence number, value) frozen at scan-open, with the model's acceptance predicate acc_ev evaluated on every event of the real histories (real flushes and compaction outputs are accepted), and by a concurrent stage (writer threads against scanning threads) for the one assumption the atomic-event model makes about the read timestamp. Where the atomic-event model is blind, the check is direct: scans of the tree itself (LsmTree::range_scan) held across compactions against the flushed contents at open; writes placed INSIDE a cursor call (from the skip list's hook, at every offset from the end of a prev() onto the written key); a second concurrent stage in which many threads open the same small ssts lazily at the same moment (file manager) while writers overwrite the keys under backward-walking cursors.",
    "note": "Trusted: Coq kernel; extraction (ExtrOcamlBasic) + ocaml/snap driver; harness c07 + cfg(blue_verif) hooks (single-step compaction, flush handshake, dump, skipfree node-lifetime hook); this module. Modelled, not verified here: the combinators themselves (area Cursor, C11), an SstCursor as the table of its entries (C10), the skiplist's internals (C17: the iterator is modelled as successor/predecessor in the sorted node list), events as atomic steps (a write is visible all at once: C06), storage errors other than a missing file, the file manager's open-file limit. Atomic events also hide a LEAK race seen by an audit in LsmTree::explicit_unref (two holders of one Arc<Version> dropping concurrently can both read strong_count = 2 and both return, so the version dies without release_sst and its files stay in sst/ until the next open's cleanup_orphans): a file kept too long, not removed too early, hence not a violation of C07 (or C08).",
}

PROPS = "theories/Snap/Props_C07.v"
MODULE = "Snap.Props_C07"

OPTION_SETS = [
    ("default-limits", ["--sst-target-file-size", "400", "--sst-minimum-file-size", "200", "--sst-target-block-size", "128"]),
    ("tiny-files", ["--sst-target-file-size", "150", "--sst-minimum-file-size", "60", "--sst-target-block-size", "64"]),
    ("few-files-per-compaction", ["--sst-target-file-size", "300", "--sst-minimum-file-size", "100", "--sst-target-block-size", "96", "--max-compaction-files", "4"]),
    ("big-files", ["--sst-target-block-size", "256"]),
    # the default way of opening files: through the LRU sst cache (small, so that it evicts); model flag cf_cache = 1
    ("lru-sst-cache", ["--sst-target-file-size", "300", "--sst-minimum-file-size", "100", "--sst-target-block-size", "96", "--sst-cache-bytes", "2000"]),
]
# no automatic rollover, no stall; nothing stays in the sst cache, so a retired file that is opened
# late really is opened by path
BASE_OPTS = ["--memtable-size-bytes", "100000000", "--l0-write-stall-threshold-files", "100000",
             "--l0-write-stall-threshold-bytes", "100000000000", "--sst-cache-bytes", "0"]

UNIVERSE = [b"", b"a", b"a\x00", b"ab", b"ab\xff", b"abc", b"b", b"b\x00", b"ba", b"\xff", b"\xff\xff",
            b"k1", b"k2", b"k3", b"k4", b"k5", b"k6", b"k7", b"k8", b"k9"]

# the concurrent stage: (name, options, (rounds, batch, small writers, scanners))
CONC_BASE = ["--l0-write-stall-threshold-files", "100000", "--l0-write-stall-threshold-bytes", "100000000000", "--sst-cache-bytes", "0"]
CONC_SETS = [
    ("one-memtable", ["--memtable-size-bytes", "400000000"], (24, 5000, 2, 2)),
    ("rollovers-under-the-scans", ["--memtable-size-bytes", "1000000"], (24, 5000, 2, 3)),
    ("big-batches", ["--memtable-size-bytes", "400000000"], (8, 20000, 3, 2)),
    ("many-small-writers", ["--memtable-size-bytes", "4000000"], (30, 2000, 4, 2)),
]

# the second concurrent stage: many small ssts below L0, every scan opens them lazily and at the same time as the others
CONC2_OPTS = ["--memtable-size-bytes", "100000000", "--l0-write-stall-threshold-files", "100000", "--l0-write-stall-threshold-bytes", "100000000000",
              "--sst-cache-bytes", "0", "--sst-target-file-size", "300", "--sst-minimum-file-size", "100", "--sst-target-block-size", "96"]
CONC2_PARAMS = [(12, 20, 600, 2), (16, 12, 400, 3), (8, 30, 900, 1)]      # scanner threads, rounds, keys, writer threads
# the same stage with every openat returning 20 ms late: few ssts, many threads, all of them inside one open(2)
CONC2_DELAYED = [(16, 3, 25, 0), (16, 3, 50, 1), (16, 4, 25, 1), (16, 4, 50, 0)]
STRACE_DELAY = ["strace", "-f", "-qq", "-o", "/dev/null", "-e", "trace=openat", "-e", "inject=openat:delay_exit=20000"]

# model switches: cf_iter_owns cf_holds_ver cf_cache  (the repaired code, cache off as in BASE_OPTS)
MODEL_FLAGS = os.environ.get("C07_MODEL_FLAGS", "1 1 0")


def split_opts(opts):
    """(options for the harness, model flags): an option set that sets --sst-cache-bytes replaces the `0` of BASE_OPTS and
    switches the model's cache on"""
    if "--sst-cache-bytes" in opts:
        i = BASE_OPTS.index("--sst-cache-bytes")
        base = BASE_OPTS[:i] + BASE_OPTS[i + 2:]
        cached = opts[opts.index("--sst-cache-bytes") + 1] != "0"
        flags = MODEL_FLAGS if "C07_MODEL_FLAGS" in os.environ else ("1 1 1" if cached else "1 1 0")
        return base + opts, flags
    return BASE_OPTS + opts, MODEL_FLAGS


def hx(b):
    return b.hex() if b else "-"


def unhx(s):
    return b"" if s == "-" else bytes.fromhex(s)


# ---------------------------------------------------------------- processes
class Session:
    """one session of the real store (harness c07)"""

    def __init__(self, exe, root, opts, prefix=None, errlog=None):
        self.errfh = open(errlog, "wb") if errlog else subprocess.DEVNULL
        self.p = subprocess.Popen((prefix or []) + [exe, root] + opts, stdin=subprocess.PIPE, stdout=subprocess.PIPE,
                                  stderr=self.errfh, bufsize=0, start_new_session=bool(prefix))
        self.own_group = bool(prefix)      # under strace / valgrind: the store is a child of the prefix, kill the whole group
        self.buf = b""
        self.threads = []
        self.timeout = 600 if prefix else 120
        ln = self.readline(self.timeout)
        self.open_line = (ln or "HANG").strip()

    def readline(self, timeout):
        fd = self.p.stdout.fileno()
        while b"\n" not in self.buf:
            ready, _, _ = select.select([fd], [], [], timeout)
            if not ready:
                return None
            chunk = os.read(fd, 1 << 16)
            if not chunk:
                rest, self.buf = self.buf, b""
                return rest.decode() if rest else ""
            self.buf += chunk
        line, self.buf = self.buf.split(b"\n", 1)
        return line.decode() + "\n"

    def cmd(self, line):
        try:
            self.p.stdin.write((line + "\n").encode())
            self.p.stdin.flush()
        except (BrokenPipeError, OSError, ValueError):
            return ["EOF"]
        outs = []
        while True:
            ln = self.readline(self.timeout)
            if ln is None:
                self.kill()
                outs.append("HANG")
                return outs
            if not ln:
                outs.append("EOF")
                return outs
            ln = ln.rstrip("\n")
            if ln.startswith("THREAD"):
                self.threads.append(ln)
                continue
            outs.append(ln)
            if ln.startswith("FILE "):
                continue
            return outs

    def kill(self):
        if self.own_group:
            try:
                os.killpg(self.p.pid, 9)
            except OSError:
                pass
        self.p.kill()

    def close(self):
        try:
            self.p.stdin.close()
        except Exception:
            pass
        try:
            self.p.wait(timeout=self.timeout)
        except subprocess.TimeoutExpired:
            self.kill()
            self.p.wait()
        if self.errfh is not subprocess.DEVNULL:
            self.errfh.close()
        return self.p.returncode


class Model:
    def __init__(self, exe):
        self.p = subprocess.Popen([exe], stdin=subprocess.PIPE, stdout=subprocess.PIPE, stderr=subprocess.PIPE)

    def cmd(self, line):
        self.p.stdin.write((line + "\n").encode())
        self.p.stdin.flush()
        out = self.p.stdout.readline().decode()
        if not out:
            raise RuntimeError("model driver died on %r: %s" % (line[:200], self.p.stderr.read().decode()[-500:]))
        return out.rstrip("\n")

    def close(self):
        try:
            self.p.stdin.close()
            self.p.wait(timeout=10)
        except Exception:
            self.p.kill()


def fresh_root(tag):
    base = "/dev/shm" if os.path.isdir("/dev/shm") else os.path.join(vlib.WORK, "stores")
    root = os.path.join(base, "blue_verif_%s_%d" % (tag, os.getpid()))
    shutil.rmtree(root, ignore_errors=True)
    return root


# ---------------------------------------------------------------- the direct oracle
def in_bounds(k, lo, hi):
    if lo[0] == "I" and not k >= lo[1]:
        return False
    if lo[0] == "E" and not k > lo[1]:
        return False
    if hi[0] == "I" and not k <= hi[1]:
        return False
    if hi[0] == "E" and not k < hi[1]:
        return False
    return True


class RefCursor:
    """the property itself: the key -> (sequence number, value) map as it was when the scan was opened, restricted
    to the bounds, walked by the plainest possible cursor (an index into the sorted list)"""

    def __init__(self, spec, lo, hi):
        self.l = sorted((k, tv[0], tv[1]) for k, tv in spec.items() if tv[1] is not None and in_bounds(k, lo, hi))
        self.i = -1

    def step(self, op):
        n = len(self.l)
        c = op[0]
        if c == "F":
            self.i = -1
        elif c == "L":
            self.i = n
        elif c == "N":
            self.i = min(self.i + 1, n)
        elif c == "P":
            self.i = max(self.i - 1, -1)
        elif c == "S":
            k = unhx(op[1:])
            self.i = sum(1 for e in self.l if e[0] < k)
        return self.l[self.i] if 0 <= self.i < n else None


def parse_bound(s):
    return ("U", None) if s == "U" else (s[0], unhx(s[1:]))


# ---------------------------------------------------------------- one history, in lock step
class Run:
    def __init__(self, exe, mx_exe, opts, tag, prefix=None, errlog=None, flags=None):
        self.root = fresh_root(tag)
        self.flags = flags or MODEL_FLAGS
        self.cache = {}       # setsum -> list of (k, ts, v)
        self.ids = {}         # setsum -> int
        self.levels = [[] for _ in range(16)]
        self.spec = {}
        self.events = []
        self.problems = []
        self.mem_nonempty = False
        self.cursors = {}     # cid -> dict(ref=RefCursor, dead=bool, since=set(), files=set(names), mem_live=bool)
        self.stats = {"write": 0, "flush": 0, "compact": 0, "move": 0, "none": 0, "open": 0, "close": 0, "rmtrash": 0,
                      "verify": 0, "steps": 0, "obs": 0, "fwd": 0, "back": 0, "seek": 0, "first_last": 0,
                      "held_across": {"nothing": 0, "write": 0, "flush": 0, "flush_of_read_memtable": 0, "install": 0,
                                      "install_retiring_read_sst": 0, "rmtrash": 0, "other_cursor": 0},
                      "nonempty_obs": 0, "max_open_cursors": 0, "ls_compared": 0, "trash_seen": 0,
                      "tree_scans_opened": 0, "tree_scan_obs": 0, "tree_scan_obs_after_install_retiring_read_sst": 0,
                      "placed_write_calls": 0, "placed_writes_done": 0, "placed_writes_on_the_key_stepped_onto": 0,
                      "placed_writes_in_prev": 0, "placed_write_offsets_from_end": {}}
        self.dead = False
        self.frees_off = False
        self.ls_off = False   # a tree-level scan holds a version the model does not know about: sst/ and trash/ not compared after it
        self.flushed = {}     # key -> (sequence number, value) of what has reached the tree (the contents a tree-level scan shows)
        self.model = Model(mx_exe)
        self.sess = Session(exe, self.root, opts, prefix, errlog)
        self.events.append(("open-store", self.sess.open_line))
        if self.sess.open_line != "OPEN ok":
            self.problem("error", what="open failed", line=self.sess.open_line)
            self.dead = True
            return
        st = self.scmd("state")[0].split()
        self.model.cmd("H %d %s" % (int(st[1]), self.flags))

    def problem(self, kind, **kw):
        d = {"kind": kind, "at_event": len(self.events)}
        d.update(kw)
        self.problems.append(d)

    def scmd(self, line):
        """a command to the real store; the process dying (a signal) or hanging is a failure of the property"""
        out = self.sess.cmd(line)
        if out and out[-1] in ("EOF", "HANG") and not self.dead:
            rc = None
            try:
                rc = self.sess.p.wait(timeout=5)
            except Exception:
                pass
            self.dead = True
            self.problem("read", what="the store process %s during `%s` (exit status %s; negative = killed by that signal, -11 = SIGSEGV)"
                         % ("hung" if out[-1] == "HANG" else "died", line[:80], rc), open_cursors=sorted(self.cursors),
                         held_across=dict((cid, sorted(c["since"])) for cid, c in self.cursors.items()))
        return out

    def check_frees(self, where):
        """the skip list nodes released so far (skipfree's cfg(blue_verif) hook, counted by the harness) against the
        model's memtables: a memtable's nodes (its entries and the head node) are released when the store has let go of
        it AND no cursor opened on it is alive, never earlier"""
        if self.dead:
            return
        want = None
        for attempt in range(40):
            out = self.scmd("reg")[0]
            if not out.startswith("REG "):
                return
            got = int(out.split("frees=")[1].split()[0])
            if want is None:
                m = self.model.cmd("M")
                want = 0
                for tok in m.split()[1:]:
                    f = tok.split(":")
                    if f[3] == "1":
                        want += int(f[4]) + 1
            if got >= want:
                break
            time.sleep(0.025)      # the flush thread drops its Arc<MemTable> just after it reports the flush
        self.stats["frees_compared"] = self.stats.get("frees_compared", 0) + 1
        if got > want:
            self.problem("read", what="%s: skip list nodes were freed while a cursor opened on that memtable is still alive (freed so far %d, "
                         "the lifetime model allows %d)" % (where, got, want), reg=out, model=m,
                         held_across=dict((cid, sorted(c["since"])) for cid, c in self.cursors.items()))
            self.frees_off = True
        elif got < want:
            self.problem("corr", what="%s: skip list nodes not freed although no holder is left (freed %d, model %d)" % (where, got, want), reg=out, model=m)
            self.frees_off = True

    def fid(self, name):
        if name not in self.ids:
            self.ids[name] = len(self.ids) + 1
        return self.ids[name]

    def note(self, what, **extra):
        for c in self.cursors.values():
            c["since"].add(what)
            for k, v in extra.items():
                if v(c):
                    c["since"].add(k)

    def dump(self):
        out = self.scmd("dump")
        if out[-1] in ("HANG", "EOF"):
            self.problem("error", what="store stopped answering during dump: " + out[-1])
            self.dead = True
            return self.levels
        levels = [[] for _ in range(16)]
        for ln in out:
            if ln.startswith("FILE "):
                t = ln.split(" ")
                ents = []
                for e in t[2:]:
                    if e == "ERR" or e.startswith("OPENERR"):
                        self.problem("corr", what="file unreadable", file=t[1], why=e)
                        continue
                    k, ts, v = e.split(":")
                    ents.append((unhx(k), int(ts), None if v == "~" else unhx(v)))
                self.cache[t[1]] = ents
            elif ln.startswith("DUMP"):
                for it in ln.split(" ")[1:]:
                    lvl, name = it.split(":")[:2]
                    levels[int(lvl)].append(name)
        return levels

    def file_str(self, name):
        return "%d:%s" % (self.fid(name), ",".join("%s.%d.%s" % (hx(k), ts, "~" if v is None else hx(v)) for k, ts, v in self.cache[name]))

    def levels_str(self, levels):
        return "/".join(";".join(self.file_str(n) for n in lv) for lv in levels)

    def compare_ls(self, where):
        if self.ls_off:
            return
        out = self.scmd("ls")[0]
        if not out.startswith("LS "):
            self.problem("error", what="ls failed", out=out)
            return
        parts = dict(p.split("=", 1) for p in out[3:].split(" "))
        m = self.model.cmd("L")
        mparts = dict(p.split("=", 1) for p in m[2:].split(" "))
        self.stats["ls_compared"] += 1
        for d in ("sst", "trash"):
            real = sorted(self.fid(n) for n in parts[d].split(",") if n)
            mod = sorted(int(x) for x in mparts[d].split(",") if x)
            if d == "trash" and real:
                self.stats["trash_seen"] += 1
            if real != mod:
                self.problem("corr", what="%s/ differs from the model after %s" % (d, where), impl=real, model=mod)

    # -- events
    def write(self, batch):
        raw = batch
        last = {}
        for i, (k, v) in enumerate(batch):
            last[k] = i
        batch = [kv for i, kv in enumerate(batch) if last[kv[0]] == i]
        if len(raw) == 1:
            k, v = raw[0]
            line = ("put %s %s" % (hx(k), hx(v))) if v is not None else ("del %s" % hx(k))
        else:
            line = "batch " + ",".join("%s=%s" % (hx(k), "~" if v is None else hx(v)) for k, v in raw)
        out = self.scmd(line)[0]
        self.events.append((line, out))
        if not out.endswith(" ok"):
            self.problem("error", what="write returned an error or panicked", op=line, out=out)
            return
        m = self.model.cmd("W " + ",".join("%s=%s" % (hx(k), "~" if v is None else hx(v)) for k, v in batch))
        if m != "W ok":
            self.problem("corr", what="model rejected batch", op=line, model=m)
        ts = int(self.scmd("state")[0].split()[1])      # the sequence number the store gave the batch
        for k, v in batch:
            self.spec[k] = (ts, v)
        self.mem_nonempty = True
        self.stats["write"] += 1
        self.note("write")

    def flush(self):
        if not self.mem_nonempty:
            return
        out = self.scmd("flush")[0]
        self.events.append(("flush", out))
        if not out.startswith("FLUSH"):
            self.problem("error", what="flush did not complete", out=out, threads=self.sess.threads)
            self.dead = True
            return
        levels = self.dump()
        old = set(n for lv in self.levels for n in lv)
        new = [n for n in levels[0] if n not in old]
        if len(new) != 1 or levels[0][-1:] != new:
            self.problem("corr", what="flush: expected exactly one new file appended to L0", new=new)
            self.levels = levels
            return
        r = self.model.cmd("R")
        m = self.model.cmd("F %d" % self.fid(new[0]))
        want = ",".join("%s.%d.%s" % (hx(k), ts, "~" if v is None else hx(v)) for k, ts, v in self.cache[new[0]])
        if r != "R ok" or m[2:] != want:
            self.problem("corr", what="flush: file contents differ from the model's memtable", impl=want[:300], model=m[:300], r=r)
        self.levels = levels
        self.mem_nonempty = False
        self.flushed = dict(self.spec)
        self.stats["flush"] += 1
        self.note("flush", flush_of_read_memtable=lambda c: c["mem_live"])
        for c in self.cursors.values():
            c["mem_live"] = False
        self.compare_ls("flush")
        if not self.frees_off:
            self.check_frees("after the flush that retires a memtable")

    def compact(self):
        out = self.scmd("compact")[0]
        self.events.append(("compact", out))
        t = out.split(" ")
        if t[0] != "COMPACT":
            self.problem("error", what="compaction step did not complete", out=out)
            self.dead = True
            return False
        if t[1] == "none":
            self.stats["none"] += 1
            return False
        if t[1] == "err":
            self.problem("error", what="compaction returned an error", out=out)
            return False
        inputs = t[6].split(",")
        levels = self.dump()
        m = self.model.cmd("I " + self.levels_str(levels))
        if m != "I ok":
            self.problem("corr", what="model rejected install", model=m)
        gone = set(n for lv in self.levels for n in lv) - set(n for lv in levels for n in lv)
        self.levels = levels
        self.stats["move" if len(inputs) == 1 else "compact"] += 1
        self.note("install", install_retiring_read_sst=lambda c: bool(c["files"] & gone))
        self.compare_ls("compaction")
        return True

    def rmtrash(self):
        out = self.scmd("rmtrash")[0]
        self.events.append(("rmtrash", out))
        self.model.cmd("U *")
        self.stats["rmtrash"] += 1
        self.note("rmtrash")
        self.compare_ls("rmtrash")

    def verify(self):
        """the real verifier: which trash files it unlinks is its business (C08); the model is told"""
        before = self.scmd("ls")[0]
        out = self.scmd("verify")[0]
        after = self.scmd("ls")[0]
        self.events.append(("verify", out))
        if not before.startswith("LS ") or not after.startswith("LS "):
            self.problem("error", what="ls failed around verify", out=[before, after])
            return

        def parts(s):
            return {k: set(x for x in v.split(",") if x) for k, v in (p.split("=", 1) for p in s[3:].split(" "))}
        b, a = parts(before), parts(after)
        if a["sst"] != b["sst"]:
            self.problem("read", what="the verifier changed sst/", before=sorted(b["sst"]), after=sorted(a["sst"]))
        removed = b["trash"] - a["trash"]
        if removed:
            self.model.cmd("U " + ",".join(str(self.fid(n)) for n in sorted(removed)))
            self.note("rmtrash")
        self.stats["verify"] += 1
        self.compare_ls("verify")

    def open(self, cid, lo, hi):
        if cid in self.cursors:
            return
        out = self.scmd("open %d %s %s" % (cid, lo, hi))[0]
        self.events.append(("open %d %s %s" % (cid, lo, hi), out))
        m = self.model.cmd("O %d %s %s" % (cid, lo, hi))
        if not out.startswith("OPENED") or "UAF" in out:
            self.problem("read", what="opening a scan failed or touched freed memory", impl=out, model=m)
            return
        if m != "O . wf=1 eq=1 ts=1":
            # wf=0: the hypotheses of C07_cursor_keeps_scan_open_contents (scan_wfb, fuel) fail in this state;
            # eq=0: the composed specification differs from the contents-based one;
            # ts=0: open_tsb of C07_cursor_snapshot_stable fails (an entry newer than the sequence numbers handed out)
            self.problem("corr", what="model: open differs, or the stability theorem's hypotheses do not hold here", impl=out, model=m)
        self.note("other_cursor")
        self.cursors[cid] = {"ref": RefCursor(self.spec, parse_bound(lo), parse_bound(hi)), "since": set(), "dead": False,
                             "files": set(n for lv in self.levels for n in lv), "mem_live": True, "lo": lo, "hi": hi,
                             "tree": False, "hist": [], "retired": False}
        self.stats["open"] += 1
        self.stats["max_open_cursors"] = max(self.stats["max_open_cursors"], len(self.cursors))
        self.compare_ls("open")
        if not self.frees_off:
            self.check_frees("after opening a scan")

    def topen(self, cid, lo, hi):
        """a scan of the TREE (LsmTree::range_scan, the ingest-only front end): the newest version of every key that has
        reached the tree (flushed), tombstones screened; it holds the version it was opened on, hence its files"""
        if cid in self.cursors:
            return
        out = self.scmd("topen %d %s %s" % (cid, lo, hi))[0]
        self.events.append(("topen %d %s %s" % (cid, lo, hi), out))
        if not out.startswith("OPENED"):
            self.problem("read", what="opening a scan of the tree failed", impl=out)
            return
        self.ls_off = True
        self.note("other_cursor")
        self.cursors[cid] = {"ref": RefCursor(self.flushed, parse_bound(lo), parse_bound(hi)), "since": set(), "dead": False,
                             "files": set(n for lv in self.levels for n in lv), "mem_live": False, "lo": lo, "hi": hi,
                             "tree": True, "hist": [], "retired": False}
        self.stats["tree_scans_opened"] += 1
        self.stats["max_open_cursors"] = max(self.stats["max_open_cursors"], len(self.cursors))

    def step(self, cid, prog):
        c = self.cursors.get(cid)
        if c is None or c["dead"]:
            return
        out = self.scmd("step %d %s" % (cid, ",".join(prog)))[0]
        self.events.append(("step %d %s" % (cid, ",".join(prog)), out))
        m = None if c["tree"] else self.model.cmd("S %d %s" % (cid, ",".join(prog)))
        self.judge(cid, c, prog, out, m)

    def stepinj(self, cid, op, off, key, val):
        """one cursor call with a write PLACED INSIDE it: the harness performs put/del(key) from the skip list's hook at the
        K-th hook event of the call (events = atomic operations on successor cells, node dereferences), i.e. between two
        internal steps of the call.  off counts from the END of the call: K = T - off where T is the number of events of
        the same call measured on a twin cursor (opened now on the same bounds, driven through the same calls, dropped).
        For the oracle and the model the write simply completed before the call returned; the cursor must not see it"""
        c = self.cursors.get(cid)
        if c is None or c["dead"]:
            return
        if c["tree"]:
            return self.step(cid, [op])
        ref = c["ref"]
        if key == "@":
            # the key the reference cursor is about to step onto (else its neighbour, else any key)
            i = ref.i + (1 if op[0] == "N" else -1)
            if op[0] in "NP" and 0 <= i < len(ref.l):
                key = ref.l[i][0]
                self.stats["placed_writes_on_the_key_stepped_onto"] += 1
            elif ref.l:
                key = ref.l[min(max(ref.i, 0), len(ref.l) - 1)][0]
            else:
                key = b"k1"
        total = None
        if len(c["hist"]) <= 96:
            twin = "9%d" % cid
            o = self.scmd("open %s %s %s" % (twin, c["lo"], c["hi"]))[0]
            if o.startswith("OPENED"):
                if c["hist"]:
                    o = self.scmd("step %s %s" % (twin, ",".join(c["hist"])))[0]
                o = self.scmd("stepinj %s %s 1000000000 00 ~" % (twin, op))[0]
                if "INJ:" in o:
                    total = int(o.split("INJ:")[1].split(":")[1])
                if not o.startswith("STEP"):
                    self.problem("read", what="a cursor call panicked or the store stopped (twin cursor of a placed write)", impl=o, cursor=cid)
                self.scmd("close %s" % twin)
        k_at = max(1, total - off) if total is not None else max(1, 60 - off)
        line = "stepinj %d %s %d %s %s" % (cid, op, k_at, hx(key), "~" if val is None else hx(val))
        out = self.scmd(line)[0]
        self.events.append((line + "   # call has %s hook events, write placed %d from the end" % (total, off), out))
        self.stats["placed_write_calls"] += 1
        done = 0
        if " INJ:" in out:
            out, tail = out.rsplit(" INJ:", 1)
            done = int(tail.split(":")[0])
        if done == 2:
            self.problem("error", what="the placed write returned an error", op=line)
        if done == 1:
            mw = self.model.cmd("W %s=%s" % (hx(key), "~" if val is None else hx(val)))
            if mw != "W ok":
                self.problem("corr", what="model rejected the placed write", op=line, model=mw)
            if not self.dead:
                ts = int(self.scmd("state")[0].split()[1])
                self.spec[key] = (ts, val)
            self.mem_nonempty = True
            self.stats["write"] += 1
            self.stats["placed_writes_done"] += 1
            if op[0] == "P":
                self.stats["placed_writes_in_prev"] += 1
            d = self.stats["placed_write_offsets_from_end"]
            d[str(off)] = d.get(str(off), 0) + 1
            for c2 in self.cursors.values():
                c2["since"].add("write")
        m = self.model.cmd("S %d %s" % (cid, op))
        if out.startswith("PANIC"):
            out = "PANIC inside the cursor call (a write of key %s was placed inside it)" % hx(key)
        self.judge(cid, c, [op], out, m)

    def judge(self, cid, c, prog, out, m):
        toks = out.split(" ")
        if toks[0] != "STEP":
            self.problem("read", what="a cursor call panicked or the store stopped", impl=out, model=m, cursor=cid, held_across=sorted(c["since"]),
                         tree_level_scan=c["tree"])
            c["dead"] = True
            if toks[0] in ("HANG", "EOF"):
                self.dead = True
            return
        obs = toks[1:]
        want = []
        for op in prog:
            want.append(c["ref"].step(op))
        c["hist"].extend(prog)
        h = self.stats["held_across"]
        since = sorted(c["since"])
        if c["since"]:
            for k in c["since"]:
                h[k] = h.get(k, 0) + 1
        else:
            h["nothing"] += 1
        if "install_retiring_read_sst" in c["since"]:
            c["retired"] = True
        c["since"] = set()
        self.stats["steps"] += 1
        bad = None
        for i, op in enumerate(prog):
            kind = {"N": "fwd", "P": "back", "S": "seek", "F": "first_last", "L": "first_last"}[op[0]]
            self.stats[kind] += 1
            if i >= len(obs):
                bad = "missing observation"
                break
            o = obs[i]
            if o.startswith("err:") or o.startswith("UAF"):
                bad = "cursor call failed: " + o
                break
            got = None
            if o != ".":
                kt, v = o.split("=", 1)
                got = (unhx(kt.split("@")[0]), int(kt.split("@")[1]), unhx(v) if v != "~" else None)
                self.stats["nonempty_obs"] += 1
            self.stats["obs"] += 1
            if c["tree"]:
                self.stats["tree_scan_obs"] += 1
                if c["retired"]:
                    self.stats["tree_scan_obs_after_install_retiring_read_sst"] += 1
            if got != want[i]:
                bad = "call %d (%s): got %s, the contents at scan-open time give %s" % (i, op, o, "." if want[i] is None else "%s@%d=%s" % (hx(want[i][0]), want[i][1], hx(want[i][2])))
                break
        if bad is None and len(obs) > len(prog):
            bad = "extra output: " + " ".join(obs[len(prog):])      # UAF:<n> from the allocation registry
        if bad:
            self.problem("read", what=bad, impl=out, model=m, cursor=cid, bounds=[c["lo"], c["hi"]], held_across=since, tree_level_scan=c["tree"])
            c["dead"] = True
        elif m is not None and m != "S " + " ".join(obs):
            self.problem("corr", what="model: cursor observations differ", impl=out, model=m, cursor=cid)
            c["dead"] = True

    def close(self, cid):
        c = self.cursors.pop(cid, None)
        if c is None:
            return
        out = self.scmd("close %d" % cid)[0]
        self.events.append(("close %d" % cid, out))
        m = "X ok" if c["tree"] else self.model.cmd("X %d" % cid)
        if out != "CLOSED 1":
            self.problem("read", what="dropping a cursor panicked or touched freed memory", impl=out)
        if m != "X ok" and not c["dead"]:
            self.problem("corr", what="model: close differs", model=m)
        self.stats["close"] += 1
        self.note("other_cursor")
        self.compare_ls("close")
        if not self.frees_off:
            self.check_frees("after dropping a cursor")

    def finish(self):
        reg = None
        rc = None
        try:
            a = self.model.cmd("A")
            f = dict(t.split("=") for t in a.split()[1:])
            self.stats["events_accepted_by_acc_ev"] = int(f["accepted"])
            if int(f["rejected"]):
                # the history of the real store is outside the histories C07_cursor_snapshot_stable_accepted covers
                self.problem("corr", what="Model.acc_ev rejects an event of this history of the real store (a flush before its writers published, "
                             "or a compaction output that is not well formed or holds a (key, timestamp) its inputs do not hold)", model=a)
        except Exception:
            pass
        try:
            if not self.dead:
                reg = self.scmd("reg")[0]
            rc = self.sess.close()
        except Exception:
            pass
        self.model.close()
        shutil.rmtree(self.root, ignore_errors=True)
        self.reg, self.rc = reg, rc
        if reg and not reg.endswith("bad=0"):
            self.problem("read", what="the allocation registry saw a dereference of a node that is not live", reg=reg)


def run_history(exe, mx_exe, opts, ops, tag, prefix=None, errlog=None):
    allopts, flags = split_opts(opts)
    run = Run(exe, mx_exe, allopts, tag, prefix, errlog, flags)
    try:
        for op in ops:
            if run.dead:
                break
            k = op[0]
            if k == "w":
                run.write(op[1])
            elif k == "flush":
                run.flush()
            elif k == "compact":
                for _ in range(op[1]):
                    if run.dead or not run.compact():
                        break
            elif k == "open":
                run.open(op[1], op[2], op[3])
            elif k == "step":
                run.step(op[1], op[2])
            elif k == "topen":
                run.topen(op[1], op[2], op[3])
            elif k == "stepinj":
                run.stepinj(op[1], op[2], op[3], op[4], op[5])
            elif k == "close":
                run.close(op[1])
            elif k == "rmtrash":
                run.rmtrash()
            elif k == "verify":
                run.verify()
        if not run.dead:
            # every cursor still open is walked once more to the end and back, then dropped
            for cid in sorted(run.cursors):
                run.step(cid, ["N", "N", "L", "P", "P"])
            for cid in sorted(run.cursors):
                run.close(cid)
    finally:
        run.finish()
    return run



# ---------------------------------------------------------------- the concurrent stage
def run_conc(args):
    """writers (big batches with their own prefix and marker, tiny puts) against scanners that open a cursor on the batch
    about to complete and walk it three times: every walk must show the batch entirely or not at all, the three walks of
    one cursor must be identical, and a batch whose write() had returned before the scan was opened must be there"""
    exe, name, opts, params, tag = args
    root = fresh_root(tag)
    res = {"name": name, "options": opts, "params": list(params), "line": "", "scans": 0, "bad": 0, "what": None}
    sess = Session(exe, root, CONC_BASE + opts)
    try:
        if sess.open_line != "OPEN ok":
            res["what"] = "open failed: " + sess.open_line
            res["bad"] = 1
            return res
        out = sess.cmd("conc %d %d %d %d" % tuple(params))[-1]
        res["line"] = out
        if not out.startswith("CONC "):
            res["what"] = "the store process died, hung or panicked in the concurrent stage: " + out
            res["bad"] = 1
            return res
        f = dict(t.split("=") for t in out.split()[1:] if "=" in t)
        res["scans"] = int(f["scans"])
        res["bad"] = int(f["unstable"]) + int(f["partial"]) + int(f["missing"]) + int(f["errors"])
        if res["bad"]:
            res["what"] = ("a cursor showed part of a batch, or its walks differed, or a completed batch was missing, or a call failed "
                           "(unstable=%s partial=%s missing=%s errors=%s; batch:order:sizes of the three walks: %s)"
                           % (f["unstable"], f["partial"], f["missing"], f["errors"], " ".join(t for t in out.split()[1:] if "=" not in t)))
        return res
    finally:
        try:
            sess.close()
        except Exception:
            pass
        shutil.rmtree(root, ignore_errors=True)


def run_conc2(args):
    """K keys in many small ssts compacted below L0 (sst cache off, so that every scan opens the files through the file
    manager), 12 hot keys also in the live memtable; W threads overwrite/delete the hot keys all the time; T scanner
    threads, released together by a barrier R times, each open an unbounded scan and walk it three times
    (backward/forward/backward or forward/backward/forward).  No call may panic or fail, the three walks must be the
    same, and at most the 12 hot keys may be missing"""
    exe, params, tag = args[:3]
    delayed = len(args) > 3 and args[3]
    root = fresh_root(tag)
    res = {"params": list(params), "line": "", "scans": 0, "bad": 0, "what": None, "files": 0, "deep": 0, "delayed": bool(delayed)}
    # delayed: every openat of the process returns 20 ms late (strace fault injection), so that all the scanner threads pile
    # up inside FileManager::open of the same sst behind ONE open(2); a waiter that is never woken = a scan that never returns
    sess = Session(exe, root, CONC2_OPTS, prefix=STRACE_DELAY if delayed else None)
    if delayed:
        sess.timeout = 25
    try:
        if sess.open_line != "OPEN ok":
            res["what"] = "open failed: " + sess.open_line
            res["bad"] = 1
            return res
        out = sess.cmd("conc2 %d %d %d %d" % tuple(params))[-1]
        res["line"] = out[:600]
        if not out.startswith("CONC2 "):
            rc = None
            try:
                rc = sess.p.wait(timeout=5)
            except Exception:
                pass
            if out == "HANG":
                res["what"] = ("a cursor call never returned: %d scanner threads were opening the same uncached ssts at the same moment%s and the stage did not "
                               "finish within %d s (the unchanged tree needs about 3 s): a thread waiting inside FileManager::open was never woken"
                               % (params[0], " (every openat delayed by 20 ms)" if delayed else "", sess.timeout))
            else:
                res["what"] = ("the store process died or aborted while scans were opening the same ssts concurrently (answer: %s, exit status %s; "
                               "negative = killed by that signal, -6 = abort, e.g. a panic while panicking)" % (out[:200], rc))
            res["bad"] = 1
            return res
        f = dict(t.split("=", 1) for t in out.split()[1:] if "=" in t)
        res["scans"] = int(f["scans"])
        res["files"], res["deep"] = int(f["files"]), int(f["deep"])
        res["bad"] = int(f["unstable"]) + int(f["panics"]) + int(f["errors"])
        if res["bad"]:
            res["what"] = ("a scan panicked, returned an error (a poisoned lock is one), or its walks differed, while other threads were opening the same "
                           "ssts / writing the keys it was stepping onto (panics=%s errors=%s unstable=%s of %s scans)" % (f["panics"], f["errors"], f["unstable"], f["scans"]))
        return res
    finally:
        try:
            sess.close()
        except Exception:
            pass
        shutil.rmtree(root, ignore_errors=True)


def run_conc_any(args):
    return run_conc2(args[1:]) if args[0] == "conc2" else run_conc(args)


def conc_jobs(exe, rng, reps):
    jobs = []
    for r in range(reps):
        for name, opts, (rounds, batch, smalls, scanners) in CONC_SETS:
            params = (rounds, max(500, batch + rng.below(2001) - 1000), smalls, scanners)
            jobs.append((exe, name, opts, params, "c07conc%d" % len(jobs)))
    return jobs

# ---------------------------------------------------------------- generation
def gen_bound(rng, universe, lo):
    r = rng.below(10)
    if r < 5:
        return "U"
    k = rng.choice(universe)
    if rng.chance(1, 4):
        k = k + bytes([rng.choice([0, 1, 255])])
    return ("I" if rng.chance(1, 2) else "E") + hx(k)


def gen_prog(rng, universe):
    shape = rng.below(10)
    n = rng.choice([1, 1, 2, 3, 5, 8])
    if shape < 4:
        return ["N"] * n
    if shape < 6:
        return ["P"] * n
    prog = []
    for _ in range(n):
        r = rng.below(20)
        if r < 7:
            prog.append("N")
        elif r < 13:
            prog.append("P")
        elif r < 16:
            k = rng.choice(universe)
            if rng.chance(1, 4):
                k = k + bytes([rng.choice([0, 255])])
            prog.append("S" + hx(k))
        elif r < 18:
            prog.append("F")
        else:
            prog.append("L")
    return prog


def gen_history(rng, n_ops, universe, tree=False, placed=False):
    """('w', batch) ('flush',) ('compact', n) ('open', cid, lo, hi) ('step', cid, prog) ('close', cid) ('rmtrash',) ('verify',)
    tree: also ('topen', cid, lo, hi), scans of the tree itself; placed: also ('stepinj', cid, call, offset from the end of
    the call, key or '@' = the key being stepped onto, value or None), a write placed inside a cursor call"""
    ops = []
    hot = [rng.choice(universe) for _ in range(4)]
    open_cursors = []
    next_cid = 1
    for _ in range(n_ops):
        r = rng.below(100)
        if r < 30:
            k = rng.choice(hot) if rng.chance(1, 2) else rng.choice(universe)
            if rng.chance(1, 4):
                ops.append(("w", [(k, None)]))
            else:
                ops.append(("w", [(k, rng.bytes(rng.choice([0, 1, 3, 8, 20, 60])))]))
        elif r < 36:
            n = rng.range(2, 5)
            keys = [rng.choice(universe) for _ in range(n)]
            ops.append(("w", [(k, None if rng.chance(1, 4) else rng.bytes(rng.choice([0, 2, 10, 40]))) for k in keys]))
        elif r < 46:
            ops.append(("flush",))
        elif r < 58:
            ops.append(("compact", rng.choice([1, 2, 3, 8, 20, 40])))
        elif r < 66:
            if len(open_cursors) < 3:
                kind = "topen" if tree and rng.chance(1, 2) else "open"
                ops.append((kind, next_cid, gen_bound(rng, universe, True), gen_bound(rng, universe, False)))
                open_cursors.append(next_cid)
                next_cid += 1
        elif r < 90:
            if open_cursors and placed and rng.chance(1, 3):
                ops.append(("stepinj", rng.choice(open_cursors), rng.choice(["P", "P", "P", "N"]), rng.below(40),
                            "@" if rng.chance(3, 4) else rng.choice(universe), None if rng.chance(1, 4) else rng.bytes(rng.choice([0, 1, 3, 8]))))
            elif open_cursors:
                ops.append(("step", rng.choice(open_cursors), gen_prog(rng, universe)))
        elif r < 94:
            if open_cursors and rng.chance(2, 3):
                cid = rng.choice(open_cursors)
                open_cursors.remove(cid)
                ops.append(("close", cid))
        elif r < 98:
            ops.append(("rmtrash",))
        else:
            ops.append(("verify",))
    return ops


def gen_sweep(rng, universe):
    """a write of the very key a prev() (sometimes a next()) is stepping onto, placed at every offset 0..59 from the end of
    the call in turn, each time on a fresh scan of a small store; between the rounds the store moves (flush, compaction)"""
    ops = []
    keys = sorted(universe[:3] + [k for k in universe[3:] if rng.chance(1, 2)])
    for k in keys:
        ops.append(("w", [(k, rng.bytes(rng.choice([1, 3, 8])))]))
    if rng.chance(1, 2):
        ops.append(("flush",))
        for k in keys[:2]:
            ops.append(("w", [(k, rng.bytes(2))]))
    cid = 1
    for off in range(60):
        back = rng.below(len(keys))
        call = "N" if rng.chance(1, 8) else "P"
        # the key the call steps onto (all keys are live at this point)
        key = keys[len(keys) - 1 - back] if call == "P" else keys[back]
        val = None if rng.chance(1, 6) else rng.bytes(rng.choice([1, 2, 5]))
        ops.append(("open", cid, "U", "U"))
        ops.append(("step", cid, (["L"] + ["P"] * back) if call == "P" else (["F"] + ["N"] * back)))
        ops.append(("stepinj", cid, call, off, "@", val))
        ops.append(("step", cid, ["P", "N", "N"] if call == "P" else ["N", "P", "P"]))
        ops.append(("close", cid))
        if val is None:
            ops.append(("w", [(key, rng.bytes(2))]))
        cid += 1
        if off % 15 == 14:
            ops.append(("flush",))
        if off % 30 == 29:
            ops.append(("compact", 8))
    return ops


def ops_to_json(ops):
    out = []
    for op in ops:
        if op[0] == "w":
            out.append(["w", [[k.hex(), None if v is None else v.hex()] for k, v in op[1]]])
        elif op[0] == "stepinj":
            out.append(["stepinj", op[1], op[2], op[3], op[4] if op[4] == "@" else op[4].hex(), None if op[5] is None else op[5].hex()])
        else:
            out.append(list(op))
    return out


def ops_from_json(js):
    out = []
    for op in js:
        if op[0] == "w":
            out.append(("w", [(bytes.fromhex(k), None if v is None else bytes.fromhex(v)) for k, v in op[1]]))
        elif op[0] == "stepinj":
            out.append(("stepinj", op[1], op[2], op[3], "@" if op[4] == "@" else bytes.fromhex(op[4]), None if op[5] is None else bytes.fromhex(op[5])))
        else:
            out.append(tuple(op))
    return out


class Summary:
    def __init__(self, run):
        self.problems, self.stats, self.events, self.reg, self.rc = run.problems, run.stats, run.events[-25:], run.reg, run.rc


def _job(args):
    exe, mx_exe, opts, ops, tag, prefix, errlog = args
    return Summary(run_history(exe, mx_exe, opts, ops, tag, prefix, errlog))


def run_many(jobs, procs=None):
    import multiprocessing
    with multiprocessing.Pool(procs or min(len(jobs), max(2, vlib.NCPU - 2))) as pool:
        return pool.map(_job, jobs, chunksize=1)


def build(chk):
    okx, outx = vlib.coq_make(["theories/Snap/Extract.vo"])
    okm, outm, mx = vlib.ocaml_build("snap", "mx_snap")
    okh, outh, (exe,) = vlib.cargo_build(["c07"])
    if not (okx and okm):
        raise RuntimeError("model build failed:\n" + outx[-1500:] + outm[-1500:])
    if not okh:
        raise RuntimeError("harness build failed (does /repo still compile?):\n" + outh[-3000:])
    return exe, mx


def add_stats(total, s):
    for k, v in s.items():
        if isinstance(v, dict):
            add_stats(total.setdefault(k, {}), v)
        elif k.startswith("max_"):
            total[k] = max(total.get(k, 0), v)
        else:
            total[k] = total.get(k, 0) + v


def load_corpus():
    d = os.path.join(vlib.VERIF, "corpus", "C07")
    out = []
    if os.path.isdir(d):
        for fn in sorted(os.listdir(d)):
            if fn.endswith(".json"):
                c = json.load(open(os.path.join(d, fn)))
                out.append((fn[:-5], c.get("options", "default-limits"), ops_from_json(c["history"])))
    return out


def run(chk):
    ok_proof, info = vlib.proof_stage(chk, PROPS, MODULE, const_areas=("Snap",), pins_rel="pins/C07.v")
    exe, mx = build(chk)
    rng = vlib.Rng(chk.seed * 1000003 + 7)
    quick = chk.tier == "quick"
    n_hist = 160 if quick else 1600
    jobs, names = [], []
    for name, optname, ops in load_corpus():
        jobs.append((exe, mx, dict(OPTION_SETS)[optname], ops, "c07c%d" % len(jobs), None, None))
        names.append(("corpus_" + name, optname, ops))
    ncorpus = len(jobs)
    for i in range(n_hist):
        optname, opts = OPTION_SETS[i % len(OPTION_SETS)]
        universe = UNIVERSE[:rng.choice([6, 10, 20])]
        # every 4th history also scans the tree itself, every 4th (another one) places writes inside cursor calls
        ops = gen_history(rng.fork(), rng.choice([60, 120, 240] if quick else [60, 120, 240, 480]), universe,
                          tree=(i % 4 == 1), placed=(i % 4 == 3))
        jobs.append((exe, mx, opts, ops, "c07h%d" % i, None, None))
        names.append(("h%d" % i, optname, ops))
    for i in range(5 if quick else 40):
        optname, opts = OPTION_SETS[i % len(OPTION_SETS)]
        ops = gen_sweep(rng.fork(), UNIVERSE[11:11 + rng.choice([3, 5, 9])])
        jobs.append((exe, mx, opts, ops, "c07s%d" % i, None, None))
        names.append(("sweep%d" % i, optname, ops))
    results = [(n[0], n[1], n[2], r) for n, r in zip(names, run_many(jobs))]

    # thorough: the corpus and a sample of the histories again under valgrind (memcheck)
    vg = {"runs": 0, "errors": 0}
    if not quick:
        vjobs, vnames = [], []
        pick = list(range(ncorpus)) + list(range(ncorpus, len(jobs), max(1, (len(jobs) - ncorpus) // 24)))
        for j in pick:
            errlog = os.path.join(chk.work, "valgrind_%d.log" % j)
            vjobs.append((exe, mx, jobs[j][2], [op for op in jobs[j][3]][:160], "c07v%d" % j,
                          ["valgrind", "-q", "--error-exitcode=9"], errlog))
            vnames.append((names[j][0], errlog))
        for (nm, errlog), r in zip(vnames, run_many(vjobs, procs=max(2, vlib.NCPU // 2))):
            vg["runs"] += 1
            txt = open(errlog, errors="replace").read() if os.path.exists(errlog) else ""
            if "Invalid read" in txt or "Invalid write" in txt or "Invalid free" in txt or r.rc == 9:
                vg["errors"] += 1
                chk.violation("c07_valgrind_%s.json" % nm, {"kind": "property", "what": "valgrind memcheck reports an invalid access while a cursor is used",
                                                            "log_tail": txt[-3000:], "history": ops_to_json(dict((n[0], n[2]) for n in names)[nm])})
            for p in r.problems:
                if p["kind"] in ("read", "error"):
                    vg["errors"] += 1

    # the concurrent stage (two sessions at a time: each one runs 5 to 8 threads)
    import multiprocessing
    cjobs = conc_jobs(exe, rng.fork(), 3 if quick else 25)
    c2jobs = [("conc2", exe, CONC2_PARAMS[i % len(CONC2_PARAMS)], "c07cc%d" % i) for i in range(3 if quick else 24)]
    with multiprocessing.Pool(2) as pool:
        allres = pool.map(run_conc_any, cjobs + c2jobs, chunksize=1)
    cres, c2res = allres[:len(cjobs)], allres[len(cjobs):]
    if shutil.which("strace"):
        # alone on the machine: under load the threads no longer arrive inside the same open(2)
        for i in range(2 if quick else 4):
            c2res.append(run_conc2((exe, CONC2_DELAYED[i], "c07cd%d" % i, True)))
            if c2res[-1]["bad"]:
                break
    conc = {"sessions": len(cres), "scans": sum(c["scans"] for c in cres), "sessions_with_failures": sum(1 for c in cres if c["bad"]),
            "sets": [n for n, _, _ in CONC_SETS],
            "rule": "per session one thread writes R batches of B keys (own key prefix and marker value per batch), S threads issue single puts all the time, C threads open a scan cursor on the batch about to complete (every 8th time: the one completed last) and walk it three times (backward/forward/backward or forward/backward/forward); oracle: every walk shows the batch entirely or not at all, the three walks of one cursor are identical, a batch whose write() had returned before the scan was opened is there"}
    conc["second_stage"] = {"sessions": len(c2res), "scans": sum(c["scans"] for c in c2res), "sessions_with_failures": sum(1 for c in c2res if c["bad"]),
                            "sessions_with_every_openat_delayed_20ms(strace inject; few ssts, 12-16 threads behind one open(2); a stage that does not finish in 40 s = a cursor call that never returned)": sum(1 for c in c2res if c["delayed"]),
                            "ssts_in_the_tree(min)": min([c["files"] for c in c2res] or [0]), "ssts_below_L0(min)": min([c["deep"] for c in c2res] or [0]),
                            "params(scanner threads, rounds, keys, writer threads)": [list(p) for p in CONC2_PARAMS],
                            "rule": "K keys in many small ssts compacted below L0, sst cache off (every scan opens the files lazily through the file manager), 12 hot keys also in the live memtable and overwritten/deleted by W writer threads all the time; T scanner threads released together by a barrier, R times, each open an unbounded scan and walk it backward/forward/backward or forward/backward/forward; oracle: no call panics or returns an error, the process survives, the three walks of one cursor are identical, at most the 12 hot keys are missing"}
    c2reported = 0
    for c in c2res:
        if c["bad"] and c2reported < 2:
            chk.violation("c07_conc2_%d.json" % c2reported, {"kind": "property", "what": c["what"], "conc2": {"params": c["params"], "delayed": c["delayed"]},
                                                             "line": c["line"], "replay_cmd": "./bin/check C07 --replay <this file>  (re-runs the stage up to 10 times)"})
            c2reported += 1
    creported = 0
    for c in cres:
        if c["bad"] and creported < 2:
            chk.violation("c07_conc_%d.json" % creported, {"kind": "property", "what": c["what"], "conc": {"name": c["name"], "options": c["options"], "params": c["params"]},
                                                           "line": c["line"], "replay_cmd": "./bin/check C07 --replay <this file>  (re-runs the stage up to 10 times)"})
            creported += 1

    total = {}
    shapes = set()
    n_problems = 0
    for name, optname, ops, r in results:
        add_stats(total, r.stats)
        n_problems += len(r.problems)
        h = r.stats["held_across"]
        if r.stats["nonempty_obs"] > 0 and (h["write"] + h["flush"] + h["install"] + h["rmtrash"]) > 0:
            shapes.add(json.dumps(ops_to_json(ops))[:3000])
    chk.coverage.update({
        "evaluations": total.get("obs", 0), "distinct_nontrivial": len(shapes),
        "rule": "random single-stepped histories on the real store (puts/deletes/batches over a key universe with shared prefixes, rollover+flush, 1..40 compaction steps, trash removal, the real verifier) with up to 3 scan cursors open at once (all nine bound shapes), each driven by short programs of next/prev/seek/seek_to_first/seek_to_last between the store's events, under 5 option sets (4 shaping file sizes with the sst cache off, 1 opening files through a small LRU sst cache with the model's cache switch on); every 4th history also opens scans of the tree itself (LsmTree::range_scan; compared with the reference over the flushed contents at open, 2-way; sst/ and trash/ are not compared after such a scan was opened because it holds a version the model does not know), every 4th (another one) places writes inside cursor calls, and 5 (thorough: 40) sweep histories place a write of the key a prev()/next() is stepping onto at every offset 0..59 (in skip list hook events) from the end of the call, each on a fresh scan, with flushes and compactions in between; evaluations = cursor observations compared 3-way (real, extracted model, Python reference over the map frozen at scan-open); non-trivial history = some cursor returned an entry after being held across a write, flush, install or clean-up; distinct = distinct op lists",
        "samples": [ops_to_json(results[-1][2])[:14], ops_to_json(results[ncorpus][2])[:14] if len(results) > ncorpus else []],
        "input_distribution": total, "histories": len(results), "corpus_cases": ncorpus,
        "traces_validated_against_impl": len(results),
        "problems_seen": n_problems, "valgrind": vg, "concurrent_stage": conc, "model_flags(iter_owns holds_ver cache)": MODEL_FLAGS + " ; option set lru-sst-cache (files opened through a 2000-byte LRU sst cache): 1 1 1",
        "disagreements_impl_vs_model": sum(1 for _, _, _, r in results for p in r.problems if p["kind"] == "corr"),
        "disagreements_impl_vs_spec": sum(1 for _, _, _, r in results for p in r.problems if p["kind"] in ("read", "error")),
        "trusted_base": [
            "Coq 8.16.1 kernel (coqc, full .vo build)",
            "extraction via ExtrOcamlBasic + ocaml/snap/mx_snap.ml",
            "harness/src/bin/c07.rs, the cfg(blue_verif) hooks of lsmtk (single-step compaction, flush handshake, dump, verif_tree) and of skipfree (node allocation / release / dereference; also the place from which a write is put inside a cursor call)",
            "checks/c07.py (lock-step replay, Python reference cursor)",
            "area Cursor (C11) for the combinators, C10 for SstCursor = the table of its entries, C17 for the skiplist itself",
        ],
    })
    chk.assumptions = ["events are atomic in the model: a write batch becomes visible all at once, a cursor call is not interleaved with another thread's event; the contents of a cursor are the entries with sequence number <= the read timestamp taken when the scan is opened. That the read timestamp never reaches a sequence number whose insertion is incomplete is the visible_seq_no discipline proved in C06's Conc model; here it is VALIDATED on the real store by the concurrent stage (coverage.concurrent_stage), not re-proved",
                       "an SstCursor behaves as the reference cursor over the file's entries (C10); the combinators as their models (C11)",
                       "storage errors other than a missing file, and the open-file limit of the file manager, are outside the model"]

    reported = 0
    corr_only = []
    for name, optname, ops, r in results:
        replay = {"history": ops_to_json(ops), "options": optname, "problems": r.problems[:10], "events_tail": [list(e) for e in r.events[-25:]],
                  "replay_cmd": "./bin/check C07 --replay <this file>"}
        prop = [p for p in r.problems if p["kind"] in ("read", "error")]
        if prop:
            if reported < 3:
                chk.violation("c07_%s.json" % name, dict(replay, kind="property"))
            reported += 1
        elif r.problems:
            corr_only.append(replay)
    if reported == 0 and (corr_only or not ok_proof) and not chk.violations:
        chk.violation("c07_unproved.json", {"kind": "no-failing-input-found", "broken": info.get("broken", []),
                                            "correspondence": corr_only[:3]}, no_input=True)


def replay(path):
    obj = json.load(open(path))
    print(json.dumps({k: obj[k] for k in obj if k != "history"}, indent=1)[:4000])
    if "conc2" in obj:
        chk = vlib.Check("C07", "quick", 1)
        exe, mx = build(chk)
        for i in range(10):
            r = run_conc2((exe, obj["conc2"]["params"], "c07rcc%d" % i, obj["conc2"].get("delayed", False)))
            print("attempt %d: %s" % (i, r["line"]))
            if r["bad"]:
                print("fails now:", r["what"])
                return 1
        print("problems now: []")
        return 0
    if "conc" in obj:
        chk = vlib.Check("C07", "quick", 1)
        exe, mx = build(chk)
        c = obj["conc"]
        for i in range(10):
            r = run_conc((exe, c["name"], c["options"], c["params"], "c07rc%d" % i))
            print("attempt %d: %s" % (i, r["line"]))
            if r["bad"]:
                print("fails now:", r["what"])
                return 1
        print("problems now: []")
        return 0
    if "history" not in obj:
        return 1
    chk = vlib.Check("C07", "quick", 1)
    exe, mx = build(chk)
    ops = ops_from_json(obj["history"])
    r = run_history(exe, mx, dict(OPTION_SETS)[obj.get("options", "default-limits")], ops, "c07r")
    print("problems now:", json.dumps(r.problems[:10], indent=1, default=str))
    return 1 if any(p["kind"] in ("read", "error") for p in r.problems) else 0
