"""C16 — tuple-key encodings sort byte-wise exactly as their tuples, and decode back.

Decided by: theorems of coq/theories/TupleKey/Props_C16.v over executable models of tuple_key2
(compact format, ModelV2.v) and tuple_key + tuple_key_derive (field-numbered format, ModelV1.v),
tied to the code by running the extracted models and the real crates on the same generated cases
(pairs of same-shape tuples with extensions; typed decoding of valid, mutated and random bytes),
plus the direct oracle: the property itself evaluated in Python on the source tuples (element-wise
comparison with descending elements reversed, extension contiguity, decode = original, no panic,
re-encoding of whatever the compact decoder accepts gives back the bytes)."""
import json
import os

import vlib

META = {
    "category": "proof",
    "text": "Coq theorems (TupleKey/Props_C16.v, closed under the global context) over executable models of tuple_key2/src/lib.rs (builder + parser) and of tuple_key/src/{lib,iter7,combine7,ordered}.rs with buffertk's v64 as used for tags and the call sequences tuple_key_derive generates: for all tuples of any length over {unit,u8..u64,i8..i64,string,bytes} (compact) and {unit,u32,u64,i32,i64,String} x {Forward,Reverse} with any valid field numbers (field-numbered): byte-wise order of the encodings = element-wise order of the tuples (descending elements reversed), encodings of different same-shape tuples diverge at a common position (prefix-freeness), hence extensions stay contiguous; typed decoding inverts encoding; decoding arbitrary bytes never panics; the compact parser accepts exactly the builder's output. For the field-numbered format the order theorem holds outside the class F12 (Reverse strings in prefix relation with a small next byte), which is characterised exactly and refuted inside by a computed witness. Tag numbers and limits are re-extracted from the source on every run; models are tied to the code by differential runs of the extracted models against the real crates (incl. derived TypedTupleKey structs) plus the property oracle in Python.",
    "note": "Trusted: Coq kernel; tools/constants.py; ExtrOcamlBasic extraction + ocaml/tuplekey driver; harness c16; the reading of the Rust into ModelV1/ModelV2 (checked by the differential runs only on generated inputs); String::from_utf8 is modelled by a Gallina UTF-8 validator (Unicode table 3-7), compared with std on generated strings; v1 discriminants/shift counts exist only as literals in the Rust and are retyped in the model.",
}

PROPS = "theories/TupleKey/Props_C16.v"
MODULE = "TupleKey.Props_C16"

# ------------------------------------------------------------------------------------ values
U64 = 1 << 64


def hx(b):
    return b.hex()


def sx(v):
    return ("-%x" % -v) if v < 0 else ("%x" % v)


def tup(toks):
    return ",".join(toks) if toks else "-"


# --- compact format (v2) elements: ("n",) ("b",bytes) ("s",bytes) ("u",bits,int) ("i",bits,int)
def tok2(e):
    k = e[0]
    if k == "n":
        return "n"
    if k in "bs":
        return k + hx(e[1])
    return "%s%d:%s" % (k, e[1], sx(e[2]))


def ty2(e):
    return e[0] if e[0] in "nbs" else "%s%d" % (e[0], e[1])


def key2(e):
    """sort key of an element among elements of its own type"""
    return e[-1] if e[0] != "n" else 0


# --- field-numbered format (v1) fields: (f, dir, elem) elem: ("n",) ("s",bytes) ("u32",v) ("u64",v) ("i32",v) ("i64",v)
def tok1e(e):
    if e[0] == "n":
        return "n"
    if e[0] == "s":
        return "s" + hx(e[1])
    return "%s:%s" % (e[0], sx(e[1]))


def tok1(fl):
    return "%x/%s/%s" % (fl[0], fl[1], tok1e(fl[2]))


def shape1(fl):
    return "%x/%s/%s" % (fl[0], fl[1], fl[2][0])


def cmp3(a, b):
    return "lt" if a < b else ("gt" if a > b else "eq")


def flip(c):
    return {"lt": "gt", "gt": "lt", "eq": "eq"}[c]


def spec_cmp2(A, B):
    for a, b in zip(A, B):
        c = cmp3(key2(a), key2(b))
        if c != "eq":
            return c
    return "eq"


def rbits(n):
    return 0 if n == 0 else ((n - 1) % 7) + 1


def f12_prefix(a, b):
    """a proper prefix of b and the first byte of b after a is < 2^(rbits(len a)+1)"""
    return len(a) < len(b) and b[:len(a)] == a and b[len(a)] < (1 << (rbits(len(a)) + 1))


def spec_cmp1(A, B):
    """(comparison, in_known_class_F12)"""
    for a, b in zip(A, B):
        va, vb = (a[2][1] if a[2][0] != "n" else 0), (b[2][1] if b[2][0] != "n" else 0)
        c = cmp3(va, vb)
        if c != "eq":
            known = a[1] == "R" and a[2][0] == "s" and (f12_prefix(va, vb) or f12_prefix(vb, va))
            return (flip(c) if a[1] == "R" else c), known
    return "eq", False


# ------------------------------------------------------------------------------------ generators
UCHARS = ["\0", "\x01", "\x02", "\x03", "\x04", "\x07", "\x08", "\x0f", "\x10", "\x1f", "\x20", "\x3f", "\x40",
          "a", "b", "z", "\x7e", "\x7f", "\u0080", "\u00ff", "\u07ff", "\u0800", "\uffff", "\U00010000", "\U0010ffff"]
BBYTES = [0, 0, 0, 1, 2, 3, 0x7f, 0x80, 0xfe, 0xff, 0xff, 0x61, 0x10, 0x2b, 0x22]


class Gen:
    def __init__(self, rng, stats):
        self.r = rng
        self.st = stats

    # ---- integers: every byte-length, 7-bit-chunk and sign boundary, with neighbours
    def uint(self, bits):
        r = self.r
        k = r.below(10)
        if k < 4:
            e = r.choice([0, 7, 8, 14, 15, 16, 21, 24, 25, 28, 31, 32, 35, 40, 42, 48, 49, 56, 57, 63, 64])
            v = (1 << e) + r.choice([-2, -1, 0, 1, 2])
        elif k < 6:
            v = r.choice([0, 1, 2, 127, 128, 255, 256, (1 << bits) - 1, (1 << bits) - 2, 1 << (bits - 1)])
        elif k < 8:
            v = r.below(1 << r.range(1, bits))
        else:
            v = r.below(1 << bits)
        return v % (1 << bits)

    def sint(self, bits):
        r = self.r
        k = r.below(10)
        lo, hi = -(1 << (bits - 1)), (1 << (bits - 1)) - 1
        if k < 5:
            e = r.choice([0, 1, 7, 8, 9, 15, 16, 17, 23, 24, 25, 31, 32, 33, 39, 40, 41, 47, 48, 49, 55, 56, 57, 62, 63])
            v = (1 << e) + r.choice([-2, -1, 0, 1, 2])
            if r.chance(1, 2):
                v = -v
        elif k < 7:
            v = r.choice([0, 1, -1, -2, 2, lo, lo + 1, hi, hi - 1, -256, -257, -255, 255, 256])
        elif k < 9:
            v = r.below(1 << r.range(1, bits)) - (1 << r.range(0, bits - 1))
        else:
            v = r.below(1 << bits) + lo
        return max(lo, min(hi, v))

    def ustr(self, maxlen=10):
        """UTF-8 string as bytes, lengths biased to 0 and around multiples of 7 bytes"""
        r = self.r
        n = r.choice([0, 0, 1, 1, 2, 3, 5, 6, 7, 8, 13, 14, 15, r.range(0, maxlen)])
        if r.chance(1, 25):
            n = r.range(16, 48)       # long enough for the u64 shift register of the chunk iterators to wrap
        s = ""
        while len(s.encode()) < n:
            s += r.choice(UCHARS) if r.chance(2, 3) else chr(r.range(0x20, 0x7e))
        return s.encode()

    def ustr_near(self, b):
        """a string related to b: extension by a small / large char, proper prefix, last byte changed"""
        r = self.r
        s = b.decode()
        k = r.below(8)
        if k < 3:
            ext = r.choice(["\0", "\x01", "\x02", "\x03", "\x07", "\x0f", "\x1f", "\x3f", "\x40", "\x7f", "a", "\u0080", "\U0010ffff"])
            s2 = s + ext + ("" if r.chance(2, 3) else self.ustr(4).decode())
        elif k < 5 and s:
            s2 = s[:r.below(len(s))]
        elif k < 7 and s:
            i = r.below(len(s))
            s2 = s[:i] + r.choice(UCHARS) + s[i + 1:]
        else:
            s2 = s + self.ustr(3).decode()
        return s2.encode()

    def bstr(self, maxlen=10):
        r = self.r
        n = r.choice([0, 0, 1, 1, 2, 3, 4, r.range(0, maxlen)])
        if r.chance(1, 25):
            n = r.range(16, 48)
        return bytes(r.choice(BBYTES) if r.chance(2, 3) else r.below(256) for _ in range(n))

    def bstr_near(self, b):
        r = self.r
        k = r.below(8)
        if k < 3:
            return b + bytes([r.choice([0, 1, 0xff, 0xfe, r.below(256)])]) + (b"" if r.chance(2, 3) else self.bstr(3))
        if k < 5 and b:
            return b[:r.below(len(b))]
        if k < 7 and b:
            i = r.below(len(b))
            return b[:i] + bytes([r.choice(BBYTES)]) + b[i + 1:]
        return b + self.bstr(3)

    # ---- v2
    def ty2(self):
        return self.r.choice(["n", "b", "s", "u8", "u16", "u32", "u32", "u64", "u64", "i8", "i16", "i32", "i32", "i64", "i64", "b", "s"])

    def el2(self, ty):
        self.st["v2_" + ty] = self.st.get("v2_" + ty, 0) + 1
        if ty == "n":
            return ("n",)
        if ty == "b":
            return ("b", self.bstr())
        if ty == "s":
            return ("s", self.ustr())
        bits = int(ty[1:])
        return (ty[0], bits, self.uint(bits) if ty[0] == "u" else self.sint(bits))

    def el2_near(self, e):
        r = self.r
        if e[0] == "n":
            return e
        if e[0] == "b":
            return ("b", self.bstr_near(e[1]))
        if e[0] == "s":
            return ("s", self.ustr_near(e[1]))
        bits = e[1]
        if r.chance(1, 2):
            v = e[2] + r.choice([-1, 1, -2, 2, 255, -255, 256, -256])
        else:
            v = self.uint(bits) if e[0] == "u" else self.sint(bits)
        if e[0] == "u":
            v %= (1 << bits)
        else:
            v = max(-(1 << (bits - 1)), min((1 << (bits - 1)) - 1, v))
        return (e[0], bits, v)

    def pair2(self):
        r = self.r
        n = r.choice([1, 1, 2, 2, 3, 4])
        tys = [self.ty2() for _ in range(n)]
        A = [self.el2(t) for t in tys]
        B = list(A)
        mode = r.below(10)
        if mode < 1:
            pass
        elif mode < 7:
            i = r.below(n)
            B[i] = self.el2_near(A[i])
            for j in range(i + 1, n):
                if r.chance(1, 2):
                    B[j] = self.el2(tys[j])
        else:
            B = [self.el2(t) for t in tys]
        EA = [self.el2(self.ty2()) for _ in range(r.choice([0, 1, 1, 2]))]
        EB = [self.el2(self.ty2()) for _ in range(r.choice([0, 0, 1, 2]))]
        return A, B, EA, EB

    # ---- v1
    def fnum(self):
        r = self.r
        while True:
            f = r.choice([1, 2, 3, 7, 8, 15, 16, 127, 128, 2047, 2048, 18999, 20000, 1 << 18, (1 << 25) - 1, 1 << 25,
                          (1 << 29) - 1, r.range(1, 64), r.range(1, (1 << 29) - 1)])
            if not (19000 <= f <= 19999):
                return f

    def kty1(self):
        return self.r.choice(["n", "u32", "u64", "i32", "i64", "s", "s", "s"])

    def el1(self, ty):
        self.st["v1_" + ty] = self.st.get("v1_" + ty, 0) + 1
        if ty == "n":
            return ("n",)
        if ty == "s":
            return ("s", self.ustr())
        bits = int(ty[1:])
        return (ty, self.uint(bits) if ty[0] == "u" else self.sint(bits))

    def el1_near(self, e):
        r = self.r
        if e[0] == "n":
            return e
        if e[0] == "s":
            return ("s", self.ustr_near(e[1]))
        bits = int(e[0][1:])
        if r.chance(1, 2):
            v = e[1] + r.choice([-1, 1, -2, 2, 127, 128, -128, 1 << 7, 1 << 14, -(1 << 21), 1 << 24, -(1 << 25)])
        else:
            v = self.uint(bits) if e[0][0] == "u" else self.sint(bits)
        if e[0][0] == "u":
            v %= (1 << bits)
        else:
            v = max(-(1 << (bits - 1)), min((1 << (bits - 1)) - 1, v))
        return (e[0], v)

    def field1(self):
        d = self.r.choice(["F", "R"])
        self.st["v1_dir_" + d] = self.st.get("v1_dir_" + d, 0) + 1
        return (self.fnum(), d, self.el1(self.kty1()))

    def pair1(self):
        r = self.r
        n = r.choice([1, 1, 2, 2, 3, 4])
        A = [self.field1() for _ in range(n)]
        B = list(A)
        mode = r.below(10)
        if mode < 1:
            pass
        elif mode < 8:
            i = r.below(n)
            B[i] = (A[i][0], A[i][1], self.el1_near(A[i][2]))
            for j in range(i + 1, n):
                if r.chance(1, 2):
                    B[j] = (A[j][0], A[j][1], self.el1(A[j][2][0]))
        else:
            B = [(f, d, self.el1(e[0])) for f, d, e in A]
        EA = [self.field1() for _ in range(r.choice([0, 1, 1, 2]))]
        EB = [self.field1() for _ in range(r.choice([0, 0, 1, 2]))]
        return A, B, EA, EB

    def derived(self):
        """values for one of the harness's derived structs DA / DR / DM, twice (second one near the first)"""
        r = self.r
        name = r.choice(["DA", "DR", "DM"])
        if name == "DA":
            sh = [(1, "F", "n"), (2, "F", "u32"), (3, "F", "u64"), (4, "F", "i32"), (5, "F", "i64"), (6, "F", "s")]
        elif name == "DR":
            sh = [(1, "R", "n"), (2, "R", "u32"), (3, "R", "u64"), (4, "R", "i32"), (5, "R", "i64"), (6, "R", "s")]
        else:
            sh = [(7, "R", "s"), (300, "F", "u64"), (70000, "F", "n"), (9, "R", "i32"), (536870911, "F", "s")]
        A = [(f, d, self.el1(t)) for f, d, t in sh]
        B = list(A)
        i = r.below(len(sh))
        if r.chance(4, 5):
            B[i] = (A[i][0], A[i][1], self.el1_near(A[i][2]))
            for j in range(i + 1, len(sh)):
                if r.chance(1, 2):
                    B[j] = (A[j][0], A[j][1], self.el1(A[j][2][0]))
        return name, A, B

    # ---- hostile / malformed byte strings
    def mutate(self, b):
        r = self.r
        b = bytearray(b)
        for _ in range(r.choice([1, 1, 1, 2, 3])):
            k = r.below(7)
            if k == 0 and b:
                del b[r.below(len(b)):]                       # truncate
            elif k == 1 and b:
                i = r.below(len(b))
                b[i] ^= 1 << r.below(8)                       # bit flip
            elif k == 2 and b:
                b[r.below(len(b))] = r.choice([0, 1, 0xff, 0xfe, 0x10, 0x18, 0x19, 0x21, 0x22, 0x2a, 0x2b, 0x2c, 0x80, r.below(256)])
            elif k == 3:
                b.insert(r.below(len(b) + 1), r.choice([0, 0xff, 1, 0x2b, r.below(256)]))
            elif k == 4 and b:
                del b[r.below(len(b))]
            elif k == 5:
                b += bytes(r.below(256) for _ in range(r.range(1, 3)))
            elif b:
                i = r.below(len(b))
                b[i] = (b[i] + r.choice([1, 255])) % 256
        return bytes(b)

    def random_bytes(self):
        r = self.r
        n = r.choice([0, 1, 2, 3, 5, 9, 10, 11, 12, r.range(0, 24)])
        k = r.below(4)
        if k == 0:
            return bytes(r.below(256) for _ in range(n))
        if k == 1:   # tag-like bytes of the compact format and its escapes
            return bytes(r.choice([0, 0, 0xff, 0x10, 0x11, 0x17, 0x18, 0x19, 0x1a, 0x21, 0x22, 0x23, 0x2a, 0x2b, 0x2c, 0x80, 0x7f, 1, r.below(256)]) for _ in range(n))
        if k == 2:   # odd bytes (v1 continuation) with occasional terminators
            return bytes((r.below(256) | 1) if r.chance(4, 5) else (r.below(256) & 0xfe) for _ in range(n))
        return bytes(r.choice([0x22, 0x2c, 0x3c, 0x24, 0x34, 0x00, 0xfe, 0x01, 0xff, r.below(256)]) for _ in range(n))


# ------------------------------------------------------------------------------------ running
def run_lines(exe, lines, workdir, tag):
    p = os.path.join(workdir, tag + ".in")
    with open(p, "w") as fh:
        fh.write("\n".join(lines) + "\n")
    rc, out = vlib.sh("%s < %s" % (exe, p), timeout=3000)
    res = out.split("\n")
    if res and res[-1] == "":
        res.pop()
    return rc, res


def load_corpus():
    d = os.path.join(vlib.VERIF, "corpus", "C16")
    out = []
    if os.path.isdir(d):
        for fn in sorted(os.listdir(d)):
            if fn.endswith(".json"):
                with open(os.path.join(d, fn)) as fh:
                    c = json.load(fh)
                for ln in c["lines"]:
                    out.append((ln, fn))
    return out


def parse_tuple2(s):
    out = []
    for t in ([] if s == "-" else s.split(",")):
        if t == "n":
            out.append(("n",))
        elif t[0] in "bs":
            out.append((t[0], bytes.fromhex(t[1:])))
        else:
            k = t.index(":")
            v = t[k + 1:]
            out.append((t[0], int(t[1:k]), -int(v[1:], 16) if v.startswith("-") else int(v, 16)))
    return out


def parse_fields1(s):
    out = []
    for t in ([] if s == "-" else s.split(",")):
        f, d, e = t.split("/")
        if e == "n":
            el = ("n",)
        elif e[0] == "s":
            el = ("s", bytes.fromhex(e[1:]))
        else:
            k = e.index(":")
            v = e[k + 1:]
            el = (e[:k], -int(v[1:], 16) if v.startswith("-") else int(v, 16))
        out.append((int(f, 16), d, el))
    return out


def expect_pair(kind, A, B, EA, EB):
    """what the property demands of the observable fields of a P case:
    returns (cmpAB, cmpAE_B, cmpAE_BE or None, cmpA_AE, decA, decAE, known)"""
    if kind == "2P":
        c, known = spec_cmp2(A, B), False
        decA, decAE = "ok:" + tup([tok2(e) for e in A]), "ok:" + tup([tok2(e) for e in A + EA])
    else:
        c, known = spec_cmp1(A, B)
        decA, decAE = "ok:" + tup([tok1e(f[2]) for f in A]), "ok:" + tup([tok1e(f[2]) for f in A + EA])
    if c == "eq":
        ae_b = "gt" if EA else "eq"
        ae_be = None            # decided by the extensions, which need not have one shape
    else:
        ae_b = c
        ae_be = c
    a_ae = "lt" if EA else "eq"
    return c, ae_b, ae_be, a_ae, decA, decAE, known


def line_of_pair(kind, A, B, EA, EB):
    tk = tok2 if kind == "2P" else tok1
    return "%s %s %s %s %s" % (kind, tup([tk(e) for e in A]), tup([tk(e) for e in B]), tup([tk(e) for e in EA]), tup([tk(e) for e in EB]))


def run(chk):
    ok_proof, info = vlib.proof_stage(chk, PROPS, MODULE, const_areas=("TupleKey",), pins_rel="pins/C16.v")
    okx, outx = vlib.coq_make(["theories/TupleKey/Extract.vo"])
    okm, outm, mx = vlib.ocaml_build("tuplekey", "mx_tuplekey")
    okh, outh, (hxbin,) = vlib.cargo_build(["c16"])
    if not (okx and okm):
        raise RuntimeError("model build failed:\n" + outx[-1500:] + outm[-1500:])
    if not okh:
        raise RuntimeError("harness build failed (does /repo still compile?):\n" + outh[-3000:])

    rng = vlib.Rng(chk.seed * 1000003 + 16)
    stats = {}
    g = Gen(rng, stats)
    quick = chk.tier == "quick"
    n_pairs = 30000 if quick else 400000
    n_derived = 3000 if quick else 40000
    n_dec = 15000 if quick else 200000

    # ---- cases: (line, meta) ; meta carries what the oracle needs
    cases = []
    for ln, fn in load_corpus():
        cases.append((ln, {"kind": ln.split()[0], "tag": "corpus:" + fn, "corpus": True}))
    ncorpus = len(cases)
    for k in range(n_pairs):
        A, B, EA, EB = g.pair2()
        cases.append((line_of_pair("2P", A, B, EA, EB), {"kind": "2P", "tag": "g2p%d" % k}))
        A, B, EA, EB = g.pair1()
        cases.append((line_of_pair("1P", A, B, EA, EB), {"kind": "1P", "tag": "g1p%d" % k}))
    if not quick:
        cases += exhaustive_small(stats)
    for k in range(n_derived):
        name, A, B = g.derived()
        cases.append(("1S %s %s %s" % (name, tup([tok1(f) for f in A]), tup([tok1(f) for f in B])),
                      {"kind": "1S", "tag": "g1s%d" % k, "A": A, "B": B}))
    # the malformed stream: mutated valid encodings, valid encodings under a wrong shape, random bytes.
    # Valid encodings are needed first: take them from a pre-pass of the model over fresh tuples.
    pre = []
    for k in range(n_dec):
        if k % 2 == 0:
            A, _, _, _ = g.pair2()
            pre.append(("2", A, line_of_pair("2P", A, A, [], [])))
        else:
            A, _, _, _ = g.pair1()
            pre.append(("1", A, line_of_pair("1P", A, A, [], [])))
    rc0, pre_out = run_lines(mx, [p[2] for p in pre], chk.work, "pre")
    if len(pre_out) != len(pre):
        raise RuntimeError("model pre-pass line count mismatch")
    mal_stats = {"valid_wrong_shape": 0, "mutated": 0, "random": 0, "valid": 0}
    for (fmt, A, _), o in zip(pre, pre_out):
        enc = o.split()[0]
        b = b"" if enc in ("-", "PANIC") else bytes.fromhex(enc)
        mode = rng.below(10)
        if fmt == "2":
            tys = [ty2(e) for e in A]
            if mode < 5:
                b2 = g.mutate(b)
                mal_stats["mutated"] += 1
            elif mode < 7:
                b2 = b
                tys = [g.ty2() for _ in range(rng.range(0, 4))] if rng.chance(1, 2) else tys[:rng.below(len(tys) + 1)] + [g.ty2()]
                mal_stats["valid_wrong_shape"] += 1
            elif mode < 9:
                b2 = g.random_bytes()
                mal_stats["random"] += 1
            else:
                b2 = b
                mal_stats["valid"] += 1
            cases.append(("2D %s %s" % (tup(tys), hx(b2) if b2 else "-"), {"kind": "2D", "tag": "g2d", "bytes": b2}))
        else:
            sh = [shape1(f) for f in A]
            via = "1" if rng.chance(1, 2) else "0"
            if mode < 5:
                b2 = g.mutate(b)
                mal_stats["mutated"] += 1
            elif mode < 7:
                b2 = b
                i = rng.below(len(sh))
                f, d, t = sh[i].split("/")
                sh[i] = "%s/%s/%s" % (f if rng.chance(2, 3) else "%x" % g.fnum(), d if rng.chance(1, 2) else ("R" if d == "F" else "F"), g.kty1())
                mal_stats["valid_wrong_shape"] += 1
            elif mode < 9:
                b2 = g.random_bytes()
                mal_stats["random"] += 1
            else:
                b2 = b
                mal_stats["valid"] += 1
            cases.append(("1D %s %s %s" % (via, tup(sh), hx(b2) if b2 else "-"), {"kind": "1D", "tag": "g1d", "bytes": b2}))
            if mode >= 9:
                # a valid key: the iterator must cut it into 2 pieces per field and peek_next must report the first field
                cases.append(("1I %s" % (hx(b2) if b2 else "-"), {"kind": "1I", "tag": "g1iv", "npieces": 2 * len(A), "peek": shape1(A[0]) if A else "none"}))
            elif rng.chance(1, 3):
                cases.append(("1I %s" % (hx(b2) if b2 else "-"), {"kind": "1I", "tag": "g1i"}))

    lines = [c[0] for c in cases]
    # the model has no 1S entry point: a derived struct is the 1P case with empty extensions
    mlines = []
    for ln, meta in cases:
        if meta["kind"] == "1S":
            t = ln.split()
            mlines.append("1P %s %s - -" % (t[2], t[3]))
        else:
            mlines.append(ln)
    rc1, impl_out = run_lines(hxbin, lines, chk.work, "impl")
    rc2, model_out = run_lines(mx, mlines, chk.work, "model")
    if len(impl_out) != len(cases) or len(model_out) != len(cases):
        raise RuntimeError("output line count mismatch impl=%d model=%d cases=%d" % (len(impl_out), len(model_out), len(cases)))

    corr_bad, prop_bad, known_hits, spec_bad, canon_bad = [], [], 0, [], []
    distinct = set()
    dec_stats = {}
    reenc = []          # (bytes, tuple string) accepted by the compact decoder: must re-encode to the same bytes
    ncmp = {"lt": 0, "eq": 0, "gt": 0}
    known_class_cases = 0
    for (ln, meta), io, mo in zip(cases, impl_out, model_out):
        kind = meta["kind"]
        rec = {"tag": meta["tag"], "case": ln, "impl_out": io, "model_out": mo}
        if kind in ("2P", "1P"):
            t = ln.split()
            if kind == "2P":
                A, B, EA, EB = (parse_tuple2(x) for x in t[1:5])
            else:
                A, B, EA, EB = (parse_fields1(x) for x in t[1:5])
            iof, mof = io.split(), mo.split()
            nf = 10 if kind == "2P" else 11
            if io == "PANIC" or len(iof) != nf:
                rec["what"] = "encoder/decoder panicked or malformed output"
                prop_bad.append(rec)
                continue
            c, ae_b, ae_be, a_ae, decA, decAE, known = expect_pair(kind, A, B, EA, EB)
            # the Coq-side specification functions (extracted) must agree with this oracle
            mspec = [x for x in mof if x.startswith("spec:")]
            mknown = [x for x in mof if x.startswith("known:")]
            if (mspec and mspec[0] != "spec:" + c) or (mknown and mknown[0] != "known:%d" % int(known)):
                if not meta.get("corpus") or len(A) == len(B):
                    spec_bad.append(rec)
            ncmp[c] += 1
            if A != B and len(A) >= 1:
                distinct.add(ln)
            bad = []
            got_c = iof[4]
            # byte order computed here from the hex, independently of the crates' Ord
            hb = [b"" if x == "-" else bytes.fromhex(x) for x in iof[0:4]]
            if cmp3(hb[0], hb[1]) != iof[4] or cmp3(hb[2], hb[1]) != iof[5] or cmp3(hb[2], hb[3]) != iof[6] or cmp3(hb[0], hb[2]) != iof[7]:
                bad.append("Ord of TupleKey differs from byte-wise order of its bytes")
            order_ok = (got_c == c)
            if known:
                known_class_cases += 1
            if not order_ok:
                bad.append("order: encodings compare %s, tuples compare %s" % (got_c, c))
            if iof[5] != ae_b and not (known and not order_ok):
                bad.append("extension: enc(A++E) vs enc(B) is %s, expected %s" % (iof[5], ae_b))
            if ae_be is not None and iof[6] != ae_be and not (known and not order_ok):
                bad.append("extension: enc(A++E) vs enc(B++E') is %s, expected %s" % (iof[6], ae_be))
            if iof[7] != a_ae:
                bad.append("extension: enc(A) vs enc(A++E) is %s, expected %s" % (iof[7], a_ae))
            if iof[8] != decA or iof[9] != decAE or (kind == "1P" and iof[10] != decA):
                bad.append("decode(encode(t)) != t")
            if bad and known and all(x.startswith("order") for x in bad):
                known_hits += 1
                chk.known("F12", "tuple_key Reverse String elements in prefix relation with a small next byte sort ascending (e.g. %s)" % ln[:120])
            elif bad:
                rec["what"] = "; ".join(bad)
                rec["expected"] = {"cmpAB": c, "cmpAE_B": ae_b, "cmpAE_BE": ae_be, "cmpA_AE": a_ae, "decA": decA, "decAE": decAE}
                prop_bad.append(rec)
            elif known and order_ok:
                rec["what"] = "inside the known class F12 but ordered correctly: the class predicate is wrong"
                spec_bad.append(rec)
            if iof != mof[:nf]:
                corr_bad.append(rec)
        elif kind == "1S":
            t = ln.split()
            A, B = parse_fields1(t[2]), parse_fields1(t[3])
            iof, mof = io.split(), mo.split()
            if io == "PANIC" or len(iof) != 4:
                rec["what"] = "derived Into/TryFrom panicked"
                prop_bad.append(rec)
                continue
            c, known = spec_cmp1(A, B)
            decA = "ok:" + tup([tok1e(f[2]) for f in A])
            bad = []
            if iof[2] != c:
                bad.append("order: derived keys compare %s, structs compare %s" % (iof[2], c))
            if iof[3] != decA:
                bad.append("TryFrom(Into(x)) != x: " + iof[3])
            if bad and known and len(bad) == 1 and bad[0].startswith("order"):
                known_hits += 1
                chk.known("F12", "tuple_key Reverse String elements in prefix relation with a small next byte sort ascending (e.g. %s)" % ln[:120])
            elif bad:
                rec["what"] = "; ".join(bad)
                prop_bad.append(rec)
            if [iof[0], iof[1], iof[2], iof[3]] != [mof[0], mof[1], mof[4], mof[8]]:
                corr_bad.append(rec)
            distinct.add(ln)
        else:
            cls = io.split(":")[0] if kind != "1I" else "iter"
            key = kind + ":" + (io if io.startswith("err:") or io == "PANIC" else cls)
            dec_stats[key] = dec_stats.get(key, 0) + 1
            if "PANIC" in io:
                rec["what"] = "decoder panicked on these bytes"
                prop_bad.append(rec)
            elif kind == "1I" and "peek" in meta and (io.split()[1] != meta["peek"] or len([x for x in io.split()[0].split(",") if x != "-"]) != meta["npieces"]):
                rec["what"] = "iterator / peek_next on a valid key: expected %d pieces and tag %s" % (meta["npieces"], meta["peek"])
                prop_bad.append(rec)
            elif io != mo:
                corr_bad.append(rec)
            if "utf8_ok" in meta and io.startswith("ok:") != meta["utf8_ok"]:
                rec["what"] = "String::from_utf8 and Python's UTF-8 decoder disagree on this byte sequence"
                spec_bad.append(rec)
            if kind == "2D" and io.startswith("ok:"):
                hb = ln.split()[2]
                reenc.append((b"" if hb == "-" else bytes.fromhex(hb), io[3:], ln))
            if kind in ("2D", "1D") and not io.startswith("ok:"):
                distinct.add(ln)

    # second round: whatever the compact parser accepted must re-encode to exactly the bytes parsed
    # (the parser accepts only canonical encodings: theorem C16_v2_decode_canonical)
    if reenc:
        l2 = ["2P %s %s - -" % (t, t) for _, t, _ in reenc]
        rc3, o2 = run_lines(hxbin, l2, chk.work, "reenc")
        if len(o2) != len(l2):
            raise RuntimeError("re-encode round line count mismatch")
        for (b, t, ln), o in zip(reenc, o2):
            got = o.split()[0] if o else ""
            if got != (hx(b) if b else "-"):
                # not demanded by the property text (which asks for an error or a value, not for
                # canonicity), but proved of the model: report as a broken obligation, not as a failing input
                canon_bad.append({"tag": "reencode", "case": ln, "impl_out": "decoded " + t + " re-encodes to " + got,
                                  "what": "compact parser accepted bytes that are not the encoding of what it returned"})

    input_distribution = dict(stats)
    input_distribution.update({"pairs_by_spec_order": ncmp, "malformed_stream": mal_stats, "decoder_outcomes": dec_stats,
                               "pairs_in_known_class_F12": known_class_cases, "reencoded_accepts": len(reenc)})
    chk.coverage.update({
        "evaluations": len(cases) + len(reenc), "distinct_nontrivial": len(distinct),
        "rule": "pairs of same-shape tuples (1-4 elements + 0-2 extension elements each) over all element types and both directions, second tuple = first with one element replaced by a neighbour (integer +-1/+-2^k across every byte-length, 7-bit-chunk and sign boundary; strings extended by \\0,\\x01..\\x7f,U+80,U+10FFFF, cut to a proper prefix, or with one char changed; lengths biased to 0 and 6..8, 13..15 bytes) or fully random; derived-struct cases for three TypedTupleKey structs; decoder cases = model-encoded tuples mutated (truncate/flip/insert/delete/append), decoded under a wrong shape, or random bytes (uniform / tag-like / continuation-bit-like); all from one SplitMix64 seed. non-trivial = a pair with A != B, or a decoder case that is rejected; distinct = distinct case lines",
        "samples": [cases[ncorpus][0][:300], cases[ncorpus + 1][0][:300], cases[-1][0][:300]],
        "input_distribution": input_distribution, "corpus_cases": ncorpus,
        "correspondence": "impl (Rust crates tuple_key, tuple_key2, tuple_key_derive; release + overflow-checks + debug-assertions) vs extracted Coq models vs the property evaluated in Python on the source tuples, 3-way; the extracted Coq specification functions (tuple_cmp, known_F12) are cross-checked against the Python oracle on every pair",
        "disagreements_impl_vs_model": len(corr_bad), "disagreements_impl_vs_spec": len(prop_bad),
        "disagreements_coqspec_vs_oracle": len(spec_bad), "accepted_non_canonical": len(canon_bad),
        "trusted_base": [
            "Coq 8.16.1 kernel (coqc, full .vo build); vm_compute for facts about single bytes (256-value sweeps) and the refutation witness",
            "tools/constants.py (tag ranges of tuple_key2, DIVIDE_32/64, field-number limits re-extracted from the source)",
            "extraction via ExtrOcamlBasic (no Extract Constant of ours) + ocaml/tuplekey/mx_tuplekey.ml driver",
            "harness/src/bin/c16.rs; the Python oracle in checks/c16.py (element-wise comparison, F12 predicate)",
            "ModelV1/ModelV2 are hand transcriptions of the Rust; literals that are not `const` in the Rust (v1 discriminants, shifts, masks) are retyped",
            "String::from_utf8 = Gallina utf8_valid (Unicode table 3-7), compared with std only on generated inputs",
        ],
    })
    chk.assumptions = ["field numbers satisfy FieldNumber::new (1..2^29-1 outside 19000..19999)",
                       "String values are valid UTF-8 (a Rust invariant); order theorems hold for arbitrary bytes",
                       "integers are within the range of their Rust type"]

    if prop_bad:
        b = prop_bad[0]
        chk.violation("c16_%s.json" % b["tag"].replace(":", "_"),
                      {"kind": "property", "what": b.get("what", ""), "case": b, "n_failing": len(prop_bad),
                       "replay_cmd": "echo '<case>' | work/target/release/c16"})
    elif corr_bad or spec_bad or canon_bad or not ok_proof:
        chk.violation("c16_unproved.json", {"kind": "no-failing-input-found", "broken": info["broken"],
                                            "correspondence_disagreements": corr_bad[:5],
                                            "coqspec_vs_oracle": spec_bad[:5],
                                            "accepted_non_canonical": canon_bad[:5]}, no_input=True)


def exhaustive_small(stats):
    """thorough tier: all pairs over small value sets for each single-element shape"""
    cases = []
    svals = [b"", b"\0", b"\x01", b"\x02", b"a", b"a\0", b"a\x01", b"a\x03", b"a\x04", b"ab", b"abcdef", b"abcdefg", b"abcdefg\0",
             b"abcdefgh", b"abcdef\x7f", b"abcdef\xc2\x80", b"\x7f", b"\xc2\x80", b"\xf4\x8f\xbf\xbf", b"\0\0", b"\0\x01"]
    bvals = [b"", b"\0", b"\0\0", b"\0\x01", b"\0\xff", b"\x01", b"\xff", b"\xff\0", b"\xfe", b"a", b"a\0", b"a\xff", b"\0\xff\0"]
    u = sorted(set([0, 1, 2, 254, 255, 256, 257, 65535, 65536, (1 << 24) - 1, 1 << 24, (1 << 32) - 1, 1 << 32, (1 << 40) - 1, 1 << 40,
                    (1 << 48) - 1, 1 << 48, (1 << 56) - 1, 1 << 56, (1 << 63) - 1, 1 << 63, (1 << 64) - 1]))
    s = sorted(set([x for v in u if v < (1 << 63) for x in (v, -v, -v - 1)] + [-(1 << 63)]))
    for a in bvals:
        for b in bvals:
            cases.append((line_of_pair("2P", [("b", a)], [("b", b)], [("u", 8, 0)], []), {"kind": "2P", "tag": "ex2b"}))
    for a in svals:
        for b in svals:
            cases.append((line_of_pair("2P", [("s", a)], [("s", b)], [("n",)], []), {"kind": "2P", "tag": "ex2s"}))
            for d in "FR":
                cases.append((line_of_pair("1P", [(1, d, ("s", a))], [(1, d, ("s", b))], [(2, "F", ("n",))], []), {"kind": "1P", "tag": "ex1s"}))
    for a in u:
        for b in u:
            cases.append((line_of_pair("2P", [("u", 64, a)], [("u", 64, b)], [("b", b"")], []), {"kind": "2P", "tag": "ex2u"}))
            for d in "FR":
                cases.append((line_of_pair("1P", [(5, d, ("u64", a))], [(5, d, ("u64", b))], [], []), {"kind": "1P", "tag": "ex1u"}))
    for a in s:
        for b in s:
            cases.append((line_of_pair("2P", [("i", 64, a)], [("i", 64, b)], [], []), {"kind": "2P", "tag": "ex2i"}))
            for d in "FR":
                cases.append((line_of_pair("1P", [(5, d, ("i64", a))], [(5, d, ("i64", b))], [], []), {"kind": "1P", "tag": "ex1i"}))
    # all pairs of strings of length <= 2 (and a sample of length 3) over a boundary alphabet
    import itertools
    alpha1 = ["\0", "\x01", "\x03", "a", "\x7f", "\u0080"]
    strs = [""] + ["".join(t) for n in (1, 2) for t in itertools.product(alpha1, repeat=n)]
    strs += ["".join(t) for t in itertools.product(["\0", "\x01", "a"], repeat=3)]
    strs = [x.encode() for x in strs]
    for a in strs:
        for b in strs:
            for d in "FR":
                cases.append((line_of_pair("1P", [(3, d, ("s", a))], [(3, d, ("s", b))], [], []), {"kind": "1P", "tag": "ex1s2"}))
    alpha2 = [0, 1, 0xfe, 0xff]
    bs = [b""] + [bytes(t) for n in (1, 2, 3) for t in itertools.product(alpha2, repeat=n)]
    for a in bs:
        for b in bs:
            cases.append((line_of_pair("2P", [("b", a)], [("b", b)], [], []), {"kind": "2P", "tag": "ex2b3"}))
    # UTF-8 acceptance: the model's utf8_valid against String::from_utf8 (and Python's decoder as the
    # third opinion, checked in run()): every 1- and 2-byte sequence without 0x00, and 3-/4-byte
    # sequences around every boundary of the well-formedness table
    seqs = [bytes([a]) for a in range(1, 256)] + [bytes([a, b]) for a in range(1, 256) for b in range(1, 256)]
    edge = [0x7f, 0x80, 0x8f, 0x90, 0x9f, 0xa0, 0xbf, 0xc0]
    for a in [0xdf, 0xe0, 0xe1, 0xec, 0xed, 0xee, 0xef, 0xf0]:
        for b in edge:
            for c in edge:
                seqs.append(bytes([a, b, c]))
    for a in [0xef, 0xf0, 0xf1, 0xf3, 0xf4, 0xf5, 0xf8, 0xff]:
        for b in edge:
            for c in [0x7f, 0x80, 0xbf, 0xc0]:
                for d in [0x7f, 0x80, 0xbf, 0xc0]:
                    seqs.append(bytes([a, b, c, d]))
    for q in seqs:
        try:
            q.decode("utf-8")
            ok = True
        except UnicodeDecodeError:
            ok = False
        cases.append(("2D s %s0000" % hx(q), {"kind": "2D", "tag": "utf8", "utf8_ok": ok}))
    stats["exhaustive_small_cases"] = len(cases)
    return cases


def replay(path):
    with open(path) as fh:
        obj = json.load(fh)
    print(json.dumps(obj, indent=1))
    case = obj.get("case")
    if case and "case" in case:
        okh, outh, (hxbin,) = vlib.cargo_build(["c16"])
        rc, out = vlib.sh("echo '%s' | %s" % (case["case"], hxbin))
        print("impl now :", out.strip())
        print("impl then:", case["impl_out"])
        print("expected :", json.dumps(case.get("expected")))
        ln = case["case"]
        t = ln.split()
        if t[0] in ("2P", "1P") and out.strip() != "PANIC":
            if t[0] == "2P":
                A, B, EA, EB = (parse_tuple2(x) for x in t[1:5])
            else:
                A, B, EA, EB = (parse_fields1(x) for x in t[1:5])
            c, ae_b, ae_be, a_ae, decA, decAE, known = expect_pair(t[0], A, B, EA, EB)
            o = out.split()
            good = o[4] == c and o[5] == ae_b and (ae_be is None or o[6] == ae_be) and o[7] == a_ae and o[8] == decA and o[9] == decAE
            return 0 if good else 1
        return 0 if "PANIC" not in out and out.strip() != case["impl_out"] else 1
    return 1
