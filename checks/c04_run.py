"""One history of the real store, replayed in lock step on the extracted Books model, for C04.

After every manifest transaction (flush, compaction, GC, reopen) the real directory is inspected
(real mani::ManifestIterator over every fragment, every sst read back and its setsum recomputed by
the real sst::Setsum, ManifestVerifier::verify per fragment) and compared with
  * the model (recorded I/O/D/L, listed names, every edit of every fragment, the tree), and
  * the property itself, computed independently in Python (hashlib SHA3-256 + integer arithmetic
    modulo the primes): O = sum of listed names, every name = setsum of the file's entries,
    I = O + D, D = sum(removed) - sum(added), I_n = O_{n-1}, roll-ups equal the state they summarise.
`verify` runs the real LsmVerifier on the live directory and compares verdict and accumulated
setsum with the model's verify_frags."""
import os
import shutil

import c04_lib as L

MODEL_CODE_TO_IMPL = {
    "missing": "corruption:manifest_edit_missing",
    "bad-info": "corruption:manifest_field_has_bad_digest",
    "no-continue": "corruption:manifest_does_not_continue_with_accumulated_setsum",
    "no-balance": "corruption:manifest_does_not_balance_inputs_==_outputs_+_discard",
    "bad-added": "corruption:manifest_added_has_bad_digest",
    "bad-rmed": "corruption:manifest_rmed_has_bad_digest",
    "bad-l": "corruption:manifest_has_bad_L_field",
    "bad-discard": "corruption:manifest_has_bad_discard",
    "bad-output": "corruption:manifest_has_bad_output_setsum",
    "gc-discard": "corruption:garbage_collection_has_bad_discard",
    "data-loss": "corruption:data_loss",
    "data-construction": "corruption:data_construction",
    "gc-logic": "logic-error:gc_key_less_than_input",
    "not-found": "not-found",
    "bad-sst": "corruption:sst_does_not_hold_the_entries_its_name_stands_for",
}


def canon_impl_class(s):
    """the harness prints code:context; contexts that embed a field name or a digest are cut"""
    s = s.replace("'I'_", "").replace("'O'_", "").replace("'D'_", "").replace("_'I'", "").replace("_'O'", "").replace("_'D'", "")
    if s.startswith("corruption:manifest_has_bad_output_setsum"):
        return "corruption:manifest_has_bad_output_setsum"
    if s.startswith("corruption:manifest_has_bad_discard"):
        return "corruption:manifest_has_bad_discard"
    if s.startswith("corruption:manifest_has_bad_L_field"):
        return "corruption:manifest_has_bad_L_field"
    # only a file that cannot be opened is the model's not-found; other system errors stay what they are
    if "file_open_failed" in s or "NotFound" in s or "No_such_file" in s or "not_found" in s:
        return "not-found"
    return s


def retained_versions(n, merged):
    """independent reading of `versions = n` (sst/src/gc.rs) over a merged input (key ascending,
    timestamp descending): a value is kept while the key's cumulative weight (2 when the value sits
    directly under a tombstone, else 1) stays <= n; a kept value keeps the tombstone directly above
    it.  Returns the kept entries in order."""
    keep = [False] * len(merged)
    i = 0
    while i < len(merged):
        j = i
        while j < len(merged) and merged[j][0] == merged[i][0]:
            j += 1
        w = 0
        for x in range(i, j):
            if merged[x][2] is None:
                continue
            under = x > i and merged[x - 1][2] is None
            w += 2 if under else 1
            if w <= n:
                keep[x] = True
                if under:
                    keep[x - 1] = True
        i = j
    return [e for e, k in zip(merged, keep) if k]


def kr_key(e):
    return (e[0], -e[1])


class Run:
    def __init__(self, c04_exe, mx_exe, opts, tag, versions, num_levels=16):
        self.exe, self.opts, self.versions, self.num_levels = c04_exe, opts, versions, num_levels
        self.root = L.fresh_root(tag)
        self.tool = L.Tool(c04_exe)
        self.model = L.Model(mx_exe)
        self.model.cmd("new")
        self.model.cmd("policy %d" % versions)
        self.sent = set()
        self.problems = []          # dicts: kind in {property, corr, error, outside}
        self.events = []
        self.stats = {"flush": 0, "compact": 0, "gc": 0, "move": 0, "reopen": 0, "verify": 0, "rollover": 0, "self_replacing": 0,
                      "txns_checked": 0, "files_recomputed": 0, "gc_dropped": 0, "verify_frags": 0, "none": 0}
        self.frags = {}             # id -> list of Edit (every fragment ever seen)
        self.checked = {}           # id -> (number of edits the oracle has checked, accumulated O)
        self.verified_files = set() # names whose contents were read back and recomputed
        self.last_verified = 0      # number of the last fragment the real verifier has processed
        self.pending_logs = []      # fabricated logs the next open will recover
        self.n_fab = 0
        self.cur_id = 1
        self.files = {}             # name -> entries (every file ever seen)
        self.tree = []              # names
        self.mem = False
        self.dead = False
        self.outside = None
        self.sess = None
        self.open_session(first=True)

    # ------------------------------------------------------------ helpers
    def problem(self, kind, **kw):
        d = {"kind": kind, "at_event": len(self.events)}
        d.update(kw)
        self.problems.append(d)

    def send_hashes(self, ents):
        for e in ents:
            it = L.item_of(e)
            if it not in self.sent:
                self.sent.add(it)
                self.model.cmd("h %s %s" % (it.hex(), L.item_hash(e).hex()))

    def ents_str(self, ents):
        return ",".join(L.ent_tok(e) for e in ents) if ents else "-"

    def inspect(self, brief=False):
        return L.Inspection(self.tool.cmd("inspect " + self.root + (" brief" if brief else ""), multi=True))

    def dump_tree(self):
        out = self.sess.cmd("dump")
        if out[-1] in ("HANG", "EOF"):
            self.problem("error", what="store stopped answering during dump: " + out[-1])
            self.dead = True
            return self.tree
        names = []
        for ln in out:
            t = ln.split(" ")
            if t[0] == "FILE":
                if t[2] == "ERR":
                    self.problem("property", what="an sst of the tree cannot be read back", file=t[1])
                    continue
                self.files[t[1]] = [L.parse_ent(x) for x in t[4:]]
            elif t[0] == "DUMP":
                names = [x.split(":")[1] for x in t[1:]]
                self.levels = {x.split(":")[1]: int(x.split(":")[0]) for x in t[1:]}
        return names

    # ------------------------------------------------------------ the comparison after every transaction
    def sync(self, where, full=False):
        """inspect the real directory.  Incremental: manifest fragments are append-only and an sst is
        immutable, so only the newest three fragments are re-read and only ssts not seen before
        are read back (full=True re-reads everything: done at the end of a history)."""
        ins = self.inspect(brief=not full)
        self.last_ins = ins
        # a rollover interrupted between hard_link and rename leaves the newest backup as a second
        # name of MANIFEST (same inode); the next open removes it (mani, /repo d7acf10): one fragment
        alias = [f for f in ins.frags["mani"] if f[0] != "cur" and ins.inos.get(("mani", f[0])) == ins.inos.get(("mani", "cur"), "-")]
        for f in alias:
            ins.frags["mani"].remove(f)
            ins.mv.pop(f[0], None)
            self.stats["interrupted_rollover_seen"] = self.stats.get("interrupted_rollover_seen", 0) + 1
        numbered = [int(f[0]) for f in ins.frags["mani"] if f[0] != "cur"] + [int(x) for x in ins.older["mani"]]
        # the verifier never removes the newest numbered fragment, so this is the live one's number
        cur_id = (max(numbered) + 1) if numbered else 1
        rolled = cur_id - self.cur_id
        self.cur_id = cur_id
        for fid, edits, err in ins.frags["mani"]:
            if err:
                self.problem("property", what="a manifest fragment the store wrote does not parse", fragment=fid, err=err, where=where)
            i = cur_id if fid == "cur" else int(fid)
            old = self.frags.get(i)
            if old is not None and [e.key() for e in old] != [e.key() for e in edits[:len(old)]]:
                self.problem("property", what="edits already written to a manifest fragment changed", fragment=i, where=where)
            self.frags[i] = edits
        for d in ("sst", "trash"):
            for name in ins.names[d]:
                if name in ins.files[d]:
                    rec = ins.files[d][name]
                elif name in self.verified_files:
                    continue
                else:
                    rec = L.parse_sst1(self.tool.cmd("sst %s" % os.path.join(self.root, d, name + ".sst"))[0])
                    ins.files[d][name] = rec
                meta, recomputed, ents = rec
                if meta == "ERR":
                    if full or d == "sst":
                        self.problem("property", what="an sst in %s/ cannot be read back" % d, file=name, where=where)
                    continue
                self.files.setdefault(name, ents)
                self.stats["files_recomputed"] += 1
                mine = L.ss_hex(L.ss_of_entries(ents))
                if not (name == meta == recomputed == mine):
                    self.problem("property", what="file name / final-block setsum / setsum recomputed from the stored entries differ",
                                 dir=d, file=name, final_block=meta, recomputed_by_sst_crate=recomputed, recomputed_by_python=mine, where=where)
                self.verified_files.add(name)
        self.oracle(ins, where)
        return ins, rolled

    def oracle(self, ins, where):
        """the property itself, independently (Python integers + hashlib)"""
        st = ins.state["mani"]
        strs = st["strs"]
        total = L.ss_zero()
        on_disk = set(ins.names["sst"])
        for n in strs:
            total = L.ss_add(total, L.ss_from_hex(n))
            if n not in on_disk:
                self.problem("property", what="the manifest lists an sst that is not in sst/", file=n, where=where)
        if st.get("O", "-") != L.ss_hex(total):
            self.problem("property", what="recorded O differs from the sum of the listed ssts", O=st.get("O"), sum=L.ss_hex(total), where=where)
        # fragments: chain and balance of the edits not checked before
        for fid in sorted(self.frags):
            edits = self.frags[fid]
            if not edits:
                continue
            done, acc = self.checked.get(fid, (0, None))
            if done == 0:
                prev = self.frags.get(fid - 1)
                if prev:
                    # the roll-up equals the state its predecessor ends in
                    s, info = set(), {}
                    for e in prev:
                        for x in e.rms:
                            s.discard(x)
                        for x in e.adds:
                            s.add(x)
                        info.update(e.info)
                    first = edits[0]
                    if set(first.adds) != s or first.rms or any(first.info.get(k) != info.get(k) for k in "IOD"):
                        self.problem("property", what="a fragment does not start with the roll-up of its predecessor", fragment=fid, where=where)
                acc = edits[0].info.get("O")
                done = 1
            for i in range(done, len(edits)):
                e = edits[i]
                self.stats["txns_checked"] += 1
                I, O, D = (e.info.get(k) for k in "IOD")
                if None in (I, O, D):
                    self.problem("property", what="a transaction lacks I/O/D", fragment=fid, edit=i, where=where)
                    break
                ok_chain = I == acc
                ok_bal = L.ss_from_hex(I) == L.ss_add(L.ss_from_hex(O), L.ss_from_hex(D))
                cd = L.ss_zero()
                for x in e.adds:
                    cd = L.ss_sub(cd, L.ss_from_hex(x))
                for x in e.rms:
                    cd = L.ss_add(cd, L.ss_from_hex(x))
                ok_disc = L.ss_from_hex(D) == cd
                if not (ok_chain and ok_bal and ok_disc):
                    self.problem("property", what="a manifest transaction does not balance / chain",
                                 fragment=fid, edit=i, chain=ok_chain, balance=ok_bal, discard=ok_disc, where=where)
                acc = O
            self.checked[fid] = (len(edits), acc)
        for fid, verdict in ins.mv.items():
            if not verdict.startswith("ok"):
                self.problem("property", what="ManifestVerifier::verify rejects a fragment the store wrote", fragment=fid, verdict=verdict, where=where)

    def compare_model(self, ins, where):
        st = ins.state["mani"]
        m = dict(x.split("=", 1) for x in self.model.cmd("state").split(" ")[1:])
        mine = {"O": st.get("O"), "I": st.get("I"), "D": st.get("D"), "L": st.get("L", "-"), "strs": ",".join(sorted(st["strs"])),
                "tree": ",".join(sorted(self.tree))}
        for k, v in mine.items():
            if m.get(k) != v:
                self.problem("corr", what="model and implementation differ in %s after %s" % (k, where), impl=str(v)[:200], model=str(m.get(k))[:200])
                return
        if m["sum"] != st.get("O"):
            self.problem("corr", what="model tree setsum differs from recorded O after " + where)
        k0 = max(0, self.cur_id - 3)
        t = self.model.cmd("frags %d" % k0).split(" ", 2)
        total = int(t[1])
        mf = t[2].split(";") if len(t) > 2 else []
        for fid in sorted(self.frags):
            if fid - 1 < k0:
                continue
            if fid - 1 - k0 >= len(mf):
                self.problem("corr", what="implementation has more fragments than the model after " + where, fragment=fid)
                return
            want = []
            for e in self.frags[fid]:
                want.append("%s %s %s %s +%s -%s" % (e.info.get("I"), e.info.get("O"), e.info.get("D"), e.info.get("L", "-"),
                                                     ",".join(sorted(e.adds)), ",".join(sorted(e.rms))))
            if "|".join(want) != mf[fid - 1 - k0]:
                self.problem("corr", what="fragment %d differs between model and implementation after %s" % (fid, where),
                             impl="|".join(want)[-400:], model=mf[fid - 1 - k0][-400:])
                return
        if total != self.cur_id:
            self.problem("corr", what="model has %d fragments, implementation %d after %s" % (total, self.cur_id, where))

    def model_step(self, line, where, expect="ok"):
        r = self.model.cmd(line)
        t = r.split(" ")
        if "miss=0" not in t:
            self.problem("corr", what="model driver lacked a hash or a collector answer", answer=r)
        if t[0] != expect:
            self.problem("corr", what="model answered %r to %s (expected %s)" % (r, where, expect), line=line[:300])
            return False
        if "acc=1" not in t:
            self.outside = "output name not fresh (collision or duplicated entry set) at " + where
            self.problem("outside", what=self.outside)
        return True

    # ------------------------------------------------------------ sessions
    def open_session(self, first=False):
        self.sess = L.Session(self.exe, self.root, self.opts)
        self.events.append(("open", self.sess.open_line))
        if self.sess.open_line != "OPEN ok":
            self.problem("property" if "corruption" in self.sess.open_line or "PANIC" in self.sess.open_line else "error",
                         what="open failed", line=self.sess.open_line)
            self.dead = True
            return
        self.dead = False
        tree = self.dump_tree()
        if first:
            self.tree = tree
            ins, rolled = self.sync("first open")
            self.compare_model(ins, "first open")
            return
        new = [n for n in tree if n not in self.tree]
        gone = [n for n in self.tree if n not in tree]
        fab = self.pending_logs
        self.pending_logs = []
        if gone or len(new) != (1 if self.mem else 0) + len(fab):
            self.problem("corr", what="reopen: tree files changed unexpectedly", new=new, gone=gone, mem=self.mem, fabricated_logs=len(fab))
        old_cur = self.cur_id
        self.tree = tree
        ins, rolled = self.sync("reopen")
        self.stats["rollover"] += rolled
        if not fab:
            log = self.files[new[0]] if new else []
            log = sorted(log, key=lambda e: e[1])
            roll = 1 if rolled >= 2 else 0
            if rolled < 1 or rolled > 2:
                self.problem("corr", what="reopen: %d rollovers" % rolled)
            self.send_hashes(log)
            if self.model_step("reopen %d %s" % (roll, self.ents_str(log)), "reopen"):
                self.compare_model(ins, "reopen")
        else:
            # several logs: the memtable's own (lowest number) first, then the fabricated ones
            logs = []
            fabsets = [sorted(f, key=kr_key) for f in fab]
            mine = [n for n in new if sorted(self.files.get(n, []), key=kr_key) not in fabsets]
            if self.mem and len(mine) == 1:
                logs.append(sorted(self.files[mine[0]], key=lambda e: e[1]))
            elif self.mem or mine:
                self.problem("corr", what="reopen: cannot tell the memtable's log file from the fabricated ones", new=new)
            logs += [list(f) for f in fab]
            # which of the recovery edits was followed by a rollover: read it off the fragments
            rolls, fid, placed = [], old_cur + 1, 0
            for _ in logs:
                placed += 1
                if fid < self.cur_id and len(self.frags.get(fid, [])) - 1 == placed:
                    rolls.append(1)
                    fid, placed = fid + 1, 0
                else:
                    rolls.append(0)
            for lg in logs:
                self.send_hashes(lg)
            line = "reopenlogs " + " | ".join("%d %s" % (r, self.ents_str(lg)) for r, lg in zip(rolls, logs))
            if self.model_step(line, "reopen with %d logs" % len(logs)):
                self.compare_model(ins, "reopen with %d logs" % len(logs))
            self.stats["reopen_two_logs"] = self.stats.get("reopen_two_logs", 0) + (1 if len(logs) >= 2 else 0)
        self.mem = False
        self.stats["reopen"] += 1

    def reopen(self):
        self.sess.close()
        self.open_session()

    def reopen_after_flush_crash(self, ents):
        """the restart after a process died while it flushed the immutable memtable and the NEW
        memtable's log had already taken writes: two logs are found.  The second log is written
        with sst::LogBuilder (the format the store writes) under a higher number; its entries
        carry timestamps above everything the store holds."""
        if self.dead:
            return
        self.sess.close()
        self.n_fab += 1
        base = 1000000 * self.n_fab
        log = [(k, base + i, v) for i, (k, v) in enumerate(ents)]
        out = self.tool.cmd("mklog %s %s" % (os.path.join(self.root, "log.%d" % base), " ".join(L.ent_tok(e) for e in log)))[0]
        if out != "MKLOG ok":
            self.problem("error", what="could not write the second log", out=out)
            self.dead = True
            return
        self.pending_logs = [log]
        self.open_session()

    # ------------------------------------------------------------ ops
    def write(self, batch):
        if self.dead:
            return
        if len(batch) == 1:
            k, v = batch[0]
            line = ("put %s %s" % (L.hx(k), L.hx(v))) if v is not None else ("del %s" % L.hx(k))
        else:
            line = "batch " + ",".join("%s=%s" % (L.hx(k), "~" if v is None else L.hx(v)) for k, v in batch)
        out = self.sess.cmd(line)[0]
        self.events.append((line, out))
        if not out.endswith(" ok"):
            self.problem("error", what="write returned an error or panicked", op=line, out=out)
            return
        self.mem = True

    def flush(self):
        if self.dead or not self.mem:
            return
        out = self.sess.cmd("flush")[0]
        self.events.append(("flush", out))
        if not out.startswith("FLUSH"):
            self.problem("error", what="flush did not complete", out=out, threads=self.sess.threads)
            self.dead = True
            return
        lnum = int(out.split(" ")[1])
        tree = self.dump_tree()
        new = [n for n in tree if n not in self.tree]
        if len(new) != 1 or [n for n in self.tree if n not in tree]:
            self.problem("corr", what="flush: expected exactly one new file", new=new)
            self.tree = tree
            self.dead = True
            return
        ents = sorted(self.files[new[0]], key=lambda e: e[1])     # write order (by sequence number)
        self.tree = tree
        ins, rolled = self.sync("flush")
        self.stats["rollover"] += rolled
        self.send_hashes(ents)
        if self.model_step("flush %d %d %s" % (lnum, 1 if rolled else 0, self.ents_str(ents)), "flush"):
            self.compare_model(ins, "flush")
        self.mem = False
        self.stats["flush"] += 1

    def ingest(self, ents):
        """LsmTree::ingest of an external sst with the given entries (sorted by key, newest first)"""
        if self.dead:
            return
        ents = sorted(ents, key=kr_key)
        # an external sst brings (key, timestamp) pairs of its own: ingesting a pair the tree still
        # holds would put one entry into two files (the merge then fails with sort-order: the
        # precondition of C01's OIngest, not a matter of the books): such an ingest is not made
        held = set((e[0], e[1]) for n in self.tree for e in self.files.get(n, []))
        if any((e[0], e[1]) in held for e in ents):
            self.stats["ingest_skipped_pairs_present"] = self.stats.get("ingest_skipped_pairs_present", 0) + 1
            return
        out = self.sess.cmd("ingest " + " ".join(L.ent_tok(e) for e in ents))[0]
        self.events.append(("ingest", out))
        if out != "INGEST ok":
            if "duplicate-sst" in out:
                self.stats["ingest_duplicate"] = self.stats.get("ingest_duplicate", 0) + 1
                return      # the store refuses a name that is in sst/: nothing happened
            self.problem("error", what="ingest returned an error or panicked", out=out)
            self.dead = True
            return
        tree = self.dump_tree()
        new = [n for n in tree if n not in self.tree]
        if len(new) != 1 or [n for n in self.tree if n not in tree]:
            self.problem("corr", what="ingest: expected exactly one new file", new=new)
            self.dead = True
            return
        self.tree = tree
        ins, rolled = self.sync("ingest")
        self.stats["rollover"] += rolled
        self.send_hashes(ents)
        if self.model_step("ingest %d %s" % (1 if rolled else 0, self.ents_str(ents)), "ingest"):
            self.compare_model(ins, "ingest")
        self.stats["ingest"] = self.stats.get("ingest", 0) + 1

    def compact(self):
        """one compaction step of the real selector; False when it found nothing"""
        if self.dead:
            return False
        out = self.sess.cmd("compact")[0]
        self.events.append(("compact", out))
        t = out.split(" ")
        if t[0] == "PANIC":
            msg = " ".join(t[2:])
            selector = "assertion_failed:" in msg and any(x in msg for x in ("ssts[", "first_key", "last_key", "lower_bound", "upper_bound", "levels"))
            self.sync("panicked compaction")
            if selector:
                # the assertions of next_compaction / find_best_compaction are C01/C20's subject (observed
                # only after a reopen whose recovered levels are not well formed: C01's known finding K2)
                self.outside = "compaction step panicked in the selector (%s); the session cannot continue" % msg[-90:]
                self.problem("outside", what=self.outside)
            else:
                # e.g. assert_eq!(tree_setsum, output_setsum) or a Setsum subtraction underflow
                self.problem("property", what="a compaction panicked outside the selector", panic=msg[:400])
            self.dead = True
            return False
        if t[0] != "COMPACT":
            self.problem("error", what="compaction step did not complete", out=out)
            self.dead = True
            return False
        if t[1] == "none":
            self.stats["none"] += 1
            return False
        if t[1] == "err":
            self.problem("property" if "corruption" in out else "error", what="compaction returned an error", out=out)
            self.dead = True
            return False
        up, inputs = int(t[2]), t[6].split(",")
        tree = self.dump_tree()
        before = self.tree
        self.tree = tree
        if len(inputs) == 1:
            if sorted(tree) != sorted(before):
                self.problem("corr", what="a trivial move changed the set of files")
            # a move writes nothing: the next transaction's inspection would show an edit too many
            self.model_step("move " + inputs[0], "move")
            self.stats["move"] += 1
            return True
        is_gc = up == self.num_levels - 1
        ins, rolled = self.sync("gc" if is_gc else "compaction")
        self.stats["rollover"] += rolled
        # the edit just written: the last edit of the live fragment, or of the one rolled over
        edit = (self.frags[self.cur_id - 1] if rolled else self.frags[self.cur_id])[-1]
        if sorted(edit.rms) != sorted(inputs):
            self.problem("corr", what="the edit does not remove exactly the compaction's inputs", rms=edit.rms, inputs=inputs)
        outs = sorted(edit.adds, key=lambda n: kr_key(self.files[n][0]) if self.files.get(n) else (b"", 0))
        if set(edit.adds) & set(edit.rms):
            self.stats["self_replacing"] += 1
        merged = sorted((e for n in inputs for e in self.files[n]), key=kr_key)
        self.send_hashes(merged)
        lens = ",".join(str(len(self.files[n])) for n in outs) or "-"
        if is_gc:
            kept = retained_versions(self.versions, merged)
            self.stats["gc_dropped"] += len(merged) - len(kept)
            self.model.cmd("c %s | %s" % (self.ents_str(merged), ",".join("%s:%d" % (L.hx(e[0]), e[1]) for e in kept) or "-"))
            written = [e for n in outs for e in self.files[n]]
            if written != kept:
                # C05's subject (what the policy retains); here it would make the model's outputs differ
                self.problem("corr", what="GC wrote other entries than the Python reading of versions=%d retains" % self.versions)
        if self.model_step("%s %d %s %s" % ("gc" if is_gc else "compact", 1 if rolled else 0, ",".join(inputs), lens), "gc" if is_gc else "compaction"):
            self.compare_model(ins, "gc" if is_gc else "compaction")
        self.stats["gc" if is_gc else "compact"] += 1
        return True

    def verify(self, passes=1):
        """the real LsmVerifier on the live directory; the model verifies the same fragments from zero"""
        if self.dead:
            return
        # how often a pass meets the situation that only the LIVE manifest explains: a name removed by a
        # fragment about to be judged, added again and removed again by edits still in the live manifest
        live = self.frags.get(self.cur_id, [])
        readded, again = set(), set()
        for e in live[1:]:
            again |= readded & set(e.rms) - set(e.adds)
            readded |= set(e.adds)
        if again:
            old_rm = set()
            for fid, edits in self.frags.items():
                if self.last_verified < fid < self.cur_id - 1:
                    for e in edits[1:]:
                        old_rm |= set(e.rms) - set(e.adds)
            if old_rm & again:
                self.stats["verify_with_live_recreation"] = self.stats.get("verify_with_live_recreation", 0) + 1
        out = self.tool.cmd("verify %s %d %s" % (self.root, passes, " ".join(self.opts)), multi=True)
        self.events.append(("verify", " ".join(out)))
        self.stats["verify"] += 1
        ins = self.inspect(brief=True)
        vs = ins.state["verify"]
        m = vs.get("M", "-")
        k = int(m.split(".")[1]) if m.startswith("MANIFEST.") else 0
        self.stats["verify_frags"] = max(self.stats["verify_frags"], k)
        self.last_verified = k
        mv = self.model.cmd("verify %d" % k).split(" ")
        bad = [o for o in out if o != "PASS ok"]
        if bad:
            # the store produced this history without faults: the verifier has to accept it
            self.problem("property", what="the verifier does not accept a history the store produced", verdicts=out, verify_state=vs)
        if mv[1] != "ok":
            self.problem("corr" if bad else "corr", what="the model's verifier rejects the first %d fragments" % k, model=" ".join(mv))
        elif not bad and k and mv[2] != vs.get("O"):
            self.problem("corr", what="accumulated setsum after fragment %d differs" % k, impl=vs.get("O"), model=mv[2])
        if k and self.frags.get(k) and self.frags[k][-1].info.get("O") != vs.get("O") and not bad:
            self.problem("property", what="the verifier's accumulated setsum is not the O the fragment ends in", fragment=k)
        if vs["strs"]:
            self.problem("corr", what="verifier manifest holds unfinished removals after a completed pass", strs=vs["strs"])

    def finish(self):
        try:
            if self.sess:
                self.sess.close()
        except Exception:
            pass
        self.tool.close()
        self.model.close()

    def cleanup(self):
        shutil.rmtree(self.root, ignore_errors=True)
