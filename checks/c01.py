"""C01 — point reads return the latest write, whatever the tree did in between.

Decided by: theorems of coq/theories/Lsm/Props_C01.v (history theorem over writes, flushes,
admissible compactions and reopens; load = newest version under well-formedness + Ordered), tied
to the code by replaying single-stepped histories of the real KeyValueStore on the extracted model
(`mx_lsm`): every flush's file contents, every compaction the real selector chose (checked with
the extracted admissibility predicate), every resulting tree shape, every recovered tree
(well-formed + ordered, checked with the extracted checkers), and every point read of a key
universe after every step, against the model and against a Python reference map."""
import json
import os

import lsmlib
import vlib

META = {
    "category": "proof",
    "text": "Coq theorems (Lsm/Props_C01.v, closed under the global context): for every history of puts/deletes/batches, external ingests, flushes, admissible compactions (trivial moves and merges, any cut of the outputs), last-level garbage collections (any admissible retention) and reopens (any well-formed ordered re-levelling), from any starting sequence number, a point read returns the last write; load returns the newest version <= t among all entries of any well-formed Ordered store; an admissible compaction leaves every key's version sequence unchanged and the levels well-formed. The model (load path, partition points, L0 order, apply_compaction, sequence numbers, flush, ingest) is tied to lsmtk by lock-step replay of single-stepped real histories on the extracted model (KeyValueStore sessions and bare LsmTree sessions fed by externally built ssts; compactions applied at once or selected and performed later with several ongoing, as K compaction threads do). The selector (next_compaction) is modelled and proved admissible in C20 and composed in Stall/EndToEnd.v; here, as for recovery (recover.rs), each result is checked at run time with the extracted admissibility / well-formedness / Ordered checkers, so the theorem applies to exactly the steps the real code took.",
    "note": "Trusted: Coq kernel; extraction (ExtrOcamlBasic) + ocaml/lsm driver; harnesses `lsm`, `lsmtree` + lsmtk hooks (cfg blue_verif: verif_dump, verif_compaction_step / _select / _perform, verif_request_flush/wait); checks/lsmlib.py. Modelled, not verified: Sst::load as 'newest version <= t in the file' (C10's subject), the memtable as a newest-first list (C17), single-stepped execution (threads: C06/C07/C20; concurrent commit: C04), the recovery algorithm (its output is validated per reopen; C01_recovery_from_metadata_refuted shows no function of the metadata it uses can be correct). Known finding K2 (recovery level assignment) is recorded in known_findings.txt; K1 (expand_compaction), K3 (trivial move), F1, F6, F7 were repaired in /repo and are violations again if they return.",
}

PROPS = "theories/Lsm/Props_C01.v"
MODULE = "Lsm.Props_C01"

OPTION_SETS = [
    # (name, flags) — file sizes small enough that a few dozen writes make several files
    ("default-limits", ["--sst-target-file-size", "400", "--sst-minimum-file-size", "200", "--sst-target-block-size", "128"]),
    ("tiny-files", ["--sst-target-file-size", "150", "--sst-minimum-file-size", "60", "--sst-target-block-size", "64"]),
    ("few-files-per-compaction", ["--sst-target-file-size", "300", "--sst-minimum-file-size", "100", "--sst-target-block-size", "96", "--max-compaction-files", "4"]),
    ("big-files", ["--sst-target-block-size", "256"]),
    ("keep-two-versions", ["--sst-target-file-size", "200", "--sst-minimum-file-size", "80", "--sst-target-block-size", "64", "--gc-policy", "versions = 2"]),
    ("keep-three-versions-tiny", ["--sst-target-file-size", "120", "--sst-minimum-file-size", "50", "--sst-target-block-size", "64", "--gc-policy", "versions = 3"]),
]
BASE_OPTS = ["--memtable-size-bytes", "100000000", "--l0-write-stall-threshold-files", "100000",
             "--l0-write-stall-threshold-bytes", "100000000000"]


def gen_history(rng, n_ops, universe, deferred=False, reopens=True):
    """list of ops: ('w', batch) ('flush',) ('compact', n) ('reopen',) ('reads',); with deferred=True
    also ('select',) and ('perform', j): compactions are selected, stay in the ongoing list while
    writes, flushes, other selections and performs go on, and are performed later in any order - the
    interleavings several compaction threads produce, single-stepped"""
    ops = []
    hot = [rng.choice(universe) for _ in range(4)]
    for _ in range(n_ops):
        r = rng.below(100)
        if deferred and rng.chance(1, 4):
            if rng.chance(1, 2):
                ops.append(("select",))
            else:
                ops.append(("perform", rng.below(4)))
            continue
        if r < 52:
            k = rng.choice(hot) if rng.chance(1, 2) else rng.choice(universe)
            if rng.chance(1, 4):
                ops.append(("w", [(k, None)]))
            else:
                ops.append(("w", [(k, rng.bytes(rng.choice([0, 1, 3, 8, 20, 60])))]))
        elif r < 62:
            n = rng.range(2, 5)
            keys = [rng.choice(universe) for _ in range(n)]      # a key may repeat: last write wins
            ops.append(("w", [(k, None if rng.chance(1, 4) else rng.bytes(rng.choice([0, 2, 10, 40]))) for k in keys]))
        elif r < 76:
            ops.append(("flush",))
        elif r < 92:
            ops.append(("compact", rng.choice([1, 2, 3, 8, 20, 40])))
        elif r < 96 and reopens:
            ops.append(("reopen",))
        else:
            ops.append(("reads",))
    return ops


def gen_layered(rng, n_ops, universe, deferred=False):
    """histories biased towards MERGES: a base layer is written, flushed and sunk to the bottom first (a lone
    file only ever trivially moves, 15 times, which is what uniform histories mostly produce); then rounds of
    2-3 overlapping flushes followed by a few compaction steps, so that level-0 files overlap each other and
    the data below them"""
    ops = []
    keys = list(universe)
    for i in range(0, len(keys), 4):
        ops.append(("w", [(k, rng.bytes(rng.choice([1, 8, 30]))) for k in keys[i:i + 4]]))
    ops += [("flush",), ("compact", 40)]
    while len(ops) < n_ops:
        for _ in range(rng.range(2, 4)):
            for _ in range(rng.range(1, 5)):
                k = rng.choice(keys)
                ops.append(("w", [(k, None if rng.chance(1, 4) else rng.bytes(rng.choice([0, 3, 20, 60])))]))
            ops.append(("flush",))
        if deferred and rng.chance(1, 2):
            ops += [("select",), ("w", [(rng.choice(keys), rng.bytes(4))]), ("flush",), ("select",), ("perform", rng.below(2)), ("perform", 0)]
        else:
            ops.append(("compact", rng.choice([1, 2, 3, 6])))
        if rng.chance(1, 3):
            ops.append(("reads",))
        if rng.chance(1, 12):
            ops.append(("compact", 30))
    return ops


def gen_tree_history(rng, n_ops, universe, deferred=False):
    """tree-level histories: external ingests (several versions of a key in one file, tombstones,
    strictly increasing timestamps across files), compaction steps, reopens, reads"""
    ops, ts = [], 0
    for _ in range(n_ops):
        r = rng.below(100)
        if deferred and rng.chance(1, 3):
            ops.append(("select",) if rng.chance(1, 2) else ("perform", rng.below(4)))
            continue
        if r < 45:
            ents, used = [], set()
            for _ in range(rng.range(1, 6)):
                k = rng.choice(universe)
                for _ in range(rng.choice([1, 1, 1, 2, 3])):
                    ts += 1
                    if (k, ts) not in used:
                        used.add((k, ts))
                        ents.append((k, ts, None if rng.chance(1, 4) else rng.bytes(rng.choice([0, 1, 8, 40, 90]))))
            ops.append(("ingest", ents))
        elif r < 85:
            ops.append(("compact", rng.choice([1, 2, 3, 8, 20, 40])))
        elif r < 92:
            ops.append(("reopen",))
        else:
            ops.append(("reads",))
    return ops


def run_history(lsm_exe, mx_exe, opts, ops, tag, universe=None):
    tree = any(op[0] == "ingest" for op in ops)
    if tree:
        lsm_exe = os.path.join(os.path.dirname(lsm_exe), "lsmtree")
    run = lsmlib.Run(lsm_exe, mx_exe, BASE_OPTS + opts, tag, universe, tree=tree)
    try:
        for op in ops:
            if run.dead:
                break
            if op[0] == "w":
                run.write(op[1])
                if len(run.events) % 3 == 0:
                    run.reads([k for k, _ in op[1]])
            elif op[0] == "ingest":
                run.ingest(op[1])
                run.reads()
            elif op[0] == "flush":
                run.flush()
                run.reads()
            elif op[0] == "compact":
                for _ in range(op[1]):
                    if not run.compact():
                        break
                    run.reads()
            elif op[0] == "select":
                run.select()
            elif op[0] == "perform":
                if run.pending:
                    keys = sorted(run.pending)
                    if run.perform(keys[op[1] % len(keys)]):
                        run.reads()
            elif op[0] == "reopen":
                run.reopen()
                run.reads()
            elif op[0] == "reads":
                run.reads()
        while run.pending and not run.dead:      # what is still selected at the end is performed, oldest first
            if run.perform(sorted(run.pending)[0]):
                run.reads()
        if not run.dead:
            run.reads()
    finally:
        run.finish()
    return run


class Summary:
    """picklable result of one history"""

    def __init__(self, run):
        self.problems, self.known_events = run.problems, run.known_events
        self.n_steps, self.n_reads, self.events = run.n_steps, run.n_reads, run.events[-15:]


def _job(args):
    lsm_exe, mx_exe, opts, ops, tag, universe = args
    return Summary(run_history(lsm_exe, mx_exe, opts, ops, tag, universe))


def run_many(jobs):
    """jobs: list of (lsm_exe, mx_exe, opts, ops, tag, universe) -> list of Summary, in parallel"""
    import multiprocessing
    with multiprocessing.Pool(min(len(jobs), max(2, vlib.NCPU - 2))) as pool:
        return pool.map(_job, jobs, chunksize=1)


def ops_to_json(ops):
    out = []
    for op in ops:
        if op[0] == "w":
            out.append(["w", [[k.hex(), None if v is None else v.hex()] for k, v in op[1]]])
        elif op[0] == "ingest":
            out.append(["ingest", [[k.hex(), ts, None if v is None else v.hex()] for k, ts, v in op[1]]])
        else:
            out.append(list(op))
    return out


def ops_from_json(js):
    out = []
    for op in js:
        if op[0] == "w":
            out.append(("w", [(bytes.fromhex(k), None if v is None else bytes.fromhex(v)) for k, v in op[1]]))
        elif op[0] == "ingest":
            out.append(("ingest", [(bytes.fromhex(k), ts, None if v is None else bytes.fromhex(v)) for k, ts, v in op[1]]))
        else:
            out.append(tuple(op))
    return out


def build(chk):
    okx, outx = vlib.coq_make(["theories/Lsm/Extract.vo"])
    okm, outm, mx = vlib.ocaml_build("lsm", "mx_lsm")
    okh, outh, (lsm_exe, _tree_exe) = vlib.cargo_build(["lsm", "lsmtree"])
    if not (okx and okm):
        raise RuntimeError("model build failed:\n" + outx[-1500:] + outm[-1500:])
    if not okh:
        raise RuntimeError("harness build failed (does /repo still compile?):\n" + outh[-3000:])
    return lsm_exe, mx


def verdict(chk, results, info, ok_proof, pid="C01", read_kinds=("read",)):
    """common verdict logic for the lsm-based checks.
    A history in which an event of a class listed in known_findings.txt happened is attributed to
    that class from that event on (problems BEFORE the event are not); everything else is new."""
    known = {k[1]: k[2] for k in vlib.known_findings(pid) if k[0] == "known"}
    reported = 0
    corr_only = []
    for name, optname, ops, run in results:
        kev = [e for e in run.known_events if e[0] in known]
        first_known = min([e[2] for e in kev], default=None)
        # the first known event after which the recovered tree was not even well-formed (None: every one was)
        first_bad = min([e[2] for e in kev if not (len(e) > 3 and e[3])], default=None)
        unlisted = [e for e in run.known_events if e[0] not in known]

        def excused(p):
            """a problem AFTER a known event is attributed to it only if it is a stated consequence of it:
            tree not well-formed -> anything (binary searches and the selector's asserts are undefined);
            tree well-formed but wrongly ordered -> only reads on which implementation and MODEL (which runs on the
            recovered arrangement) agree with each other and differ from the latest write"""
            if first_known is None or p["at_event"] < first_known:
                return False
            if first_bad is not None and p["at_event"] >= first_bad:
                return True
            return p["kind"] in read_kinds and p.get("impl") is not None and p.get("impl") == p.get("model")
        fresh = [p for p in run.problems if not excused(p)]
        for e in kev:
            chk.known(e[0], known[e[0]])
        replay = {"history": ops_to_json(ops), "options": optname, "problems": fresh[:10],
                  "known_events": [list(e) for e in run.known_events[:10]], "events_tail": [list(e) for e in run.events[-15:]]}
        reads = [p for p in fresh if p["kind"] in read_kinds or p["kind"] == "error"]
        if reads:
            if reported < 3:
                chk.violation("%s_%s.json" % (pid.lower(), name), dict(replay, kind="property"))
            reported += 1
        elif fresh:
            corr_only.append((name, replay))
        elif [e for e in unlisted if first_known is None or e[2] < first_known]:
            corr_only.append((name, dict(replay, unlisted_event=[list(e) for e in unlisted[:3]])))
    if reported == 0 and (corr_only or not ok_proof):
        chk.violation("%s_unproved.json" % pid.lower(), {"kind": "no-failing-input-found", "broken": info.get("broken", []),
                                                       "correspondence": [c[1] for c in corr_only[:3]]}, no_input=True)


def run(chk):
    ok_proof, info = vlib.proof_stage(chk, PROPS, MODULE, const_areas=("Lsm",), pins_rel="pins/C01.v")
    lsm_exe, mx = build(chk)
    rng = vlib.Rng(chk.seed * 1000003 + 1)
    n_hist = 96 if chk.tier == "quick" else 900
    jobs, names = [], []
    corpus_dir = os.path.join(vlib.VERIF, "corpus", "C01")
    if os.path.isdir(corpus_dir):
        for fn in sorted(os.listdir(corpus_dir)):
            if fn.endswith(".json"):
                c = json.load(open(os.path.join(corpus_dir, fn)))
                optname = c.get("options", "default-limits")
                ops = ops_from_json(c["history"])
                jobs.append((lsm_exe, mx, dict(OPTION_SETS)[optname], ops, "c01c%d" % len(jobs), None))
                names.append(("corpus_" + fn[:-5], optname, ops))
    for i in range(n_hist):
        optname, opts = OPTION_SETS[i % len(OPTION_SETS)]
        universe = lsmlib.UNIVERSE[:rng.choice([6, 10, 18])]
        if i % 5 == 4:
            ops = gen_layered(rng.fork(), rng.choice([80, 160, 320]), universe, deferred=(i % 2 == 0))
        else:
            ops = gen_history(rng.fork(), rng.choice([80, 160, 320]), universe, deferred=(i % 3 == 2),
                              reopens=(i % 4 != 1))     # a quarter of the histories never reopen: nothing in them can be attributed to K2
        jobs.append((lsm_exe, mx, opts, ops, "c01h%d" % i, universe))
        names.append(("h%d" % i, optname, ops))
    # tree-level histories: data arrives through LsmTree::ingest of external ssts
    for i in range(n_hist // 4):
        optname, opts = OPTION_SETS[i % len(OPTION_SETS)]
        universe = lsmlib.UNIVERSE[:rng.choice([4, 8, 14])]
        ops = gen_tree_history(rng.fork(), rng.choice([40, 80, 160]), universe, deferred=(i % 2 == 1))
        jobs.append((lsm_exe, mx, opts, ops, "c01t%d" % i, universe))
        names.append(("t%d" % i, optname, ops))
    results = [(n[0], n[1], n[2], r) for n, r in zip(names, run_many(jobs))]
    steps = {}
    n_reads = n_problems = 0
    shapes = set()
    for name, optname, ops, r in results:
        for k, v in r.n_steps.items():
            steps[k] = steps.get(k, 0) + v
        n_reads += r.n_reads
        n_problems += len(r.problems)
        if r.n_steps["flush"] >= 2 and (r.n_steps["compact"] + r.n_steps["move"]) >= 1:
            shapes.add(json.dumps(ops_to_json(ops))[:2000])
    chk.coverage.update({
        "evaluations": len(results), "distinct_nontrivial": len(shapes),
        "rule": "random single-stepped histories (puts/deletes/batches over an adversarial key universe with shared prefixes, flush, 1..8 compaction steps, reopen) under 4 option sets shaping file sizes and compaction limits; non-trivial = at least 2 flushes and 1 compaction/move; distinct = distinct op lists",
        "samples": [ops_to_json(results[-1][2])[:12]],
        "input_distribution": {"steps": steps, "point_reads_compared": n_reads, "option_sets": [o[0] for o in OPTION_SETS]},
        "traces_validated_against_impl": len(results),
        "problems_seen": n_problems,
        "known_events_seen": sum(len(r.known_events) for _, _, _, r in results),
        "trusted_base": [
            "Coq 8.16.1 kernel (coqc, full .vo build)",
            "extraction via ExtrOcamlBasic + ocaml/lsm/mx_lsm.ml",
            "harness/src/bin/lsm.rs and the cfg(blue_verif) hooks in lsmtk (single-step, dump)",
            "checks/lsmlib.py (lock-step replay, Python reference map)",
            "selector and recovery are validated per step, not modelled; GC steps are compared by reads only",
        ],
    })
    chk.assumptions = ["single-stepped execution (no concurrent writers/compactions): concurrency is C06/C07/C20",
                       "Sst::load returns the newest version <= t of the key in that file (C10)",
                       "batches hold distinct keys (F7 is a known finding)"]
    verdict(chk, results, info, ok_proof)


def replay(path):
    obj = json.load(open(path))
    print(json.dumps({k: obj[k] for k in obj if k != "history"}, indent=1)[:3000])
    if "history" not in obj:
        return 1
    chk = vlib.Check("C01", "quick", 1)
    lsm_exe, mx = build(chk)
    ops = ops_from_json(obj["history"])
    r = run_history(lsm_exe, mx, dict(OPTION_SETS)[obj.get("options", "default-limits")], ops, "c01r")
    print("problems now:", json.dumps(r.problems[:10], indent=1))
    print("known events:", r.known_events[:10])
    return 1 if any(p["kind"] in ("read", "error") for p in r.problems) else 0
