"""C08 — no needed file is ever removed; clean-up removes only unreferenced files.

Decided by: theorems of coq/theories/Refs/Props_C08.v over the executable model Refs/Model.v (the
store process as threads with one system call per step, reference counts, snapshots, rename to
trash, orphan clean-up, log files, the verifier's unlink protocol, crashes between any two steps),
tied to the code by running single-stepped histories of the real lsmtk store (harness `c08`) and
the extracted model (`mx_refs`) in lock step and comparing, after every step, the files in sst/,
trash/ and the root, the reference counts, the manifest state, the fragments on disk and the
verifier's own manifest; verifier passes are also run as processes of their own and killed before
each of their unlink system calls (strace), a reader's release is placed inside a compaction
(hook), a compaction's pin inside a reader's release callback (sst point hook), and store processes are killed inside their trash moves.  The direct oracle is the
property itself: after every step everything the manifest or a held snapshot names is in sst/,
held cursors read their snapshot to the end, and after every reopen the store opens and reads
back what was written."""
import json
import multiprocessing
import os

import c08_run
import lsmlib
import vlib
import c08_fault

META = {
    "category": "proof",
    "text": "Coq theorems (Refs/Props_C08.v, 18 theorems, closed under the global context; the last six are about I/O errors on the ingest path - Refs/IngestFault.v models LsmTree::_ingest, Manifest::_apply and rollover one fallible system call at a time: for any sequence of ingests each failing at any call every listed sst is in sst/ and nothing is removed, and the clean-up variant is refuted; tied by strace recordings of bare-tree ingests compared with the model call by call and EIO injected at every call in turn) over an executable state-machine model of lsmtk's file life cycle (reference_counter.rs; explicit_ref/unref, release_sst, install_version, compaction_finish pin/link/apply/install/unpin, _ingest, from_manifest and cleanup_orphans of tree/mod.rs; open/recover/_memtable_thread of kvs/mod.rs; verify/process_one/possibly_complete_processing/verify_one's lists/added_after of verifier.rs; mani at the level of edits and fragments). For EVERY interleaving of the store's threads (opening thread, memtable thread, any number of compaction threads, any number of readers) one system call at a time, readers taking and releasing snapshots, compactions with any names (re-created setsums included), manifest roll-overs, the process dying between any two steps and reopening, and the verifier stepping, dying and restarting anywhere: every sst named by the committed manifest, the current version or a held snapshot is in sst/ (C08_needed_not_removed); reference counts are exact and a counted sst is in place; a log is in the trash only if it is empty or its sst was committed; the orphan scan never names a listed sst whatever fragments the verifier has removed, and open() finds every listed sst; the verifier unlinks only trash entries that the fragment named in its own manifest recorded, and no verifier activity touches sst/, the root's logs, the live manifest or the highest fragment. release_sst is also modelled at the grain of dec_and's decision and its callback (Refs/ModelLock.v: IDecToZero / IRenameToTrash with any thread in between): with the table lock held across the callback every such run ends in a state of the atomic model (C08_release_callback_under_table_lock_refines_atomic_release), so nothing needed is removed; with the callback run after the lock is given up the property is refuted (C08_needed_not_removed_refuted_without_lock_across_callback). By incarnation the verifier property is refuted (known class K-verifier-by-name) and proved outside the class. The model is tied to the code by lock-step replay of real single-stepped histories on the extracted model, comparing directory contents, reference counts, manifest state, fragments and the verifier's manifest after every step; verifier passes are killed before each unlink (strace), a reader's release is placed inside a compaction (hook), a compaction's pin of a re-created sst is placed inside the release callback of the same sst (sst point hook; the pin must wait for the rename, as ModelLock.fstep says), store processes are killed inside their renames, physical entries are compared across reopens.",
    "note": "Trusted: Coq kernel; extraction (ExtrOcamlBasic) + ocaml/refs driver; harness `c08` + lsmtk hooks (cfg blue_verif: single-step, dump, verif_refs, verif_snapshot, verif_set_point_hook, verif_set_sst_point_hook, verif_compaction_select/perform); strace kill injection; checks/c08_run.py. Atomic in the model: Manifest::apply (C13), the critical section under the compaction mutex, inc_and, dec_and when its decrement is not the last (the last one is split in ModelLock.v), the read-only part of process_one, and VersionRef::drop's `Arc::strong_count == 1` test together with the drop of the Arc. The last hides a leak (seen by build-C04 and the auditor; not a removal, so not a C08 violation): explicit_unref returns early when strong_count != 1 and nobody retries, so two holders of the same old version (with >= 2 compaction threads, or a compaction and a reader) letting go at the same time can both return early; the version's ssts then stay in sst/ with their counts until the next open's cleanup_orphans, and a verifier pass before that open backs off on them. Names and roll-overs are oracle inputs; sizes/contents are C01/C10's subject. Fixed in /repo for this property: a899047 (F5), 88180bd (pin compaction outputs), and by build-C04 bc4e529 (F17), 48c731b (F18). Known class K-verifier-by-name: trash entries are addressed by name, so an intent recorded before the store re-creates and re-removes the same setsum unlinks the later incarnation.",
}

PROPS = "theories/Refs/Props_C08.v"
MODULE = "Refs.Props_C08"

BASE_OPTS = ["--memtable-size-bytes", "100000000", "--l0-write-stall-threshold-files", "100000",
             "--l0-write-stall-threshold-bytes", "100000000000", "--sst-cache-bytes", "0"]
OPTION_SETS = {
    # name -> flags.  Small files so that a few dozen writes make several ssts and merges.
    "tiny-files": ["--sst-target-file-size", "150", "--sst-minimum-file-size", "60", "--sst-target-block-size", "64"],
    "default-limits": ["--sst-target-file-size", "400", "--sst-minimum-file-size", "200", "--sst-target-block-size", "128"],
    # two or three entries per output file and every version kept: outputs are cut where earlier
    # files were, so compactions re-create setsums that an earlier edit removed
    "recreate": ["--sst-target-file-size", "240", "--sst-minimum-file-size", "40", "--sst-target-block-size", "64",
                 "--gc-policy", "versions = 50"],
    # the same, and the manifest rolls over on open only: what a compaction re-creates stays in the
    # live MANIFEST while older numbered fragments (made by reopens) are what the verifier reads
    "recreate-live": ["--sst-target-file-size", "240", "--sst-minimum-file-size", "40", "--sst-target-block-size", "64",
                      "--gc-policy", "versions = 50", "--mani-log-rollover-ratio", "1000000"],
    "few-files-per-compaction": ["--sst-target-file-size", "300", "--sst-minimum-file-size", "100", "--sst-target-block-size", "96",
                                 "--max-compaction-files", "4"],
}
OPTION_ORDER = ["tiny-files", "recreate-live", "recreate", "default-limits", "recreate-live", "few-files-per-compaction", "recreate", "recreate-live"]


def gen_history(rng, n_ops, optname):
    """list of ops (JSON-able):
       ['w', khex, vhex|None] ['flush'] ['compact', n] ['compact1'] ['hookcompact', r] ['racedrop', r] ['compact2', r] ['reopen']
       ['take', r, 'snap'|'cur'] ['drop', r] ['verify'] ['vkill', j] ['skill', j] ['reads']"""
    ops = []
    recreate = optname in ("recreate", "recreate-live")
    if optname == "recreate-live":
        return gen_history_live(rng, n_ops)
    universe = [b"a", b"b", b"c"] if recreate else lsmlib.UNIVERSE[:rng.choice([4, 6, 10])]
    for _ in range(n_ops):
        r = rng.below(100)
        if r < 38:
            k = rng.choice(universe)
            if rng.chance(1, 4):
                ops.append(["w", k.hex(), None])
            else:
                v = rng.choice([b"", b"y" * 40]) if recreate else rng.bytes(rng.choice([0, 1, 3, 8, 20]))
                ops.append(["w", k.hex(), v.hex()])
        elif r < 52:
            ops.append(["flush"])
        elif r < 70:
            ops.append(["compact", rng.choice([2, 8, 20, 40, 80])])
        elif r < 73:
            ops.append([rng.choice(["hookcompact", "hookcompact", "racedrop"]), rng.below(3)])
        elif r < 76:
            ops.append(["compact2", rng.below(3)])
        elif r < 80:
            ops.append(["reopen"])
        elif r < 86:
            ops.append(["take", rng.below(3), rng.choice(["snap", "snap", "cur"])])
        elif r < 91:
            ops.append(["drop", rng.below(3)])
        elif r < 96:
            ops.append(["verify"])
        else:
            ops.append(["vkill", rng.range(1, 5)])
    if rng.chance(1, 3):
        # the history ends with the store process killed inside a flush / compaction
        ops.append(["w", universe[0].hex(), b"z".hex()])
        if rng.chance(1, 2):
            ops.append(["skill", "flush", rng.choice([1, 1, 1, 2])])
        else:
            ops.append(["skill", "compact", rng.range(1, 4)])
    return ops, [k.hex() for k in universe]


def gen_history_live(rng, n_ops):
    """phases of writes / flushes / compaction bursts separated by pairs of reopens (each reopen
    makes one numbered fragment; nothing else rolls the manifest over), with verifier passes inside
    the later phases: setsums that an old fragment removed are re-created, and sometimes removed
    again, by edits that are still in the live MANIFEST when the verifier reads the old fragment"""
    ops = []
    universe = [b"a", b"b", b"c"]

    def phase(n):
        for _ in range(n):
            r = rng.below(100)
            if r < 42:
                k = rng.choice(universe)
                ops.append(["w", k.hex(), None] if rng.chance(1, 4) else ["w", k.hex(), rng.choice([b"", b"y" * 40]).hex()])
            elif r < 62:
                ops.append(["flush"])
            elif r < 86:
                ops.append(["compact", rng.choice([2, 8, 20, 40])])
            elif r < 90:
                ops.append(["compact2", rng.below(2)])
            elif r < 92:
                ops.append(["racedrop", rng.below(2)])
            elif r < 96:
                ops.append(["take", rng.below(2), "snap"])
            else:
                ops.append(["drop", rng.below(2)])

    phase(max(20, n_ops // 3))
    left = n_ops - len(ops)
    while left > 0:
        # two numbered fragments; the older one holds the history so far and is not verified yet
        ops.append(["reopen"])
        ops.append(["reopen"])
        n = min(left, rng.choice([20, 35, 50]))
        phase(n)
        ops.append(["compact", 40])
        # the verifier reads the old fragment while what the store did since is in the live MANIFEST
        if rng.chance(1, 4):
            ops.append(["vkill", rng.range(1, 4)])
        ops.append(["verify"])
        left -= n
    return ops, [k.hex() for k in universe]


def run_history(c08_exe, mx_exe, optname, ops, tag, universe):
    opts = BASE_OPTS + OPTION_SETS[optname]
    uni = [bytes.fromhex(k) for k in universe]
    run = c08_run.Run8(c08_exe, mx_exe, opts, tag, uni)
    try:
        for op in ops:
            if run.dead:
                break
            kind = op[0]
            if kind == "w":
                run.write(bytes.fromhex(op[1]), None if op[2] is None else bytes.fromhex(op[2]))
            elif kind == "flush":
                run.flush()
            elif kind == "compact":
                for _ in range(op[1]):
                    if not run.compact():
                        break
            elif kind == "compact1":
                run.compact()
            elif kind == "hookcompact":
                r = op[1]
                if run.held.get(r) == "snap":
                    run.compact(hookdrop=r)
                else:
                    run.compact()
            elif kind == "racedrop":
                # compaction after compaction on a second thread until one of them pins an sst that
                # only reader op[1]'s snapshot holds (then the release is placed inside that pin)
                for _ in range(op[2] if len(op) > 2 else 12):
                    if not run.racedrop(op[1]):
                        break
            elif kind == "compact2":
                for _ in range(6):
                    if not run.compact2(hookdrop=op[1]):
                        break
            elif kind == "reopen":
                run.reopen()
                run.reads()
            elif kind == "take":
                run.take(op[1], op[2])
            elif kind == "drop":
                run.drop(op[1])
            elif kind == "verify":
                run.verify()
            elif kind == "vkill":
                run.verify_killed(op[1])
            elif kind == "skill":
                run.store_killed(op[1], op[2])
                break
            elif kind == "reads":
                run.reads()
        if not run.dead:
            for r in list(run.held):
                run.drop(r)
            run.reads()
    finally:
        run.finish()
    return run


class Summary:
    def __init__(self, run):
        self.problems, self.known_events = run.problems, run.known_events
        self.counts, self.events = run.counts, run.events[-12:]


def _job(args):
    c08_exe, mx_exe, optname, ops, tag, universe = args
    try:
        return Summary(run_history(c08_exe, mx_exe, optname, ops, tag, universe))
    except Exception as ex:          # machinery trouble inside one history must not hide the others
        import traceback

        class R:
            problems = [{"kind": "machinery", "at_event": 0, "what": traceback.format_exc()[-1200:]}]
            known_events, counts, events = [], {}, []
        return Summary(R)


def build(chk=None):
    okx, outx = vlib.coq_make(["theories/Refs/Extract.vo"])
    okm, outm, mx = vlib.ocaml_build("refs", "mx_refs")
    okh, outh, (c08_exe, lsmtree_exe) = vlib.cargo_build(["c08", "lsmtree"])
    build.lsmtree_exe = lsmtree_exe
    if not (okx and okm):
        raise RuntimeError("model build failed:\n" + outx[-1500:] + outm[-1500:])
    if not okh:
        raise RuntimeError("harness build failed (does /repo still compile?):\n" + outh[-3000:])
    return c08_exe, mx


def load_corpus():
    d = os.path.join(vlib.VERIF, "corpus", "C08")
    out = []
    if os.path.isdir(d):
        for fn in sorted(os.listdir(d)):
            if fn.endswith(".json"):
                c = json.load(open(os.path.join(d, fn)))
                out.append(("corpus_" + fn[:-5], c.get("options", "tiny-files"), c["ops"], c.get("universe", ["61", "62", "63"])))
    return out


def run(chk):
    ok_proof, info = vlib.proof_stage(chk, PROPS, MODULE, const_areas=("Refs",), pins_rel="pins/C08.v")
    c08_exe, mx = build(chk)
    rng = vlib.Rng(chk.seed * 1000003 + 8)
    n_hist = 32 if chk.tier == "quick" else 300
    cases = load_corpus()
    ncorpus = len(cases)
    for i in range(n_hist):
        optname = OPTION_ORDER[i % len(OPTION_ORDER)]
        ops, universe = gen_history(rng.fork(), rng.choice([60, 120, 200] if chk.tier == "quick" else [120, 250, 400]), optname)
        cases.append(("h%d" % i, optname, ops, universe))
    jobs = [(c08_exe, mx, optname, ops, "c08_%s_%d" % (name, chk.seed), universe) for name, optname, ops, universe in cases]
    with multiprocessing.Pool(min(len(jobs), max(2, vlib.NCPU - 2))) as pool:
        results = pool.map(_job, jobs, chunksize=1)
        # stage ingest-fault: EIO at every system call of LsmTree::ingest on a bare tree (checks/c08_fault.py)
        f_cov, f_prop, f_corr, f_mach = c08_fault.run_stage(chk, vlib.Rng(chk.seed * 7919 + 808), build.lsmtree_exe,
                                                            lambda f, a: pool.map(f, a, chunksize=1))

    known = {k[1]: k[2] for k in vlib.known_findings("C08") if k[0] == "known"}
    totals = {}
    shapes = set()
    prop_bad, corr_bad, mach_bad = [], [], []
    for (name, optname, ops, universe), r in zip(cases, results):
        for k, v in r.counts.items():
            totals[k] = totals.get(k, 0) + v
        c = r.counts
        if c.get("flush", 0) >= 2 and (c.get("merge", 0) + c.get("gc", 0)) >= 1 and (c.get("take", 0) + c.get("verify_ok", 0) + c.get("vkill", 0)) >= 1:
            shapes.add(json.dumps(ops)[:3000])
        first_known = min([e[2] for e in r.known_events if e[0] in known], default=None)
        k_names = set(e[3] for e in r.known_events if e[0] in known and len(e) > 3)
        for e in r.known_events:
            if e[0] in known:
                chk.known(e[0], known[e[0]])
        # what a known event of K-verifier-by-name excuses in the rest of that history: the verifier
        # failing / waiting on the named setsum (`verifier`), and the model no longer following the
        # verifier's own directories (`corr` on trash, trash logs, fragments, the verifier's manifest).
        # Store data is never touched in this class: `needed`, `read`, `error`, `incarnation` of another
        # name and `corr` on sst/, the manifest, the reference counts or the root's logs are never excused.
        def excused(p):
            if first_known is None or p["at_event"] < first_known:
                return False
            if p["kind"] == "verifier":
                return True
            if p["kind"] == "incarnation":
                return p.get("name") in k_names
            if p["kind"] == "corr":
                return p.get("what", "").split(" ")[0] in ("trash", "tlogs", "frags", "vstrs", "vm")
            return False
        fresh = [p for p in r.problems if not excused(p)]
        unlisted = [e for e in r.known_events if e[0] not in known]
        replay = {"name": name, "options": optname, "ops": ops, "universe": universe, "problems": fresh[:8],
                  "known_events": [list(e) for e in r.known_events[:5]], "events_tail": [list(e) for e in r.events]}
        if any(p["kind"] == "machinery" for p in fresh):
            mach_bad.append(replay)
        elif any(p["kind"] in ("needed", "read", "error", "verifier", "incarnation") for p in fresh) or unlisted:
            prop_bad.append(replay)
        elif fresh:
            corr_bad.append(replay)

    chk.coverage.update({
        "evaluations": len(cases), "distinct_nontrivial": len(shapes),
        "rule": "random single-stepped histories under 5 option sets (one of them cuts compaction outputs where earlier files were cut, so setsums are re-created): puts/deletes, flushes, 1..40 compaction steps, reopens, snapshots and scan cursors held across retirements and released later, a reader's release placed between a compaction's hard_link and its manifest edit (hook), a selected compaction performed on a second thread while a reader lets go of a snapshot, held before it pins an output that only the snapshot references and let go from inside the release callback of that sst (racedrop), two or three compactions selected together (as by several compaction threads) with the whole perform phase of one placed between another's linking of its outputs and its manifest edit, phases separated by pairs of reopens with the manifest rolling over on open only (re-created setsums stay in the live MANIFEST while the verifier reads older fragments), complete verifier passes, verifier passes in their own process killed before their j-th unlink (strace), store processes killed at their j-th rename; corpus first; non-trivial = at least 2 flushes, 1 merging/GC compaction and 1 snapshot or verifier pass; distinct = distinct op lists",
        "samples": [cases[ncorpus][2][:14] if len(cases) > ncorpus else [], cases[-1][2][:14]],
        "input_distribution": totals, "corpus_cases": ncorpus, "option_sets": sorted(OPTION_SETS),
        "traces_validated_against_impl": len(cases) - len(mach_bad),
        "steps_compared_with_model": totals.get("compare", 0),
        "disagreements_impl_vs_model": len(corr_bad), "disagreements_impl_vs_property": len(prop_bad),
        "machinery_errors": len(mach_bad),
        "trusted_base": [
            "Coq 8.16.1 kernel (coqc, full .vo build)",
            "extraction via ExtrOcamlBasic + ocaml/refs/mx_refs.ml",
            "harness/src/bin/c08.rs and the cfg(blue_verif) hooks in lsmtk (single-step, dump, verif_refs, verif_snapshot, verif_set_point_hook)",
            "checks/c08_run.py (lock-step replay; names, roll-overs and log replays are read off the implementation and given to the model as oracle inputs)",
            "strace -e inject (SIGKILL before the j-th unlink / rename)",
            "model atomicity: Manifest::apply (C13), the critical section under the compaction mutex, ReferenceCounter::inc_and/dec_and, the read-only decision part of process_one",
        ],
    })
    chk.assumptions = [
        "direct oracle for the verifier by incarnation: an sst it unlinks must not be added again by an edit it has not verified (later fragment on disk or the live MANIFEST), except inside the known class K-verifier-by-name (re-created while the recorded intent named it)",
        "the setsum of a memtable's sst is fresh: no compaction in flight produces it (an acceptance condition of the model's EFlush / ECompact events)",
        "in the main model Manifest::apply is atomic and durable (property C13) and process death is the only fault; I/O errors are modelled on the ingest path only (Refs/IngestFault.v: one fallible system call at a time), not on flush, compaction or the verifier",
        "file contents and the selector are outside this model (C01, C05, C10, C20); names are what matters here",
    ]
    chk.coverage["ingest_fault_stage"] = f_cov
    chk.coverage["rule"] += "; stage ingest-fault: bare LsmTree sessions (0..9 earlier ssts, 0..3 ingests earlier in the session so that the manifest rolls over inside the target ingest, a stray MANIFEST.tmp, duplicates), the target ingest recorded with strace and re-run with EIO injected at each of its system calls in turn, then a follow-up ingest in the same process and a fresh process"
    chk.coverage["evaluations"] += f_cov["faulted_ingests"]
    chk.coverage["disagreements_impl_vs_model"] += len(f_corr)
    chk.coverage["disagreements_impl_vs_property"] += len(f_prop)
    chk.coverage["machinery_errors"] += len(f_mach)
    prop_bad += [dict(b, ops=[]) for b in f_prop]
    corr_bad += f_corr
    mach_bad += f_mach
    if prop_bad:
        for b in prop_bad[:3]:
            chk.violation("c08_%s.json" % b["name"], dict(b, kind="property"))
    elif corr_bad or mach_bad or not ok_proof:
        chk.violation("c08_unproved.json", {"kind": "no-failing-input-found", "broken": info.get("broken", []),
                                            "correspondence": corr_bad[:3], "machinery": mach_bad[:2]}, no_input=True)


def replay(path):
    obj = json.load(open(path))
    print(json.dumps({k: obj[k] for k in obj if k not in ("ops",)}, indent=1)[:4000])
    if obj.get("stage") == "ingest-fault":
        return replay_fault(obj)
    cases = [obj] if "ops" in obj else (obj.get("correspondence", []) + obj.get("machinery", []))
    if not cases:
        return 1
    c08_exe, mx = build()
    rc = 0
    for c in cases:
        r = run_history(c08_exe, mx, c.get("options", "tiny-files"), c["ops"], "c08_replay", c.get("universe", ["61", "62", "63"]))
        print("problems now:", json.dumps(r.problems[:10], indent=1)[:4000])
        print("known events:", r.known_events[:10])
        if r.problems:
            rc = 1
    return rc


def replay_fault(obj):
    """a replay of the ingest-fault stage: re-run its case"""
    _, _ = build()
    import multiprocessing as mp
    class _C:
        tier, work, seed = "quick", os.path.join(vlib.VERIF, "work", "C08_replay"), 1
    case = obj["case"]
    for k in ("setup", "pre"):
        case[k] = [[(bytes.fromhex(a), b, None if c is None else bytes.fromhex(c)) for a, b, c in e] for e in case[k]]
    for k in ("target", "follow"):
        case[k] = [(bytes.fromhex(a), b, None if c is None else bytes.fromhex(c)) for a, b, c in case[k]]
    r = c08_fault.run_case((build.lsmtree_exe, os.path.join(_C.work, "ingest_fault"), case))
    model, _ = c08_fault.model_eval(_C, r["model_cases"])
    corr = c08_fault.compare(r, model or {})
    print("problems now:", json.dumps(r["problems"][:10], indent=1)[:4000])
    print("correspondence now:", json.dumps(corr[:10], indent=1)[:4000])
    return 1 if (r["problems"] or corr) else 0
