"""checks/c02_fault.py - stage `open-fault` of C02: KeyValueStore::open of a directory with a history (flushed ssts,
compactions, and the last writes in the log only), with an I/O error (EIO) injected by strace at EVERY system call
the opening thread makes on the directory before open returns - the read side (stat, open, read/pread, getdents)
as well as the mutating calls of log replay and orphan clean-up - one at a time.

Judged directly against the property ("reopening yields a state that contains every acknowledged write ... and
nothing else; never needs manual repair"): the faulted open fails, or succeeds and reads exactly what an
undisturbed reopen reads; it neither panics nor hangs; and an undisturbed reopen afterwards succeeds and reads
exactly that.  For the mutating calls the directory left behind is the image of a fault at that call, which the
theorems C02_fault_surfaced / C02_fault_leaves_recoverable cover; the read-side faults have no counterpart in
Crash/Model.v (reads do not fail there): for them this stage is a direct test, stated as such in DESIGN.md."""
import os
import re
import shutil
import subprocess

import vlib

TRACE = "openat,read,pread64,write,fdatasync,fsync,link,linkat,rename,renameat,renameat2,unlink,unlinkat,statx,newfstatat,stat,getdents64,mkdir,mkdirat,rmdir,ftruncate"
OPTS = ["--memtable-size-bytes", "4096", "--sst-target-file-size", "300", "--sst-minimum-file-size", "100", "--sst-target-block-size", "100"]


def sess(exe, d, script, trace=None, inject=None, timeout=60):
    cmd = [exe, d] + OPTS
    if trace or inject:
        st = ["strace", "-f", "-y", "-s", "64", "-o", trace or "/dev/null", "-e", "trace=" + TRACE]
        if inject:
            st += ["-e", "inject=%s:error=EIO:when=%d" % inject]
        cmd = st + cmd
    try:
        p = subprocess.run(cmd, input=("\n".join(script) + "\n").encode(), stdout=subprocess.PIPE, stderr=subprocess.DEVNULL, timeout=timeout)
        return p.stdout.decode("utf-8", "replace").split("\n")
    except subprocess.TimeoutExpired:
        return ["HANG"]


def open_calls(tr, root):
    """calls of the first (opening) thread that touch `root`, up to the write of the OPEN line"""
    counts, out, first = {}, [], None
    for line in open(tr, errors="replace"):
        m = re.match(r"(\d+)\s+(\w+)\((.*)$", line)
        if not m:
            continue
        pid, sysc, rest = m.groups()
        if first is None:
            first = pid
        if pid != first:
            continue
        if sysc == "write" and '"OPEN ' in rest:
            break
        counts[sysc] = counts.get(sysc, 0) + 1
        if root in rest:
            what = re.findall(re.escape(root) + r"/?([A-Za-z0-9_./]*)", rest)
            out.append((sysc, counts[sysc], "%s %s" % (sysc, ",".join(w[:24] for w in what[:2]))))
    return out


def run_case(args):
    exe, workroot, i, seed = args[:4]
    given = args[4] if len(args) > 4 else None
    rng = vlib.Rng(seed)
    base = os.path.join(workroot, "c%d" % i)
    shutil.rmtree(base, ignore_errors=True)
    os.makedirs(base)
    keys = ["%02x" % (0x61 + j) for j in range(6)]
    script = []
    for _ in range(rng.range(2, 5)):
        for _ in range(rng.range(1, 6)):
            k = rng.choice(keys)
            script.append("del %s" % k if rng.chance(1, 4) else "put %s %02x" % (k, rng.below(256)))
        if rng.chance(2, 3):
            script.append("flush")
        for _ in range(rng.below(3)):
            script.append("compact")
    if given is not None:
        script = list(given)
    res = {"name": "of%d" % i, "script": script, "problems": [], "faults": 0, "open_failed": 0, "open_ok": 0, "calls": {}, "skipped": None}
    d0 = os.path.join(base, "d0")
    sess(exe, d0, script)
    probe = ["getall " + ",".join(keys)]
    dry = os.path.join(base, "dry")
    shutil.copytree(d0, dry, symlinks=True)
    a = sess(exe, dry, probe, trace=os.path.join(base, "dry.trace"))
    if not a or a[0] != "OPEN ok" or len(a) < 2:
        res["skipped"] = "undisturbed reopen: %s" % a[:1]
        shutil.rmtree(base, ignore_errors=True)
        return res
    expected = a[1]
    for k, (sysc, ordn, what) in enumerate(open_calls(os.path.join(base, "dry.trace"), dry)):
        d = os.path.join(base, "k%d" % k)
        shutil.copytree(d0, d, symlinks=True)
        a = sess(exe, d, probe, inject=(sysc, ordn))
        res["faults"] += 1
        res["calls"][sysc] = res["calls"].get(sysc, 0) + 1
        rp = {"fault_call_index": k, "fault": "EIO at %s (call %d of that kind in the opening thread)" % (what, ordn)}
        r0 = a[0] if a else "NOOUT"
        if r0 == "OPEN ok":
            res["open_ok"] += 1
            if len(a) < 2 or a[1] != expected:
                res["problems"].append(dict(rp, what="the faulted open succeeded but reads differ from the acknowledged state", got=a[1:2], expected=expected))
        elif r0.startswith("OPEN err"):
            res["open_failed"] += 1
        else:
            res["problems"].append(dict(rp, what="the faulted open panicked, hung or died: %s" % r0[:80]))
        b = sess(exe, d, probe)
        if not b or b[0] != "OPEN ok":
            res["problems"].append(dict(rp, what="after the faulted open an undisturbed reopen fails: %s" % (b[:1],)))
        elif len(b) < 2 or b[1] != expected:
            res["problems"].append(dict(rp, what="after the faulted open an undisturbed reopen reads another state", got=b[1:2], expected=expected))
        shutil.rmtree(d, ignore_errors=True)
    shutil.rmtree(base, ignore_errors=True)
    return res


def run_stage(chk, exe, pool_map):
    n = 12 if chk.tier == "quick" else 150
    workroot = "/dev/shm/c02-openfault-%d" % os.getpid() if os.path.isdir("/dev/shm") else os.path.join(chk.work, "openfault")
    os.makedirs(workroot, exist_ok=True)
    try:
        results = pool_map(run_case, [(exe, workroot, i, chk.seed * 104729 + i) for i in range(n)])
    finally:
        shutil.rmtree(workroot, ignore_errors=True)
    cov = {"histories": n, "skipped": sum(1 for r in results if r["skipped"]), "faulted_opens": sum(r["faults"] for r in results),
           "open_failed": sum(r["open_failed"] for r in results), "open_succeeded": sum(r["open_ok"] for r in results), "calls_faulted": {}}
    for r in results:
        for k, v in r["calls"].items():
            cov["calls_faulted"][k] = cov["calls_faulted"].get(k, 0) + v
    bad = [{"stage": "open-fault", "name": r["name"], "script": r["script"], "options": OPTS, "problems": r["problems"][:6]} for r in results if r["problems"]]
    return cov, bad
