"""C13 — manifest edits are atomic and durable; reopening replays exactly those applied.

Decided by: theorems of coq/theories/Mani/Props_C13.v over the executable model Mani/Model.v
(format: Edit, writer, BufRead::lines, ManifestIterator, read_mani), Mani/Fs.v (file-system model with
hard links, durable prefixes, crash models a/b) and Mani/ModelMani.v (open / _apply / rollover /
verify).  Tied to the code on every run by
  (1) histories  — random edit / rollover / reopen / torn-tail histories on the real `mani::Manifest`
                   vs the extracted model (results, in-memory state, full directory image incl. hard
                   links, Manifest::verify), and vs the direct oracle (reopen = fold of the applied
                   edits; fragments chain, checked by an independent Python reader),
  (2) format     — files (valid, every truncation, malformed incl. invalid UTF-8) through the real
                   ManifestIterator / Manifest::open vs the model, and vs the oracle "a cut file
                   reads as a prefix of the edits or fails with `corruption`",
  (3) crash      — the real Manifest runs under strace; the recorded mutating calls are compared
                   with the model's predicted call sequence; crash images (every prefix of the calls x
                   every cut of MANIFEST's unsynced tail) are materialised from the RECORDED calls,
                   re-opened by the real code, and compared with the model's verdict and with the
                   oracle (state after a prefix of the edits >= the acknowledged ones, or
                   `corruption`; fragments still chain)."""
import json
import os
import re
import shutil

import multiprocessing

import vlib
import c13_fault

META = {
    "category": "proof",
    "technique": "Coq model + theorems; differential runs against the extracted model; strace-recorded system calls replayed into crash images; EIO injected at every system call of Manifest::open (direct judgment)",
    "text": "Coq theorems (Mani/Props_C13.v, closed under the global context) over an executable model of mani/src/lib.rs (Edit, writer, BufRead::lines, ManifestIterator::next, read_mani, open/_apply/rollover/verify) on a small file-system model with hard links and durable prefixes: a transition system of open/apply/rollover/close with a crash at ANY prefix of the mutating system calls of any operation (process death or power loss with arbitrary torn tails), any number of times; proved for all histories: reopening yields the acknowledged state or that plus the one whole edit in flight, or fails with corruption (never a panic, an I/O error, a lost acknowledged edit or a partial edit); crash-free reopen = fold of all edits; process-death crashes always reopen; the fragments chain and Manifest::verify reports nothing on any open manifest, also after crashes; parse(serialise) and iterator round trips; every truncation of a fragment reads as a prefix (>= the complete edits) or fails — no assumption on the checksum; the Edit API accepts exactly what the reader takes back (so the class 'strings containing every non-newline byte' of the property's quantifier is, since fix 23237de, REJECTED AT THE API — empty, non-ASCII and CR-terminated strings and the keys + - get `string-disallowed` — rather than stored: the theorems are over wf_str, and every run checks the rejection on the real code); a cut of MANIFEST in a directory with a history reopens to a prefix of the applied edits; the lock file is exclusive across processes; all u64 rollover ratios (saturating product).  Tied to the code on every run by differential runs (real Manifest vs extracted model vs independent Python oracle) incl. strace-recorded call sequences, crash images materialised from the recorded calls (re-opened twice), and real SIGKILL injections. Stages open-fault and apply-fault: EIO injected at every system call of Manifest::open and of the last apply (roll-over included); the open fails or yields exactly the state, an apply under a fault leaves the state before the edit or the whole edit (with it when acknowledged), and inside an apply that returned the error no mutating call follows the failed one (the tie to the crash theorems).",
    "note": "Trusted: Coq kernel; extraction (ExtrOcamlBasic) + ocaml/mani driver (supplies crc32c); harness c13; strace; the OS semantics of Mani/Fs.v (completed calls atomic and ordered, link/rename/unlink/create durable on return, data durable up to the last fdatasync); single writer = theorem over the lock-file model Mani/Lock.v (fcntl record locks: one owning process, released when the process closes any descriptor of the file), exercised on two real processes; I/O faults and foreign file names in the directory are outside the model; unreadable strings (empty, non-ASCII, CR-terminated, keys + -) are rejected at the Edit API, not stored.",
}

PROPS = "theories/Mani/Props_C13.v"
MODULE = "Mani.Props_C13"
SEP = b"--------"

# ------------------------------------------------------------------ independent reference
_CRC_TABLE = []
for _i in range(256):
    _c = _i
    for _ in range(8):
        _c = (_c >> 1) ^ 0x82F63B78 if _c & 1 else _c >> 1
    _CRC_TABLE.append(_c)


def crc32c(data):
    c = 0xFFFFFFFF
    for b in data:
        c = _CRC_TABLE[(c ^ b) & 0xFF] ^ (c >> 8)
    return c ^ 0xFFFFFFFF


def crc_line(line):
    return b"%08x" % crc32c(line) + line + b"\n"


def py_wf_str(b):
    """what the reader can take back: non-empty ASCII, no newline, no trailing CR"""
    return len(b) > 0 and all(c < 128 for c in b) and 10 not in b and b[-1] != 13


def py_wf_key(cp):
    return cp < 128 and cp not in (10, 43, 45)


class Edit:
    def __init__(self):
        self.add, self.rm, self.info = set(), set(), {}

    def ser(self):
        out = b""
        for p in sorted(self.rm):
            out += crc_line(b"-" + p)
        for p in sorted(self.add):
            out += crc_line(b"+" + p)
        for k in sorted(self.info):
            out += crc_line(chr(k).encode("utf-8") + self.info[k])
        return out + SEP + b"\n"

    def show(self):
        return "{%s/%s/%s}" % (",".join(x.hex() for x in sorted(self.add)), ",".join(x.hex() for x in sorted(self.rm)),
                               ",".join("%d:%s" % (k, self.info[k].hex()) for k in sorted(self.info)))


class St:
    def __init__(self, strs=(), info=None):
        self.strs, self.info = set(strs), dict(info or {})

    def apply(self, e):
        s = St(self.strs, self.info)
        for p in e.rm:
            s.strs.discard(p)
        for p in e.add:
            s.strs.add(p)
        s.info.update(e.info)
        return s

    def show(self):
        return "{%s/%s}" % (",".join(x.hex() for x in sorted(self.strs)),
                            ",".join("%d:%s" % (k, self.info[k].hex()) for k in sorted(self.info)))

    def rollup(self):
        e = Edit()
        e.add = set(self.strs)
        e.info = dict(self.info)
        return e


def py_read(data):
    """independent reader for well-formed fragments: list of edits, or None if anything is odd
    (used only for the chain oracle on files the implementation wrote itself)"""
    edits, cur = [], Edit()
    for raw in data.split(b"\n"):
        if raw == b"":
            continue
        if raw == SEP:
            edits.append(cur)
            cur = Edit()
            continue
        if len(raw) <= 9:
            return None
        try:
            want = int(raw[:8], 16)
        except ValueError:
            return None
        if crc32c(raw[8:]) != want:
            return None
        a, payload = raw[8], raw[9:]
        if a == 43:
            cur.add.add(payload)
        elif a == 45:
            cur.rm.add(payload)
        else:
            cur.info[a] = payload
    return edits


# ------------------------------------------------------------------ generators
ASCII_POOL = [b"a", b"b", b"thing one", b"thing two", b"x" * 40, b"y" * 300, b"+plus", b"-minus", b"--------", b"-------",
              b"---------", b" ", b"\t", b"\x00", b"\x7f", b"a\rb", b"\rstart", b"0123456789abcdef" * 4, b"string:1_2_3",
              b"fb93e8e143482d6eef570088782f6bee22e519dc17a4ef56347a65d5fddf7b6a", b"sst/000001.sst", b"=", b"+", b"-"]
BAD_POOL = ["", "a\r", "\r", "café", "\u0080", "߿", "￿", "\U0001f600", "x\ny", "\n", "tailé\r", "é"]
KEYS_GOOD = [ord(c) for c in "IODCARTSLM129az "] + [0, 13, 9, 127, 42, 44, 46]
KEYS_BAD = [43, 45, 10, 128, 233, 0x7FF, 0xFFFF, 0x1F600]
RATIOS = [0, 1, 1, 2, 2, 2, 3, 5, 10, 1000, 2**32, 2**63, 2**64 - 1]


def gen_good_str(rng, pool):
    if pool and rng.chance(1, 2):
        return rng.choice(pool)
    k = rng.below(10)
    if k < 4:
        s = rng.choice(ASCII_POOL)
    elif k < 8:
        n = rng.choice([1, 1, 2, 3, 7, 8, 9, 10, 17, 31, 64, 120])
        s = bytes(rng.choice([rng.range(32, 126), rng.range(0, 127)]) for _ in range(n))
        s = s.replace(b"\n", b"_")
        if s.endswith(b"\r"):
            s = s[:-1] + b"."
    else:
        s = b"s%d" % rng.below(8)
    if not py_wf_str(s):
        s = b"fallback"
    pool.append(s)
    return s


def gen_raw_ops(rng, pool, live, stats, bad_ok=True):
    """raw Edit operations of one edit: list of strings 'a:HEX' / 'r:HEX' / 'i:CP:HEX'"""
    raws = []
    shape = rng.below(20)
    if shape == 0:
        return raws                      # empty edit
    nadd, nrm, ninfo = rng.below(4), rng.below(3), rng.below(3)
    if shape == 1:
        nadd, nrm, ninfo = rng.range(5, 14), 0, 0
    for _ in range(nrm):
        if live and rng.chance(3, 4):
            s = rng.choice(sorted(live))
        else:
            s = gen_good_str(rng, pool)
        raws.append("r:" + s.hex())
        stats["rm"] += 1
    for _ in range(nadd):
        s = gen_good_str(rng, pool)
        raws.append("a:" + s.hex())
        stats["add"] += 1
    for _ in range(ninfo):
        k = rng.choice(KEYS_GOOD)
        v = gen_good_str(rng, pool)
        raws.append("i:%d:%s" % (k, v.hex()))
        stats["info"] += 1
    if bad_ok and rng.chance(1, 6):
        # strings / keys the reader cannot take back (F13): must be rejected by the Edit
        kind = rng.below(4)
        if kind == 0:
            raws.append("a:" + rng.choice(BAD_POOL).encode("utf-8").hex())
        elif kind == 1:
            raws.append("r:" + rng.choice(BAD_POOL).encode("utf-8").hex())
        elif kind == 2:
            raws.append("i:%d:%s" % (rng.choice(KEYS_BAD), gen_good_str(rng, pool).hex()))
        else:
            raws.append("i:%d:%s" % (rng.choice(KEYS_GOOD), rng.choice(BAD_POOL).encode("utf-8").hex()))
        stats["unreadable_raw"] += 1
    # order of the raw ops does not matter for sets; shuffle lightly
    if len(raws) > 1 and rng.chance(1, 2):
        i, j = rng.below(len(raws)), rng.below(len(raws))
        raws[i], raws[j] = raws[j], raws[i]
    return raws


def gen_history(rng, stats, with_cut=True, max_ops=None):
    ratio = rng.choice(RATIOS)
    ops = ["open"]
    pool, live = [], set()
    n = max_ops or rng.range(3, 16)
    rname = "ratio_%s" % (ratio if ratio < 2**32 else {2**32: "2^32", 2**63: "2^63", 2**64 - 1: "2^64-1"}[ratio])
    stats[rname] = stats.get(rname, 0) + 1
    for _ in range(n):
        k = rng.below(100)
        if k < 60:
            raws = gen_raw_ops(rng, pool, live, stats)
            for r in raws:
                p = r.split(":")
                if p[0] == "a":
                    live.add(bytes.fromhex(p[1]))
            ops.append(("apply " + " ".join(raws)).strip())
            stats["apply"] += 1
        elif k < 68:
            ops.append("rollover")
            stats["rollover"] += 1
        elif k < 80:
            ops += ["close", "open"]
            stats["reopen"] += 1
        elif k < 88 and with_cut:
            cut = rng.choice([0, 1, 7, 8, 9, 10, 17, 18, 19, rng.below(60), rng.below(200), rng.below(600)])
            ops += ["close", "cut %d" % cut, "open", "dump"]
            stats["cut"] += 1
        elif k < 94:
            ops.append("verify")
        else:
            ops.append("dump")
    ops += ["dump", "verify", "close", "open", "dump", "verify"]
    return "ratio=%d; " % ratio + "; ".join(ops)


def gen_wf_edits(rng, stats):
    pool, live, edits = [], set(), []
    for _ in range(rng.range(1, 5)):
        raws = gen_raw_ops(rng, pool, live, stats, bad_ok=False)
        e = Edit()
        for r in raws:
            p = r.split(":")
            if p[0] == "a":
                e.add.add(bytes.fromhex(p[1]))
                live.add(bytes.fromhex(p[1]))
            elif p[0] == "r":
                e.rm.add(bytes.fromhex(p[1]))
            else:
                e.info[int(p[1])] = bytes.fromhex(p[2])
        edits.append(e)
    return edits


MUT_BYTES = [13, 10, 43, 45, 0x80, 0xC3, 0xE2, 0xF0, 0xFF, 0x00, 0x20, 0x41, 0x67]


def mutate(rng, data, stats):
    d = bytearray(data)
    kind = rng.below(12)
    stats["mut_kind_%d" % kind] = stats.get("mut_kind_%d" % kind, 0) + 1
    if not d:
        return bytes([rng.choice(MUT_BYTES)])
    i = rng.below(len(d))
    if kind == 0:
        d[i] ^= 1 << rng.below(8)
    elif kind == 1:
        d[i] = rng.choice(MUT_BYTES)
    elif kind == 2:
        d.insert(i, rng.choice(MUT_BYTES))
    elif kind == 3:
        del d[i]
    elif kind == 4:
        # uppercase the hex of one line
        ls = bytes(d).split(b"\n")
        j = rng.below(len(ls))
        ls[j] = ls[j][:8].upper() + ls[j][8:]
        d = bytearray(b"\n".join(ls))
    elif kind == 5:
        # "\n" -> "\r\n" on one line (accepted: lines() strips it)
        ls = bytes(d).split(b"\n")
        j = rng.below(len(ls))
        ls[j] = ls[j] + b"\r"
        d = bytearray(b"\n".join(ls))
    elif kind == 6:
        # a leading '0' of a checksum replaced by '+' (accepted by from_str_radix)
        ls = bytes(d).split(b"\n")
        cands = [j for j, l in enumerate(ls) if len(l) > 9 and l[:1] == b"0"]
        if cands:
            j = rng.choice(cands)
            ls[j] = b"+" + ls[j][1:]
        else:
            j = rng.below(len(ls))
            ls[j] = b"+" + ls[j][1:]
        d = bytearray(b"\n".join(ls))
    elif kind == 7:
        # drop one whole line (a separator, often)
        ls = bytes(d).split(b"\n")
        del ls[rng.below(len(ls))]
        d = bytearray(b"\n".join(ls))
    elif kind == 8:
        # duplicate a line
        ls = bytes(d).split(b"\n")
        j = rng.below(len(ls))
        ls.insert(j, ls[j])
        d = bytearray(b"\n".join(ls))
    elif kind == 9:
        # a well-checksummed line the writer never produces: empty payload / CR tail / non-ASCII / key +/-
        body = rng.choice([b"+", b"-", b"K", b"+abc\r", b"+caf\xc3\xa9", b"\xc3\xa9v", b"Kv\r", b"+ok", b"\nv", b"\rvalue"])
        line = b"%08x" % crc32c(body) + body + b"\n"
        ls = bytes(d).split(b"\n")
        j = rng.below(len(ls))
        d = bytearray(b"\n".join(ls[:j]) + (b"\n" if j else b"") + line + b"\n".join(ls[j:]))
    elif kind == 10:
        d += bytes(rng.choice(MUT_BYTES) for _ in range(rng.range(1, 12)))
    else:
        # splice two positions
        j = rng.below(len(d))
        d = d[:min(i, j)] + d[max(i, j):]
    return bytes(d)


# ------------------------------------------------------------------ running
def run_lines(exe, lines, workdir, tag, marker=None, timeout=3000):
    p = os.path.join(workdir, tag + ".in")
    with open(p, "w") as fh:
        fh.write("\n".join(lines) + "\n")
    rc, out = vlib.sh("%s < %s" % (exe, p), timeout=timeout)
    res = out.split("\n")
    if marker:
        res = [r[len(marker):].lstrip(" ") for r in res if r.startswith(marker)]
    elif res and res[-1] == "":
        res.pop()
    return rc, res


def split_case(line):
    parts = [p.strip() for p in line.split(";") if p.strip()]
    return parts[0], parts[1:]


def canon_fs(item):
    """fs[NAME@INO=HEX(/DUR)?,...] -> names sorted, inode numbers replaced by the first name that has them"""
    body = item[3:-1]
    ents = []
    if body:
        for e in body.split(","):
            m = re.match(r"([^@]+)@(\d+)=([0-9a-f]*)(?:/(\d+))?$", e)
            if not m:
                return item
            ents.append((m.group(1), m.group(2), m.group(3)))

    def key(n):
        return (0, 0) if n == "M" else (1, 0) if n == "T" else (2, int(n[1:])) if n[0] == "B" and n[1:].isdigit() else (3, 0)
    ents.sort(key=lambda e: key(e[0]))
    first = {}
    for n, ino, _ in ents:
        first.setdefault(ino, n)
    return "fs[" + ",".join("%s@%s=%s" % (n, first[ino], d) for n, ino, d in ents) + "]"


def canon_out(line, for_model):
    """canonical comparable form of one output line: per op list of items; model-only items dropped"""
    ops = line.split(" ;; ")
    res = []
    for o in ops:
        items = [i.strip() for i in o.split(" | ")] if o.strip() else []
        keep = []
        for it in items:
            if it.startswith("tr[") or it.startswith("sw[") or it == "~":
                continue
            if it.startswith("fs["):
                it = canon_fs(it)
            keep.append(it)
        res.append(" | ".join(keep))
    return res


def parse_fs(item):
    """canonical fs item -> {name: (group, bytes)}"""
    out = {}
    body = item[3:-1]
    if body:
        for e in body.split(","):
            n, rest = e.split("@", 1)
            g, h = rest.split("=", 1)
            out[n] = (g, bytes.fromhex(h))
    return out


def chain_errors(files):
    """independent statement of 'the fragments chain without gaps': backups are 1..k, each next
    fragment's first edit is the roll-up of the previous fragment's final state"""
    ids = sorted(int(n[1:]) for n in files if n.startswith("B"))
    errs = []
    if ids and ids != list(range(ids[0], ids[0] + len(ids))):
        errs.append("backup ids not contiguous: %s" % ids)
    frags = [("B%d" % i) for i in ids] + (["M"] if "M" in files else [])
    prev = None
    for n in frags:
        eds = py_read(files[n][1])
        if eds is None:
            errs.append("fragment %s unreadable by the reference reader" % n)
            prev = None
            continue
        st = St()
        for e in eds:
            st = st.apply(e)
        if prev is not None:
            if not eds:
                errs.append("fragment %s is empty but has a predecessor" % n)
            else:
                f = eds[0]
                if f.rm or f.add != prev.strs or f.info != prev.info:
                    errs.append("fragment %s does not start with the state at the end of its predecessor" % n)
        prev = st
    return errs


class HistoryOracle:
    """walks the ops of a history with the implementation's outputs and states the property itself"""

    def __init__(self):
        self.fail = None
        self.mani_exists = False

    def bad(self, msg):
        if self.fail is None:
            self.fail = msg

    def walk(self, ops, outs):
        lineage = [St()]
        is_open, cut_pending, open_ok = False, False, True
        torn_ever = False
        for idx, (op, out) in enumerate(zip(ops, outs)):
            t = op.split()
            items = [i.strip() for i in out.split(" | ")] if out.strip() else []
            if "PANIC" in items or "vfPANIC" in items:
                self.bad("op %d `%s` panicked" % (idx, op[:60]))
                return
            if "BAD" in items:
                continue
            if t[0] == "open":
                r = items[0] if items else ""
                if r == "ok":
                    is_open, open_ok = True, True
                elif r == "err:corruption" and cut_pending:
                    open_ok = False
                    torn_ever = True
                else:
                    self.bad("op %d open failed with `%s` although nothing was cut" % (idx, r))
                    return
            elif t[0] == "close":
                is_open = False
            elif t[0] in ("selfopen", "lockprobe", "foreign"):
                # the exclusive lock file: while a handle is live nobody else gets in — not a second
                # open inside the process, not another process
                r = items[0] if items else ""
                want = {"selfopen": ("self:lock-not-obtained", "self:opened"), "lockprobe": ("lock:locked", "lock:free"),
                        "foreign": ("foreign:locked", "foreign:ok")}[t[0]][0 if is_open else 1]
                if r.split(" ")[0] != want:
                    self.bad("op %d `%s`: %s (expected %s) — %s" % (idx, op[:40], r[:60], want,
                             "the manifest lock no longer excludes others while a handle is live" if is_open else "the lock was not released"))
                    return
                if t[0] == "foreign" and not is_open:
                    # the other process legitimately ran its ops; which edits it really applied is read
                    # from its own per-op results (an op can fail: rollover of a never-written manifest)
                    subs = [x.strip() for x in " ".join(t[1:]).split("/")]
                    ress = r.split(" ", 1)[1].split("/") if " " in r else []
                    for sub, res in zip(subs, ress):
                        st_ = sub.split()
                        if st_ and st_[0] == "apply" and res.startswith("chk[") and res.endswith(",ok"):
                            flags = res[4:res.index("]")].split(",") if not res.startswith("chk[]") else []
                            e = Edit()
                            for raw, fl in zip(st_[1:], flags):
                                if fl != "ok":
                                    continue
                                p = raw.split(":")
                                if p[0] == "a":
                                    e.add.add(bytes.fromhex(p[1]))
                                elif p[0] == "r":
                                    e.rm.add(bytes.fromhex(p[1]))
                                else:
                                    e.info[int(p[1])] = bytes.fromhex(p[2])
                            lineage.append(lineage[-1].apply(e))
                            self.mani_exists = True
            elif t[0] == "cut":
                cut_pending = True
                # an arbitrary cut may destroy durable (synced) text, e.g. the roll-up a fragment
                # starts with: the state after the cut must still be a prefix state, but the cut
                # fragment can no longer be expected to chain (chaining under crashes, where only
                # unsynced tails are lost, is checked in the crash phase)
                torn_ever = True
            elif t[0] == "apply":
                if not is_open:
                    continue
                chk = items[0]
                res = items[1] if len(items) > 1 else ""
                flags = chk[4:-1].split(",") if chk != "chk[]" else []
                e = Edit()
                for raw, fl in zip(t[1:], flags):
                    if fl != "ok":
                        continue
                    p = raw.split(":")
                    if p[0] == "a":
                        e.add.add(bytes.fromhex(p[1]))
                    elif p[0] == "r":
                        e.rm.add(bytes.fromhex(p[1]))
                    else:
                        e.info[int(p[1])] = bytes.fromhex(p[2])
                if res != "ok":
                    self.bad("op %d apply returned `%s`" % (idx, res))
                    return
                lineage.append(lineage[-1].apply(e))
                self.mani_exists = True
            elif t[0] == "rollover":
                if is_open and items and items[0] != "ok":
                    if items[0] == "err:io-error" and not self.mani_exists:
                        # Manifest::rollover on a directory that never had a MANIFEST: hard_link fails
                        # with ENOENT; nothing was applied, nothing is lost (the harness drops the handle)
                        is_open = False
                        continue
                    self.bad("op %d rollover returned `%s`" % (idx, items[0]))
                    return
            elif t[0] == "dump":
                st = items[0]
                if st != "st-":
                    got = st[2:]
                    if cut_pending:
                        # first observation after a torn tail: any prefix state is allowed
                        js = [j for j in range(len(lineage)) if lineage[j].show() == got]
                        if not js:
                            self.bad("op %d: after cutting MANIFEST the reopened state %s is not the state after any prefix of the applied edits" % (idx, got[:200]))
                            return
                        if js[-1] != len(lineage) - 1:
                            # the cut destroyed acknowledged (synced) edits: damage beyond the crash
                            # model; the state is still a prefix state, but the cut fragment can no
                            # longer be expected to chain
                            torn_ever = True
                        lineage = lineage[:js[-1] + 1]
                        cut_pending = False
                    elif got != lineage[-1].show():
                        self.bad("op %d: state %s differs from the fold of the applied edits %s" % (idx, got[:200], lineage[-1].show()[:200]))
                        return
                if len(items) > 1 and open_ok and not cut_pending and not torn_ever:
                    ce = chain_errors(parse_fs(canon_fs(items[1])))
                    if ce:
                        self.bad("op %d: %s" % (idx, ce[0]))
                        return
            elif t[0] == "verify":
                if open_ok and not cut_pending and not torn_ever and items and items[0] != "vf[]":
                    self.bad("op %d: Manifest::verify reports %s on a manifest that opened cleanly" % (idx, items[0]))
                    return


# ------------------------------------------------------------------ strace
def _dec(s):
    return bytes(int(h, 16) for h in re.findall(r"\\x([0-9a-f]{2})", s))


def _short(path, root):
    path = path.decode("utf-8", "replace")
    if os.path.dirname(path) != root:
        return None
    b = os.path.basename(path)
    if b == "MANIFEST":
        return "M"
    if b == "MANIFEST.tmp":
        return "T"
    m = re.match(r"MANIFEST\.(\d+)$", b)
    if m:
        return "B%d" % int(m.group(1))
    if b == "LOCKFILE":
        return None
    return "?" + b


def parse_strace(text, root):
    """-> list of segments (one per op marker), each a list of call tuples"""
    segs, cur = [], []
    for ln in text.splitlines():
        m = re.match(r"\d+\s+(\w+)\((.*)\)\s+=\s+(-?\d+)", ln)
        if not m:
            continue
        name, args, ret = m.group(1), m.group(2), int(m.group(3))
        strs = re.findall(r'"((?:\\x[0-9a-f]{2})*)"(\.\.\.)?', args)
        fds = re.findall(r"(\d+)<((?:\\x[0-9a-f]{2})*)>", args)
        if name == "write" and fds and fds[0][0] == "1":
            data = _dec(strs[0][0]) if strs else b""
            if data.startswith(b"@@OP "):
                segs.append(cur)
                cur = []
            continue
        if ret < 0:
            # a failing mutating call on a manifest file is itself an observation
            paths = [_short(_dec(s[0]), root) for s in strs]
            if name not in ("openat", "open") and any(p for p in paths):
                cur.append(("failed-" + name,) + tuple(p or "" for p in paths))
            continue
        if name in ("openat", "open", "creat"):
            if "O_CREAT" in args or name == "creat":
                p = _short(_dec(strs[0][0]), root)
                if p:
                    cur.append(("open", p))
        elif name in ("write", "pwrite64", "writev"):
            if fds:
                p = _short(_dec(fds[0][1]), root)
                if p:
                    if strs and strs[0][1]:
                        cur.append(("write-truncated-in-log", p))
                    else:
                        cur.append(("write", p, _dec(strs[0][0]).hex() if strs else ""))
        elif name in ("fdatasync", "fsync"):
            if fds:
                p = _short(_dec(fds[0][1]), root)
                if p:
                    cur.append(("sync", p))
        elif name in ("link", "linkat", "rename", "renameat", "renameat2"):
            a, b = _short(_dec(strs[0][0]), root), _short(_dec(strs[1][0]), root)
            if a or b:
                cur.append(("link" if name.startswith("link") else "rename", a or "", b or ""))
        elif name in ("unlink", "unlinkat"):
            p = _short(_dec(strs[0][0]), root)
            if p:
                cur.append(("unlink", p))
        elif name in ("ftruncate", "truncate"):
            cur.append(("truncate",))
    return segs


def parse_model_trace(item):
    calls = []
    body = item[3:-1]
    for m in re.finditer(r"(\w+)\(([^)]*)\)", body):
        calls.append((m.group(1),) + tuple(m.group(2).split(",")))
    return calls


class PyFs:
    """third, independent rendering of the file-system semantics, used to materialise crash images
    from the RECORDED calls"""

    def __init__(self):
        self.dir, self.ino = {}, []

    def copy(self):
        f = PyFs()
        f.dir = dict(self.dir)
        f.ino = [[bytes(d), n] for d, n in self.ino]
        return f

    def do(self, c):
        k = c[0]
        if k.startswith("failed-"):
            return
        if k == "open":
            if c[1] not in self.dir:
                self.dir[c[1]] = len(self.ino)
                self.ino.append([b"", 0])
        elif k == "write":
            i = self.dir[c[1]]
            self.ino[i][0] = self.ino[i][0] + bytes.fromhex(c[2])
        elif k == "sync":
            i = self.dir[c[1]]
            self.ino[i][1] = len(self.ino[i][0])
        elif k == "link":
            if c[2] in self.dir:
                raise KeyError("link target exists")
            self.dir[c[2]] = self.dir[c[1]]
        elif k == "unlink":
            del self.dir[c[1]]
        elif k == "rename":
            self.dir[c[2]] = self.dir.pop(c[1])
        else:
            raise KeyError("call %s cannot be replayed" % (c,))

    def bounds(self, name):
        if name not in self.dir:
            return (0, 0)
        d, n = self.ino[self.dir[name]]
        return (min(n, len(d)), len(d))

    def data(self, name):
        return self.ino[self.dir[name]][0] if name in self.dir else b""

    def materialise(self, path, which, cut):
        """write the image; the inode of `which` ('M' or 'T') keeps only `cut` bytes"""
        os.makedirs(path)
        names = {"M": "MANIFEST", "T": "MANIFEST.tmp"}
        done = {}
        mi = self.dir.get(which)
        for n, i in sorted(self.dir.items()):
            fn = os.path.join(path, names.get(n, "MANIFEST." + n[1:]))
            if i in done:
                os.link(done[i], fn)
            else:
                data = self.ino[i][0]
                if i == mi and cut is not None:
                    data = data[:cut]
                with open(fn, "wb") as fh:
                    fh.write(data)
                done[i] = fn


STRACE_CALLS = "openat,open,creat,write,pwrite64,writev,fsync,fdatasync,link,linkat,unlink,unlinkat,rename,renameat,renameat2,ftruncate,truncate"


def boundary_cuts(lo, hi, data, rng, full, extra=0):
    if full or hi - lo <= 24:
        return list(range(lo, hi + 1))
    pts = {lo, lo + 1, lo + 7, lo + 8, lo + 9, lo + 10, hi, hi - 1, hi - 8, hi - 9, hi - 10}
    for i, b in enumerate(data[lo:hi], start=lo):
        if b == 10:
            pts.update((i, i + 1, i + 2))
    pts = sorted(p for p in pts if lo <= p <= hi)
    if len(pts) > 14:
        keep = {pts[0], pts[-1], pts[-2]}
        while len(keep) < 14:
            keep.add(rng.choice(pts))
        pts = sorted(keep)
    pts += [rng.range(lo, hi) for _ in range(3 + extra)]
    return sorted(set(pts))


# ------------------------------------------------------------------ the check
def apply_edit_of(op, ack_items):
    """the Edit an `apply` op really applied, from the harness's own chk[..] flags"""
    t = op.split()
    if t[0] != "apply" or not ack_items or not ack_items[0].startswith("chk["):
        return None
    flags = ack_items[0][4:-1].split(",") if ack_items[0] != "chk[]" else []
    e = Edit()
    for raw, fl in zip(t[1:], flags):
        if fl == "ok":
            p = raw.split(":")
            if p[0] == "a":
                e.add.add(bytes.fromhex(p[1]))
            elif p[0] == "r":
                e.rm.add(bytes.fromhex(p[1]))
            else:
                e.info[int(p[1])] = bytes.fromhex(p[2])
    return e


def crash_phase(chk, crash_cases, hxbin, mx, rng, quick, cstats, prop_bad, corr_bad, distinct):
    """histories under strace; crash points chosen on the RECORDED calls; images materialised and
    re-opened twice by the real code; the model is asked for the same points"""
    shm = "/dev/shm" if os.path.isdir("/dev/shm") else chk.work
    croot = os.path.join(shm, "c13-crash-%d" % os.getpid())
    shutil.rmtree(croot, ignore_errors=True)
    os.makedirs(croot)
    evaluations = 0
    try:
        img_lines, img_meta = [], []
        model_cases, model_plans = [], []
        for ci, (case, tag) in enumerate(crash_cases):
            hd, ops = split_case(case)
            ratio = int(hd.split("=")[1])
            root = os.path.join(croot, "h%d" % ci)
            log = os.path.join(croot, "h%d.strace" % ci)
            cin = os.path.join(croot, "case.in")
            with open(cin, "w") as fh:
                fh.write(case + "\n")
            rc, out = vlib.sh("strace -f -y -s 4000000 -xx -e trace=%s -o %s %s --exec %s < %s" % (STRACE_CALLS, log, hxbin, root, cin), timeout=120)
            acks = [l for l in out.splitlines() if l.startswith("@@OP ")]
            segs = parse_strace(open(log).read(), root) if os.path.exists(log) else []
            if os.path.exists(log):
                os.remove(log)
            shutil.rmtree(root, ignore_errors=True)
            shutil.rmtree(root + ".scratch", ignore_errors=True)
            cstats["histories"] += 1
            evaluations += 1
            if len(segs) != len(ops) or len(acks) != len(ops):
                corr_bad.append({"tag": tag, "kind": "crash", "case": case, "what": "strace segments %d / acks %d / ops %d" % (len(segs), len(acks), len(ops)), "out": out[-500:]})
                continue
            lineage = [St()]
            fsys = PyFs()
            mops, plan = [], []
            full = (not quick) or tag.startswith("corpus")
            for oi, (o, seg, ack) in enumerate(zip(ops, segs, acks)):
                parts = ack.split(" ", 2)
                aitems = [i.strip() for i in parts[2].split(" | ")] if len(parts) > 2 else []
                cstats["calls_recorded"] += len(seg)
                e = apply_edit_of(o, aitems)
                new_state = lineage[-1].apply(e) if e is not None else None
                if o.split()[0] in ("open", "apply", "rollover"):
                    mops.append("trace " + o)
                    plan.append(("trace", {"tag": tag, "case": case, "op_index": oi, "op": o, "recorded_calls": seg}))
                    allowed = [lineage[-1].show()] + ([new_state.show()] if new_state is not None else [])
                    ks = list(range(len(seg) + 1))
                    cstats["crash_points_total"] += len(ks)
                    if not full and len(ks) > 4:
                        ks = sorted(set([0, len(seg)] + [rng.range(0, len(seg)) for _ in range(3)]))
                    cstats["crash_points_sampled"] += len(ks)
                    for kpt in ks:
                        f2 = fsys.copy()
                        try:
                            for c in seg[:kpt]:
                                f2.do(c)
                        except KeyError as ex:
                            corr_bad.append({"tag": tag, "kind": "crash-replay", "case": case, "op_index": oi, "what": "recorded calls cannot be replayed: %s" % ex, "recorded_calls": seg})
                            break
                        lo, hi = f2.bounds("M")
                        tlo, thi = f2.bounds("T")
                        # MANIFEST: every cut of a short unsynced tail (thorough / corpus), else line boundaries
                        # +-2, the ends and random cuts; MANIFEST.tmp (whose content only matters as a
                        # stale file for the next rollover): boundaries and random cuts only
                        cuts = [("M", n, lo, hi) for n in boundary_cuts(lo, hi, f2.data("M"), rng, full and hi - lo <= 160, extra=0 if quick else 24)]
                        if thi > tlo:
                            cuts += [("T", n, tlo, thi) for n in boundary_cuts(tlo, thi - 1, f2.data("T"), rng, False)]
                        for wh, n, blo, bhi in cuts:
                            d = os.path.join(croot, "img%d" % len(img_lines))
                            f2.materialise(d, wh, n)
                            img_lines.append("@img %s %d" % (d, ratio))
                            meta = {"tag": tag, "case": case, "op_index": oi, "op": o, "calls_done": kpt, "cut_file": wh, "kept": n, "len": bhi,
                                    "durable": blo, "allowed": allowed, "model": None, "recorded_calls": seg[:kpt],
                                    "op_issued_no_call": all(c[0].startswith("failed-") for c in seg)}
                            img_meta.append(meta)
                            mops.append("point %d %s %d %s" % (kpt, wh, n, o))
                            plan.append(("point", meta))
                            cstats["images"] += 1
                            cstats["images_torn"] += (n < bhi)
                mops.append(o)
                plan.append(("op", None))
                try:
                    for c in seg:
                        fsys.do(c)
                except KeyError:
                    break
                if new_state is not None and len(aitems) > 1 and aitems[1] == "ok":
                    lineage.append(new_state)
            model_cases.append(hd + "; " + "; ".join(mops))
            model_plans.append(plan)
        # the model on the same histories and the same crash points
        if model_cases:
            rcm, mout = run_lines(mx, model_cases, chk.work, "crash_model")
            if len(mout) != len(model_cases):
                raise RuntimeError("crash model output mismatch: %s" % "\n".join(mout[-3:]))
            for plan, mline in zip(model_plans, mout):
                mitems = mline.split(" ;; ")
                if len(mitems) != len(plan):
                    raise RuntimeError("crash model op count mismatch %d vs %d" % (len(mitems), len(plan)))
                for (kind, info), it in zip(plan, mitems):
                    it = it.strip()
                    if kind == "point":
                        info["model"] = it[3:] if it.startswith("pt:") else it
                    elif kind == "trace":
                        seg = info["recorded_calls"]
                        if it.startswith("tr["):
                            mt = parse_model_trace(it)
                            same = [tuple(c) for c in mt] == [tuple(c) for c in seg]
                        else:
                            # the model says the operation fails before issuing a successful call
                            mt = it
                            same = all(c[0].startswith("failed-") for c in seg)
                        if not same:
                            cstats["trace_mismatches"] += 1
                            b = dict(info)
                            b.update({"kind": "crash-trace", "model_calls": mt})
                            corr_bad.append(b)
        # the real code on every image
        if img_lines:
            rc, ires = run_lines(hxbin, img_lines, chk.work, "img", marker="@@")
            if len(ires) != len(img_lines):
                raise RuntimeError("image result count mismatch %d vs %d" % (len(ires), len(img_lines)))
            for meta, res in zip(img_meta, ires):
                evaluations += 1
                items = [i.strip() for i in res.split(" | ")] + ["", "", "", ""]
                opr, vf, opr2, vf2 = items[0], items[1], items[2], items[3]
                why = None
                if opr.startswith("S"):
                    cstats["reopen_state"] += 1
                    if opr[1:] not in meta["allowed"]:
                        why = "after a crash the manifest reopens to a state that is not the state after a prefix of the applied edits containing all acknowledged ones"
                    elif vf != "vf[]":
                        why = "after a crash and a successful reopen the fragments do not chain: Manifest::verify reports %s" % vf
                    elif opr2 != opr:
                        why = "the manifest left behind by the reopen after a crash does not reopen to the same state (second open: %s)" % opr2[:120]
                    elif vf2 != "vf[]":
                        why = "after a crash and two reopens the fragments do not chain: Manifest::verify reports %s" % vf2
                elif opr == "Ecorruption":
                    cstats["reopen_corruption"] += 1
                    if meta["cut_file"] == "T" or meta["kept"] == meta["len"]:
                        why = "an image in which MANIFEST is not torn (crash between two system calls, or only MANIFEST.tmp torn) does not reopen"
                else:
                    why = "reopening a crash image gives %s (neither a state nor an explicit corruption error)" % opr
                got = "%s~%s~%s~%s" % (opr, vf, opr2, vf2)
                distinct.add(("img", meta["case"], meta["op_index"], meta["calls_done"], meta["cut_file"], meta["kept"]))
                if why:
                    b = dict(meta)
                    b.update({"kind": "crash-image", "what": why, "impl_out": res})
                    prop_bad.append(b)
                elif meta["model"] == "BAD" and meta["op_issued_no_call"]:
                    pass    # the model says the operation fails before its first call, and so it did
                elif meta["model"] is not None and got != meta["model"]:
                    b = dict(meta)
                    b.update({"kind": "crash-image", "impl": got})
                    corr_bad.append(b)
    finally:
        shutil.rmtree(croot, ignore_errors=True)
    return evaluations


def traced_calls(text, root):
    """every call strace shows (successful or not) in order, as (syscall name, manifest call or
    None); strace's `inject=NAME:when=J` counts the invocations of NAME"""
    out = []
    for ln in text.splitlines():
        m = re.match(r"\d+\s+(\w+)\((.*)\)\s+=\s+(-?\d+)", ln)
        if not m:
            continue
        one = parse_strace(ln + "\n" + ("0 write(1<\\x2f>, \"\\x40\\x40\\x4f\\x50\\x20\", 5) = 5\n"), root)
        call = one[0][0] if one and one[0] else None
        out.append((m.group(1), call))
    return out


def real_dir_image(path):
    """(name -> bytes, groups of names sharing an inode) of a real manifest directory"""
    files, inos = {}, {}
    if os.path.isdir(path):
        for fn in sorted(os.listdir(path)):
            if fn == "LOCKFILE":
                continue
            fp = os.path.join(path, fn)
            st = os.stat(fp)
            with open(fp, "rb") as fh:
                files[fn] = fh.read()
            inos.setdefault(st.st_ino, []).append(fn)
    return files, sorted(sorted(v) for v in inos.values())


def pyfs_image(f):
    names = {"M": "MANIFEST", "T": "MANIFEST.tmp"}
    files, inos = {}, {}
    for n, i in f.dir.items():
        fn = names.get(n, "MANIFEST." + n[1:])
        files[fn] = bytes(f.ino[i][0])
        inos.setdefault(i, []).append(fn)
    return files, sorted(sorted(v) for v in inos.values())


def sigkill_validation(chk, cases, hxbin, rng, nkills, cstats, corr_bad):
    """the process is really killed (strace fault injection) on entering its N-th traced call; the
    directory it leaves behind must be the image the replay of the recorded calls predicts"""
    shm = "/dev/shm" if os.path.isdir("/dev/shm") else chk.work
    kroot = os.path.join(shm, "c13-kill-%d" % os.getpid())
    shutil.rmtree(kroot, ignore_errors=True)
    os.makedirs(kroot)
    done = 0
    try:
        for ci, (case, tag) in enumerate(cases):
            if done >= nkills:
                break
            cin = os.path.join(kroot, "case.in")
            with open(cin, "w") as fh:
                fh.write(case + "\n")
            root = os.path.join(kroot, "rec%d" % ci)
            log = os.path.join(kroot, "rec.strace")
            vlib.sh("strace -f -y -s 4000000 -xx -e trace=%s -o %s %s --exec %s < %s" % (STRACE_CALLS, log, hxbin, root, cin), timeout=120)
            calls = traced_calls(open(log).read(), root) if os.path.exists(log) else []
            shutil.rmtree(root, ignore_errors=True)
            shutil.rmtree(root + ".scratch", ignore_errors=True)
            idx = [g for g, (nm, c) in enumerate(calls) if c is not None and not c[0].startswith("failed-")]
            if not idx:
                continue
            for g in sorted(set(rng.choice(idx) for _ in range(2))):
                kdir = os.path.join(kroot, "kill%d_%d" % (ci, g))
                name = calls[g][0]
                j = sum(1 for nm, _ in calls[:g + 1] if nm == name)
                vlib.sh("strace -f -o /dev/null -e trace=%s -e inject=%s:signal=SIGKILL:when=%d %s --exec %s < %s" % (name, name, j, hxbin, kdir, cin), timeout=120)
                f = PyFs()
                ok = True
                for _, c in calls[:g]:
                    if c is not None:
                        try:
                            f.do(tuple(x.replace(root, kdir) if isinstance(x, str) else x for x in c))
                        except KeyError:
                            ok = False
                got, want = real_dir_image(kdir), pyfs_image(f)
                cstats["sigkill_runs"] = cstats.get("sigkill_runs", 0) + 1
                done += 1
                if not ok or got != want:
                    cstats["sigkill_mismatches"] = cstats.get("sigkill_mismatches", 0) + 1
                    corr_bad.append({"tag": tag, "kind": "sigkill-image", "case": case, "killed_on_entering_call": g,
                                     "real": {k: v.hex() for k, v in got[0].items()}, "real_links": got[1],
                                     "replayed": {k: v.hex() for k, v in want[0].items()}, "replayed_links": want[1]})
                shutil.rmtree(kdir, ignore_errors=True)
                shutil.rmtree(kdir + ".scratch", ignore_errors=True)
    finally:
        shutil.rmtree(kroot, ignore_errors=True)


def lock_spec(events):
    """the property of an exclusive lock, stated directly: a try-lock succeeds iff no handle is live
    anywhere (in any process); unlock drops that process's newest handle"""
    live = {0: 0, 1: 0}
    out = []
    for ev in events:
        p, c = int(ev[:-1]), ev[-1]
        if c == "l":
            if live[0] + live[1] == 0:
                live[p] += 1
                out.append("got")
            else:
                out.append("none")
        else:
            if live[p] > 0:
                live[p] -= 1
                out.append("ok")
            else:
                out.append("nohandle")
    return out


def gen_lock_events(rng):
    evs = []
    for _ in range(rng.range(3, 12)):
        k = rng.below(10)
        p = rng.below(2)
        evs.append("%d%s" % (p, "l" if k < 7 else "u"))
    return evs


def gen_lock_history(rng, stats):
    ops = ["open"]
    is_open = True
    pool, live = [], set()
    for _ in range(rng.range(3, 9)):
        k = rng.below(10)
        if k < 3 and is_open:
            raws = gen_raw_ops(rng, pool, live, stats, bad_ok=False)
            ops.append(("apply " + " ".join(raws)).strip())
        elif k < 5:
            ops.append("selfopen")
        elif k < 6:
            ops.append("lockprobe")
        elif k < 8:
            sub = []
            for _ in range(rng.range(1, 3)):
                if rng.chance(1, 4):
                    sub.append("rollover")
                else:
                    sub.append(("apply " + " ".join(gen_raw_ops(rng, pool, live, stats, bad_ok=False))).strip())
            ops.append("foreign " + " / ".join(sub))
        elif is_open:
            ops.append("close")
            is_open = False
        else:
            ops.append("open")
            is_open = True
    if not is_open:
        ops.append("open")
    ops += ["dump", "verify", "close", "open", "dump", "verify"]
    return "ratio=%d; " % rng.choice([1, 2, 3, 1000]) + "; ".join(ops)


def source_literals_ok():
    """the literals the model retypes from mani/src/lib.rs (no numeric consts exist there)"""
    src = open(os.path.join(vlib.REPO, "mani", "src", "lib.rs")).read()
    want = ['const TX_SEPARATOR: &str = "--------";', 'join("MANIFEST")', 'join("MANIFEST.tmp")', 'format!("MANIFEST.{idx}")',
            "log_rollover_ratio.saturating_mul(in_memory_bytes)", "line.len() > 9", "&line[..8], 16", "line.as_bytes()[8..]", "&line[9..]", '{cksum:08x}{line}\\n', "log_rollover_ratio: 2,"]
    return [w for w in want if w not in src]


def run(chk):
    import time
    t_phase, phases = [time.time()], {}

    def lap(name):
        phases[name] = round(time.time() - t_phase[0], 1)
        t_phase[0] = time.time()
    ok_proof, info = vlib.proof_stage(chk, PROPS, MODULE, const_areas=("Mani",), pins_rel="pins/C13.v")
    missing = source_literals_ok()
    if missing:
        info["broken"].append("source literals the model retypes changed: %s" % missing)
        ok_proof = False

    okx, outx = vlib.coq_make(["theories/Mani/Extract.vo"])
    okm, outm, mx = vlib.ocaml_build("mani", "mx_mani")
    okh, outh, (hxbin,) = vlib.cargo_build(["c13"])
    if not (okx and okm):
        raise RuntimeError("model build failed:\n" + outx[-1500:] + outm[-1500:])
    if not okh:
        raise RuntimeError("harness build failed (does /repo still compile?):\n" + outh[-3000:])

    quick = chk.tier == "quick"
    lap("proof_and_builds")
    rng = vlib.Rng(chk.seed * 1000003 + 13)
    stats = {k: 0 for k in ["apply", "rollover", "reopen", "cut", "add", "rm", "info", "unreadable_raw"]}
    known = {cls: what for kind, cls, what in vlib.known_findings("C13") if kind == "known"}
    prop_bad, corr_bad = [], []
    distinct = set()
    evaluations = 0

    # ---------------------------------------------------------------- (1) histories
    corpus = load_corpus()
    hist_cases = [(c["case"], "corpus:" + fn) for c, fn in corpus if c.get("kind") == "history"]
    n_hist = 500 if quick else 15000
    r1 = rng.fork()
    for k in range(n_hist):
        hist_cases.append((gen_history(r1, stats), "hist%d" % k))
    rc, impl = run_lines(hxbin, [c for c, _ in hist_cases], chk.work, "hist_impl", marker="@@")
    rc2, model = run_lines(mx, [c for c, _ in hist_cases], chk.work, "hist_model")
    if len(impl) != len(hist_cases) or len(model) != len(hist_cases):
        raise RuntimeError("history output line count mismatch impl=%d model=%d cases=%d\n%s" % (len(impl), len(model), len(hist_cases), "\n".join(model[-3:])))
    for (case, tag), io, mo in zip(hist_cases, impl, model):
        evaluations += 1
        hd, ops = split_case(case)
        ci, cm = canon_out(io, False), canon_out(mo, True)
        if sum(1 for o in ops if o.startswith("apply ")) >= 2:
            distinct.add(case)
        orc = HistoryOracle()
        orc.walk(ops, ci)
        if orc.fail:
            prop_bad.append({"tag": tag, "kind": "history", "case": case, "what": orc.fail, "impl_out": io, "model_out": mo})
        elif ci != cm:
            d = next((i for i, (a, b) in enumerate(zip(ci, cm)) if a != b), min(len(ci), len(cm)))
            corr_bad.append({"tag": tag, "kind": "history", "case": case, "first_diff_op": d, "op": ops[d] if d < len(ops) else None,
                             "impl": ci[d] if d < len(ci) else None, "model": cm[d] if d < len(cm) else None})

    lap("histories")
    # ---------------------------------------------------------------- (2) format
    r2 = rng.fork()
    fstats = {"valid": 0, "truncations": 0, "malformed": 0, "impl_err_classes": {}}
    n_files = 150 if quick else 2000
    fmt_ops = []      # (op string, oracle)
    for c, fn in corpus:
        if c.get("kind") == "format":
            fmt_ops.append(("readfile " + c["hex"], ("none",)))
            fmt_ops.append(("iter " + c["hex"], ("none",)))
    for _ in range(n_files):
        edits = gen_wf_edits(r2, stats)
        data = b"".join(e.ser() for e in edits)
        states = [St()]
        for e in edits:
            states.append(states[-1].apply(e))
        ends, pos = [0], 0
        for e in edits:
            pos += len(e.ser())
            ends.append(pos)
        fmt_ops.append(("readfile " + data.hex(), ("state", states[-1].show())))
        fmt_ops.append(("iter " + data.hex(), ("items", "it[" + ",".join("E" + e.show() for e in edits) + "]")))
        fstats["valid"] += 1
        for n in boundary_cuts(0, len(data), data, r2, full=(len(data) <= 64) or ((not quick) and len(data) <= 300), extra=0 if quick else 40):
            complete = max(j for j in range(len(ends)) if ends[j] <= n)
            allowed = [s.show() for s in states[complete:]]
            fmt_ops.append(("readfile " + data[:n].hex(), ("prefix", allowed)))
            fstats["truncations"] += 1
        for _ in range(10 if quick else 20):
            m = mutate(r2, data, fstats)
            if r2.chance(1, 4):
                m = mutate(r2, m, fstats)
            fmt_ops.append(("readfile " + m.hex(), ("none",)))
            fmt_ops.append(("iter " + m.hex(), ("none",)))
            fstats["malformed"] += 1
    # pack 40 ops per case line
    fcases = []
    for i in range(0, len(fmt_ops), 40):
        fcases.append("ratio=2; " + "; ".join(o for o, _ in fmt_ops[i:i + 40]))
    rc, impl = run_lines(hxbin, fcases, chk.work, "fmt_impl", marker="@@")
    rc2, model = run_lines(mx, fcases, chk.work, "fmt_model")
    if len(impl) != len(fcases) or len(model) != len(fcases):
        raise RuntimeError("format output line count mismatch impl=%d model=%d cases=%d" % (len(impl), len(model), len(fcases)))
    fi = [x for l in impl for x in l.split(" ;; ")]
    fm = [x for l in model for x in l.split(" ;; ")]
    if len(fi) != len(fmt_ops) or len(fm) != len(fmt_ops):
        raise RuntimeError("format op count mismatch impl=%d model=%d ops=%d" % (len(fi), len(fm), len(fmt_ops)))
    for (op, orc), io, mo in zip(fmt_ops, fi, fm):
        evaluations += 1
        io, mo = io.strip(), mo.strip()
        if len(op) > 40:
            distinct.add(op)
        if io.startswith("op:E"):
            fstats["impl_err_classes"][io[4:]] = fstats["impl_err_classes"].get(io[4:], 0) + 1
        why = None
        if "PANIC" in io:
            why = "the reader panicked"
        elif orc[0] == "state" and io != "op:S" + orc[1]:
            why = "a file holding well-formed edits does not reopen to the fold of those edits"
        elif orc[0] == "items" and io != orc[1]:
            why = "ManifestIterator does not return the edits that were written"
        elif orc[0] == "prefix" and not (io == "op:Ecorruption" or (io.startswith("op:S") and io[4:] in orc[1])):
            why = "a truncated fragment reopens to something that is neither `corruption` nor the state after a prefix (>= the complete edits) of its edits"
        if why:
            prop_bad.append({"tag": "format", "kind": "format", "case": "ratio=2; " + op, "what": why, "impl_out": io, "model_out": mo, "expected": orc[1] if len(orc) > 1 else None})
        elif io != mo:
            corr_bad.append({"tag": "format", "kind": "format", "case": "ratio=2; " + op, "impl": io, "model": mo})

    lap("format")
    # ---------------------------------------------------------------- the exclusive lock file
    # (a) the protocol itself (utilz Lockfile::lock / drop on one file) in two real processes, vs
    #     the extracted model Mani/Lock.v and vs the specification of an exclusive lock;
    # (b) histories with a second open inside the process, lock probes and a second writer process
    rl = rng.fork()
    lstats = {"protocol_cases": 0, "protocol_events": 0, "relock_by_holder": 0, "histories": 0}
    lock_cases = [(c["case"], "corpus:" + fn) for c, fn in corpus if c.get("kind") == "lock-protocol"]
    for k in range(60 if quick else 1500):
        lock_cases.append(("@lock " + " ".join(gen_lock_events(rl)), "lock%d" % k))
    rc, limpl = run_lines(hxbin, [c for c, _ in lock_cases], chk.work, "lock_impl", marker="@@")
    rc2, lmodel = run_lines(mx, [c for c, _ in lock_cases], chk.work, "lock_model")
    if len(limpl) != len(lock_cases) or len(lmodel) != len(lock_cases):
        raise RuntimeError("lock output line count mismatch impl=%d model=%d cases=%d" % (len(limpl), len(lmodel), len(lock_cases)))
    for (case, tag), io, mo in zip(lock_cases, limpl, lmodel):
        evaluations += 1
        evs = case.split()[1:]
        lstats["protocol_cases"] += 1
        lstats["protocol_events"] += len(evs)
        want = lock_spec(evs)
        held = {0: 0, 1: 0}
        for ev, w in zip(evs, want):
            p_ = int(ev[:-1])
            if ev[-1] == "l" and held[p_]:
                lstats["relock_by_holder"] += 1
            if w == "got":
                held[p_] += 1
            elif w == "ok":
                held[p_] -= 1
        if len(evs) >= 4:
            distinct.add(case)
        if io.split() != want:
            d = next((i for i, (a_, b_) in enumerate(zip(io.split(), want)) if a_ != b_), 0)
            prop_bad.append({"tag": tag, "kind": "lock-protocol", "case": case, "impl_out": io, "model_out": mo, "expected": " ".join(want),
                             "what": "the lock file is not exclusive: event %d `%s` answered `%s`, an exclusive lock answers `%s` (two processes, Lockfile::lock on one file)" % (d, evs[d] if d < len(evs) else "?", (io.split() + ["?"] * (d + 1))[d], want[d] if d < len(want) else "?")})
        elif io.split() != mo.split():
            corr_bad.append({"tag": tag, "kind": "lock-protocol", "case": case, "impl": io, "model": mo})
    lh_cases = [(c["case"], "corpus:" + fn) for c, fn in corpus if c.get("kind") == "lock-history"]
    for k in range(12 if quick else 300):
        lh_cases.append((gen_lock_history(rl, stats), "lockhist%d" % k))
    rc, lhimpl = run_lines(hxbin, [c for c, _ in lh_cases], chk.work, "lockhist_impl", marker="@@")
    if len(lhimpl) != len(lh_cases):
        raise RuntimeError("lock history output line count mismatch impl=%d cases=%d" % (len(lhimpl), len(lh_cases)))
    for (case, tag), io in zip(lh_cases, lhimpl):
        evaluations += 1
        lstats["histories"] += 1
        hd, ops = split_case(case)
        distinct.add(case)
        orc = HistoryOracle()
        orc.walk(ops, canon_out(io, False))
        if orc.fail:
            prop_bad.append({"tag": tag, "kind": "lock-history", "case": case, "what": orc.fail, "impl_out": io})
    lock_ok = not any(b["kind"].startswith("lock") for b in prop_bad)
    # ---------------------------------------------------------------- (3) crash points under strace
    r3 = rng.fork()
    cstats = {"histories": 0, "calls_recorded": 0, "trace_mismatches": 0, "images": 0, "images_torn": 0,
              "reopen_corruption": 0, "reopen_state": 0, "crash_points_total": 0, "crash_points_sampled": 0}
    n_crash = 40 if quick else 500
    crash_cases = [(c["case"], "corpus:" + fn) for c, fn in corpus if c.get("kind") == "crash"]
    for k in range(n_crash):
        crash_cases.append((gen_history(r3, stats, with_cut=False, max_ops=r3.range(2, 7)), "crash%d" % k))
    n_eval = crash_phase(chk, crash_cases, hxbin, mx, r3, quick, cstats, prop_bad, corr_bad, distinct)
    evaluations += n_eval
    # real kills (strace fault injection): the directory a killed process leaves behind is the image
    # that the replay of its recorded calls predicts
    sigkill_validation(chk, crash_cases, hxbin, r3, 6 if quick else 120, cstats, corr_bad)
    evaluations += cstats.get("sigkill_runs", 0)
    lap("crash")
    # ---------------------------------------------------------------- (4) I/O errors at open (checks/c13_fault.py)
    r4 = rng.fork()
    of_cases = []
    for k in range(16 if quick else 200):
        ops = [o.strip() for o in gen_history(r4, stats, with_cut=False, max_ops=r4.range(2, 9)).split(";")]
        of_cases.append("; ".join(ops[:-6] + ["close"]))
    with multiprocessing.Pool(max(2, vlib.NCPU - 2)) as pool:
        of_cov, of_bad = c13_fault.run_stage(chk, of_cases, hxbin, lambda f, a: pool.map(f, a, chunksize=1))
        af_cov, af_bad, af_corr = c13_fault.run_apply_stage(chk, of_cases, hxbin, lambda f, a: pool.map(f, a, chunksize=1))
    of_cov["apply_fault"] = af_cov
    corr_bad.extend(af_corr)
    evaluations += af_cov["faulted_applies"]
    for b in af_bad:
        prop_bad.append({"kind": "apply-fault", "tag": b["tag"], "case": b["case"], "what": b["problems"][0]["what"] + " - " + b["problems"][0]["fault"],
                         "problems": b["problems"]})
    for b in of_bad:
        prop_bad.append({"kind": "open-fault", "tag": b["tag"], "case": b["case"], "what": b["problems"][0]["what"] + " - " + b["problems"][0]["fault"],
                         "problems": b["problems"]})
    evaluations += of_cov["faulted_opens"]
    lap("open-fault")
    # ---------------------------------------------------------------- evidence
    samples = [hist_cases[len([1 for c, t in hist_cases if t.startswith("corpus")])][0][:600]]
    if fmt_ops:
        samples.append(fmt_ops[min(5, len(fmt_ops) - 1)][0][:300])
    if crash_cases:
        samples.append({"crash_history": crash_cases[-1][0][:400]})
    chk.coverage.update({
        "evaluations": evaluations, "distinct_nontrivial": len(distinct),
        "rule": "one SplitMix64 seed; (1) histories of open/apply/rollover/close/cut/verify/dump with ratios {0,1,2,3,5,10,1000,2^32,2^63,2^64-1}, strings from a boundary pool (1..300 bytes, CR inside, '+'/'-' first, the separator itself, control bytes) plus strings the reader cannot take back (empty, non-ASCII of 2/3/4 bytes, trailing CR, newline, keys + - \\n non-ASCII), non-trivial = at least 2 applies; (2) files: valid serialisations, truncations (all lengths for small files / thorough tier, otherwise line boundaries +-2 and random), 12 kinds of malformed mutants incl. invalid UTF-8, '+' and upper-case checksums, CRLF, well-checksummed unwritable lines; non-trivial = more than 16 bytes; (3) crash: histories under strace, images = prefix of recorded calls x cut of MANIFEST's unsynced tail; distinct = distinct case strings / (history, op, calls, cut); (4) open-fault: histories closed cleanly, then Manifest::open re-run on a copy with EIO injected (strace) at each system call of the open that touches the directory, followed by an undisturbed reopen; and the last apply of the history re-run with EIO at each of its system calls (the roll-over's included), followed by an undisturbed reopen that must yield the state before the edit or the state with the whole edit, the latter when the call had returned success",
        "samples": samples,
        "input_distribution": {"histories": stats, "format": fstats, "crash": cstats, "lock": lstats, "open_fault": of_cov},
        "corpus_cases": len(corpus),
        "correspondence": "impl (Rust, release + overflow-checks + debug-assertions) vs extracted Coq model vs independent Python oracle (fold of edits, prefix states, chain reader, PyFs replay)",
        "disagreements_impl_vs_model": len(corr_bad), "disagreements_impl_vs_spec": len(prop_bad),
        "lock_probe_ok": lock_ok, "phase_seconds": phases,
        "trusted_base": [
            "Coq 8.16.1 kernel (coqc, full .vo build)",
            "extraction via ExtrOcamlBasic (no Extract Constant of ours) + ocaml/mani/mx_mani.ml driver, which supplies crc32c as the model's `crc` argument",
            "harness/src/bin/c13.rs; checks/c13.py (generators, canonicalisation, Python oracle, PyFs replay of recorded calls); strace",
            "OS semantics of Mani/Fs.v: completed calls atomic and ordered; create/link/unlink/rename durable on return; data durable up to the last fdatasync; a torn write keeps a prefix",
            "crc32c is a section variable (any function): no theorem uses a property of the checksum",
            "literals retyped from mani/src/lib.rs (TX_SEPARATOR, 8/9 offsets, file names) are compared with the source text on every run",
        ],
    })
    chk.assumptions = [
        "file-system semantics as in Mani/Fs.v (see trusted_base); I/O faults (EIO, ENOSPC) are not modelled - stage (4) judges Manifest::open under an injected EIO at every one of its system calls directly against the property (fails, or yields exactly the state; never panics; the next undisturbed reopen yields exactly the state), with no theorem behind the read-side faults",
        "one writer at a time is the theorem C13_lock_exclusive over Mani/Lock.v; its kernel side is the POSIX rule 'closing any descriptor of a file releases the process\'s record locks on it' and 'a record lock has one owning process'; the lock file itself is not deleted or replaced under a live handle",
        "no foreign files named MANIFEST.<x> in the directory",
        "strings that are empty, non-ASCII, end in CR or contain a newline, and info keys + - newline non-ASCII are not COVERED by the theorems but REJECTED by Edit::add/rm/info (theorem C13_edit_api_exact: accepted <-> wf_str / wf_key); the generators submit such strings on every run and the check compares the rejection and the unchanged state with the model and the oracle",
    ]

    with open(os.path.join(chk.work, "disagreements.json"), "w") as fh:
        json.dump({"prop_bad": prop_bad[:200], "corr_bad": corr_bad[:200]}, fh, indent=1, default=str)

    # ---------------------------------------------------------------- verdict
    for b in prop_bad:
        cls = classify_known(b, known)
        if cls:
            chk.known(cls, known[cls][:160])
    unknown = [b for b in prop_bad if not classify_known(b, known)]
    if unknown:
        b = unknown[0]
        name = "c13_%s_%s.json" % (b["kind"], str(b["tag"]).replace(":", "_").replace(".json", ""))
        chk.violation(name, {"kind": "property", "what": b["what"], "case": b,
                             "others": [{"tag": x["tag"], "what": x["what"]} for x in unknown[1:6]],
                             "replay_cmd": "./bin/check C13 --replay work/replay/C13/" + name})
    elif corr_bad or not ok_proof:
        chk.violation("c13_unproved.json", {"kind": "no-failing-input-found", "broken": info["broken"],
                                            "correspondence_disagreements": corr_bad[:5]}, no_input=True)


def classify_known(b, known):
    return None


def load_corpus():
    d = os.path.join(vlib.VERIF, "corpus", "C13")
    cases = []
    if os.path.isdir(d):
        for fn in sorted(os.listdir(d)):
            if fn.endswith(".json"):
                with open(os.path.join(d, fn)) as fh:
                    cases.append((json.load(fh), fn))
    return cases


def replay(path):
    with open(path) as fh:
        obj = json.load(fh)
    print(json.dumps(obj, indent=1)[:6000])
    b = obj.get("case")
    if not isinstance(b, dict) or "case" not in b:
        return 1
    okh, outh, (hxbin,) = vlib.cargo_build(["c13"])
    okm, outm, mx = vlib.ocaml_build("mani", "mx_mani")
    work = os.path.join(vlib.WORK, "C13-replay")
    shutil.rmtree(work, ignore_errors=True)
    os.makedirs(work)
    case = b["case"]
    if b.get("kind") == "apply-fault":
        r = c13_fault.run_apply_case((hxbin, work, "replay", case))
        print("problems now:", json.dumps(r["problems"][:8], indent=1)[:4000])
        return 1 if r["problems"] else 0
    if b.get("kind") == "open-fault":
        r = c13_fault.run_case((hxbin, work, "replay", case))
        print("problems now:", json.dumps(r["problems"][:8], indent=1)[:4000])
        return 1 if r["problems"] else 0
    if b.get("kind") == "crash-image":
        # run the history under strace again, rebuild the image, re-open it
        root = os.path.join(work, "h")
        with open(os.path.join(work, "case.in"), "w") as fh:
            fh.write(case + "\n")
        log = os.path.join(work, "strace.log")
        vlib.sh("strace -f -y -s 4000000 -xx -e trace=%s -o %s %s --exec %s < %s" % (STRACE_CALLS, log, hxbin, root, os.path.join(work, "case.in")), timeout=120)
        segs = parse_strace(open(log).read(), root)
        f = PyFs()
        for seg in segs[:b["op_index"]]:
            for c in seg:
                f.do(c)
        for c in segs[b["op_index"]][:b["calls_done"]]:
            f.do(c)
        img = os.path.join(work, "image")
        f.materialise(img, b["cut_file"], b["kept"])
        ratio = int(case.split(";")[0].split("=")[1])
        rc, res = run_lines(hxbin, ["@img %s %d" % (img, ratio)], work, "img", marker="@@")
        print("crash image: history op %d `%s`, %d of its calls done, %s cut to %d of %d bytes" % (b["op_index"], b["op"][:80], b["calls_done"], {"M": "MANIFEST", "T": "MANIFEST.tmp"}[b["cut_file"]], b["kept"], b["len"]))
        print("impl now :", res[0] if res else "(no output)")
        print("allowed  :", b["allowed"], "or Ecorruption (only when MANIFEST itself is torn); verify must be vf[]; a second reopen must give the same state and vf[]")
        r = res[0] if res else ""
        items = [i.strip() for i in r.split(" | ")] + ["", "", "", ""]
        ok = (items[0].startswith("S") and items[0][1:] in b["allowed"] and items[1] == "vf[]" and items[2] == items[0] and items[3] == "vf[]") \
            or (items[0] == "Ecorruption" and b["cut_file"] == "M" and b["kept"] < b["len"])
        return 0 if ok else 1
    rc, impl = run_lines(hxbin, [case], work, "impl", marker="@@")
    rc, model = run_lines(mx, [case], work, "model")
    print("impl now :", impl[0] if impl else "")
    print("model    :", model[0] if model else "")
    if b.get("kind") == "history":
        hd, ops = split_case(case)
        orc = HistoryOracle()
        orc.walk(ops, canon_out(impl[0], False))
        print("oracle   :", orc.fail or "property holds on this case")
        return 1 if orc.fail else 0
    if b.get("kind") == "lock-protocol":
        want = lock_spec(case.split()[1:])
        print("exclusive :", " ".join(want))
        return 0 if impl and impl[0].split() == want else 1
    if b.get("kind") == "lock-history":
        hd, ops = split_case(case)
        orc = HistoryOracle()
        orc.walk(ops, canon_out(impl[0], False))
        print("oracle   :", orc.fail or "property holds on this case")
        return 1 if orc.fail else 0
    print("expected :", b.get("expected"))
    exp = b.get("expected")
    io = impl[0].strip() if impl else ""
    if isinstance(exp, list):
        return 0 if io == "op:Ecorruption" or (io.startswith("op:S") and io[4:] in exp) else 1
    if isinstance(exp, str):
        return 0 if io in ("op:S" + exp, exp) else 1
    return 1
