"""Case generator and helpers for checks/c12.py (C12, the sst write-ahead log).

Everything random comes from the vlib.Rng handed in.  The Python renderings of the varint /
header / entry encodings and of the writer's layout arithmetic in this file are used (1) to STEER
generation (solve batch sizes so that a frame ends a chosen number of bytes before a block
boundary), (2) to BUILD malformed files and (3) to walk well-formed files in the strace check.
They are never the judge of implementation vs model."""
import os
import re
import subprocess

import vlib

K = {"BLOCK_SIZE": 1 << 20, "HEADER_MAX_SIZE": 19, "TABLE_FULL_SIZE": (1 << 30) - (1 << 26),
     "MAX_KEY_LEN": 1 << 14, "MAX_VALUE_LEN": 1 << 15}


def set_constants(c):
    K.update(c)


# ------------------------------------------------------------------ encodings (Python rendering)
def vs(x):
    n = 1
    x >>= 7
    while x:
        n += 1
        x >>= 7
    return n


def varint(x, pad=0):
    """canonical varint; pad>0 appends that many redundant continuation groups (non-canonical)"""
    out = []
    while True:
        b = x & 0x7f
        x >>= 7
        if x or pad:
            out.append(b | 0x80)
        else:
            out.append(b)
            break
        if not x and pad:
            for i in range(pad):
                out.append(0x80 if i + 1 < pad else 0x00)
            break
    return bytes(out)


_CRC_T = []
for _i in range(256):
    _c = _i
    for _ in range(8):
        _c = (_c >> 1) ^ 0x82F63B78 if _c & 1 else _c >> 1
    _CRC_T.append(_c)


def crc32c(b):
    c = 0xFFFFFFFF
    for x in b:
        c = _CRC_T[(c ^ x) & 0xff] ^ (c >> 8)
    return c ^ 0xFFFFFFFF


def gbytes(l, a, b):
    return bytes((a + i * b) % 251 for i in range(l))


class Ent:
    """one entry: put (val not None) or del; key/value are generated patterns g<len>x<a>x<b>"""

    def __init__(self, kind, klen, ts, vlen=0, ka=0, kb=1, va=0, vb=1):
        self.kind, self.klen, self.ts, self.vlen = kind, klen, ts, vlen
        self.ka, self.kb, self.va, self.vb = ka, kb, va, vb

    @staticmethod
    def rand(rng, kind, klen, ts, vlen=0):
        return Ent(kind, klen, ts, vlen, rng.below(251), rng.range(1, 250), rng.below(251), rng.range(1, 250))

    def spec(self):
        def b(l, a, bb):
            if l == 0:
                return "-"
            if l <= 12:
                return gbytes(l, a, bb).hex()
            return "g%dx%dx%d" % (l, a, bb)
        if self.kind == "p":
            return "p%s.%d.%s" % (b(self.klen, self.ka, self.kb), self.ts, b(self.vlen, self.va, self.vb))
        return "d%s.%d" % (b(self.klen, self.ka, self.kb), self.ts)

    def body_size(self):
        s = 2 + 1 + vs(self.klen) + self.klen + 1 + vs(self.ts)
        if self.kind == "p":
            s += 1 + vs(self.vlen) + self.vlen
        return s

    def size(self):
        b = self.body_size()
        return 1 + vs(b) + b

    def accepted(self):
        return self.klen <= K["MAX_KEY_LEN"] and (self.kind == "d" or self.vlen <= K["MAX_VALUE_LEN"])

    def encode(self):
        k = gbytes(self.klen, self.ka, self.kb)
        if self.kind == "p":
            v = gbytes(self.vlen, self.va, self.vb)
            body = b"\x08\x00\x12" + varint(len(k)) + k + b"\x18" + varint(self.ts) + b"\x22" + varint(len(v)) + v
            return b"\x42" + varint(len(body)) + body
        body = b"\x28\x00\x32" + varint(len(k)) + k + b"\x38" + varint(self.ts)
        return b"\x4a" + varint(len(body)) + body


TS_EDGE = [0, 1, 127, 128, 255, 16383, 16384, 2**21 - 1, 2**21, 2**28, 2**32 - 1, 2**32, 2**35, 2**42, 2**49, 2**56, 2**63 - 1, 2**63, 2**64 - 1]


def rand_ts(rng):
    if rng.chance(1, 2):
        return rng.choice(TS_EDGE)
    return rng.below(1 << rng.range(1, 64))


def ts_of_size(rng, n):
    """a timestamp whose varint takes n bytes (1..10)"""
    if n == 1:
        return rng.below(128)
    lo = 1 << (7 * (n - 1))
    hi = min((1 << (7 * n)) - 1, 2**64 - 1)
    return rng.range(lo, hi)


def solve_one(rng, target):
    """one entry of exactly `target` encoded bytes (8 <= target <= ~49 KiB), or None"""
    tries = []
    for tsz in [1, 1, 2, 3, 5, 9, 10, 4, 6, 7, 8]:
        for kind in ("d", "p") if rng.chance(1, 2) else ("p", "d"):
            tries.append((tsz, kind))
    for tsz, kind in tries:
        for body in (target - 2, target - 3, target - 4):
            if body < 6 or 1 + vs(body) + body != target:
                continue
            if kind == "d":
                for k in (body - tsz - 5, body - tsz - 6, body - tsz - 7):
                    if 0 <= k <= K["MAX_KEY_LEN"] and 2 + 1 + vs(k) + k + 1 + tsz == body:
                        return Ent.rand(rng, "d", k, ts_of_size(rng, tsz))
            else:
                k = rng.choice([0, 1, 3, 8, 16, 64, 127, 128, 200])
                rest = body - (2 + 1 + vs(k) + k + 1 + tsz)
                for v in (rest - 2, rest - 3, rest - 4):
                    if 0 <= v <= K["MAX_VALUE_LEN"] and 1 + vs(v) + v == rest:
                        return Ent.rand(rng, "p", k, ts_of_size(rng, tsz), v)
    return None


def solve_entries(rng, target):
    """entries whose encodings total exactly `target` bytes (target >= 8)"""
    out = []
    rem = target
    big = K["MAX_VALUE_LEN"]
    while rem > big + 2000:
        v = rng.choice([big, big, big - rng.below(3000), big - 1])
        e = Ent.rand(rng, "p", rng.choice([1, 8, 16, 64, 200]), rand_ts(rng), v)
        if rem - e.size() < 8:
            break
        out.append(e)
        rem -= e.size()
    if rem > big // 2:
        # split the remainder in two so that each part is solvable
        a = rem // 2
        e = solve_one(rng, a)
        if e is not None:
            out.append(e)
            rem -= a
    e = solve_one(rng, rem)
    if e is None:
        # shave with a minimal del and retry
        for shave in range(8, 40):
            e1, e2 = solve_one(rng, shave), solve_one(rng, rem - shave)
            if e1 is not None and e2 is not None:
                out += [e1, e2]
                return out
        return None
    out.append(e)
    return out


def hdr_len(size):
    return 9 + vs(size)


def frame_len(size):
    return hdr_len(size) + size


def solve_batch_for_frame(rng, total):
    """a batch whose WHOLE frame (header + body) takes exactly `total` bytes"""
    for size in (total - 10, total - 11, total - 12, total - 13, total - 14):
        if size >= 8 and frame_len(size) == total:
            es = solve_entries(rng, size)
            if es is not None:
                return es
    return None


class Layout:
    """Python rendering of the writer's offsets (steering only)"""

    def __init__(self, ro=1 << 30):
        self.bw = 0
        self.ro = ro
        self.frames = []      # (start, kind, header_len, size)
        self.pads = []        # (start, end)
        self.ends = []

    def append(self, size):
        B, H = K["BLOCK_SIZE"], K["HEADER_MAX_SIZE"]
        if size == 0:
            return "empty"
        for _ in range(3):
            nb = (self.bw // B + 1) * B
            new = self.bw + frame_len(size)
            if new >= K["TABLE_FULL_SIZE"] or new > self.ro:
                return "full"
            if new <= nb:
                self.frames.append((self.bw, 1, hdr_len(size), size))
                self.bw = new
                self.ends.append(self.bw)
                return "ok"
            roundup = nb - self.bw
            if roundup <= H:
                if roundup:
                    self.pads.append((self.bw, nb))
                self.bw = nb
                continue
            first = roundup - H
            second = size - first
            self.frames.append((self.bw, 2, hdr_len(first), first))
            self.bw += frame_len(first)
            if nb > self.bw:
                self.pads.append((self.bw, nb))
            self.bw = nb
            self.frames.append((self.bw, 3, hdr_len(second), second))
            self.bw += frame_len(second)
            self.ends.append(self.bw)
            return "ok"
        return "?"


# ------------------------------------------------------------------ cases
class Case:
    def __init__(self, tag, opts, batches, reads, model_idx=None, raw=None, expect=None):
        self.tag = tag
        self.opts = opts                  # dict
        self.batches = batches            # list of list of entry spec strings
        self.raw = raw                    # hex string or None
        self.reads = reads                # list of (muts string, cut string)
        self.model_idx = list(range(len(reads))) if model_idx is None else model_idx
        self.batch_expect = expect if expect is not None else ["any"] * len(batches or [])

    def _line(self, reads, impl):
        o = " ".join("%s=%s" % kv for kv in sorted(self.opts.items()) if impl or kv[0] == "ro")
        b = "raw:" + self.raw if self.raw is not None else ";".join(",".join(es) for es in self.batches)
        r = ";".join("%s@%s" % mc for mc in reads)
        return "%s | %s | %s" % (o, b, r)

    def impl_line(self):
        return self._line(self.reads, True)

    def model_line(self):
        return self._line([self.reads[i] for i in self.model_idx], False)

    def nontrivial(self):
        if self.raw is not None:
            return len(self.raw) >= 4
        return any(self.batches) and len(self.reads) > 0

    def to_json(self):
        return {"opts": self.opts, "batches": self.batches, "raw": self.raw, "reads": self.reads,
                "model_idx": self.model_idx, "expect": self.batch_expect}

    @staticmethod
    def from_json(c, tag):
        return Case(tag, c.get("opts", {}), c.get("batches"), [tuple(r) for r in c["reads"]], c.get("model_idx"),
                    c.get("raw"), c.get("expect"))


def bump(stats, k, n=1):
    stats[k] = stats.get(k, 0) + n


def rand_opts(rng, small):
    o = {}
    if rng.chance(1, 2):
        o["rb"] = rng.choice([1, 2, 7, 19, 20, 64, 4096, 65536])
    if rng.chance(1, 3):
        o["wb"] = rng.choice([1, 7, 64, 4096])
    if rng.chance(1, 4):
        o["sink"] = "file"
    if rng.chance(1, 5 if small else 12):
        o["rd"] = "file"
    return o


def small_entry(rng):
    kl = rng.choice([0, 0, 1, 2, 3, 5, 8, 16, 100, 127, 128, 129, 300])
    if rng.chance(1, 3):
        return Ent.rand(rng, "d", kl, rand_ts(rng))
    vl = rng.choice([0, 0, 1, 2, 7, 20, 100, 127, 128, 129, 500, 2000])
    return Ent.rand(rng, "p", kl, rand_ts(rng), vl)


def gen_small(rng, stats, i):
    """small log, every truncation length on both sides"""
    nb = rng.range(1, 6)
    batches, expect, lay = [], [], Layout()
    for _ in range(nb):
        k = rng.below(20)
        if k == 0:
            es = []
        elif k == 1:
            es = [Ent.rand(rng, "p", K["MAX_KEY_LEN"] + rng.range(0, 1), 5, 3), small_entry(rng)]
        elif k == 2:
            es = [small_entry(rng), Ent.rand(rng, "p", 4, 5, K["MAX_VALUE_LEN"] + rng.range(0, 1))]
        else:
            es = [small_entry(rng) for _ in range(rng.range(1, 5))]
        acc = [e for e in es if e.accepted()]
        size = sum(e.size() for e in acc)
        batches.append([e.spec() for e in es])
        expect.append("ok" if acc else "empty")
        lay.append(size)
    flen = lay.bw
    if flen <= 700:
        cuts = list(range(0, flen + 1))
    else:
        cuts = sorted(set(list(range(0, 64)) + [rng.below(flen) for _ in range(40)] + [e + d for e in lay.ends for d in (-2, -1, 0, 1, 2) if 0 <= e + d <= flen]
                          + list(range(max(0, flen - 40), flen + 1))))
    reads = [("", "-")] + [("", str(c)) for c in cuts]
    bump(stats, "small_logs")
    bump(stats, "small_cuts", len(cuts))
    return Case("small%d" % i, rand_opts(rng, True), batches, reads, expect=expect)


REMAINS = list(range(0, 26)) + [18, 19, 20, 21, 19, 20, 28, 29, 30, 31, 37, 38, 39, 40, 41, 50, 64, 80, 100, 150, 200, 1000]


def probe_sizes(rng, r):
    """candidate body sizes of the probe batch given r bytes left before the boundary"""
    B, H = K["BLOCK_SIZE"], K["HEADER_MAX_SIZE"]
    c = [8, 9, 10, 11, 12, 20, 30, 100, 127, 128, 129, 1000, 16383, 16384, 40000, 500000,
         B - 2 * H, B - 2 * H - 1, B - 2 * H + 1, B - 100, B - 12, B - 11, B - 10, B - 1, B]
    for d in (-2, -1, 0, 1, 2):
        # exact fit: header + size == r (+- a little)
        for hl in (10, 11, 12):
            s = r - hl + d
            if s >= 8:
                c.append(s)
        # first fragment of exactly 1 byte etc: size around r - H
        s = r - H + d
        if s >= 8:
            c.append(s)
    return c


# probe classes of the exhaustive grid (functions of the bytes left before the boundary)
PROBE_CLASSES = [
    lambda r: 8,                                   # the smallest batch the API can build
    lambda r: max(8, r - 10),                      # header (10 bytes for sizes < 128) + body == r : exact fit (when r >= 18)
    lambda r: max(8, r - 9),                       # one byte too many
    lambda r: max(8, r - 19 + 1),                  # first fragment of one byte when splitting
    lambda r: 100,
    lambda r: 40000,
    lambda r: (1 << 20) - 38,                      # MAX_BATCH_SIZE
    lambda r: 1 << 20,                             # the largest batch check_batch_size accepts
]


def gen_boundary(rng, stats, i, quick, nblocks=1, force_r=None, force_probe=None, window=48, nmodel=None, tag=None, many_small=None):
    B, H = K["BLOCK_SIZE"], K["HEADER_MAX_SIZE"]
    lay = Layout()
    batches, expect = [], []
    marks = []          # interesting offsets for truncation windows

    def add(es):
        acc = [e for e in es if e.accepted()]
        batches.append([e.spec() for e in es])
        size = sum(e.size() for e in acc)
        r = lay.append(size)
        expect.append("ok" if r == "ok" else ("empty" if r == "empty" else "any"))
        marks.append(lay.bw)

    for blk in range(nblocks):
        nb = (lay.bw // B + 1) * B
        r = rng.choice(REMAINS) if force_r is None else force_r
        # prefix: 1..3 whole frames ending exactly r bytes before the boundary
        room = nb - r - lay.bw
        nparts = rng.choice([1, 1, 2, 3]) if force_r is None else 1
        ok = True
        for p in range(nparts):
            room = nb - r - lay.bw
            if room < 40:
                break
            if p + 1 < nparts and room > 200000:
                part = rng.range(20, room - 100000)
            else:
                part = room
            es = solve_batch_for_frame(rng, part)
            if es is None:
                ok = False
                break
            add(es)
        bump(stats, "boundary_remaining_%02d" % min(nb - lay.bw, 99) if nb - lay.bw < 42 else "boundary_remaining_big")
        # the probe
        s = rng.choice(probe_sizes(rng, nb - lay.bw)) if force_probe is None else force_probe(nb - lay.bw)
        s = max(8, min(s, B))
        es = solve_entries(rng, s)
        if (many_small is True and nb - lay.bw >= 28) or (many_small is None and force_probe is None and nb - lay.bw >= 28 and rng.chance(1, 3)):
            # a probe of MANY SMALL entries that does not fit: its first fragment then holds whole
            # entries, so a reader that wrongly returns a torn first fragment shows a partial batch
            # (seeded change C12-2)
            es = []
            while sum(e.size() for e in es if e.accepted()) <= (nb - lay.bw) + 40:
                es.append(small_entry(rng))
            bump(stats, "probe_many_small")
        if es is not None:
            before = len(lay.frames)
            add(es)
            kinds = [f[1] for f in lay.frames[before:]]
            bump(stats, "probe_split" if 2 in kinds else "probe_whole")
            if lay.pads and lay.pads[-1][1] == nb and 2 not in kinds:
                bump(stats, "probe_padded_whole")
        # followers
        for _ in range(rng.below(3)):
            add([small_entry(rng) for _ in range(rng.range(1, 3))])
    flen = lay.bw
    cuts = set()
    nbs = sorted(set((f[0] // B) * B for f in lay.frames if f[0] >= B) | set(((p[1]) for p in lay.pads)))
    w = window
    for b in nbs:
        cuts.update(range(max(0, b - w), min(flen, b + w) + 1))
    for m in marks:
        cuts.update(x for x in range(m - 3, m + 4) if 0 <= x <= flen)
    for f in lay.frames:
        cuts.update(x for x in (f[0], f[0] + 1, f[0] + f[2] - 1, f[0] + f[2], f[0] + f[2] + 1, f[0] + f[2] + f[3] - 1) if 0 <= x <= flen)
    cuts.update(range(max(0, flen - 30), flen + 1))
    cuts.update(rng.below(flen + 1) for _ in range(10))
    cuts = sorted(cuts)
    reads = [("", "-")] + [("", str(c)) for c in cuts]
    # the model gets the full read and a handful of cuts (a MiB-sized read costs ~0.4 s there)
    nm = (6 if quick else 12) if nmodel is None else nmodel
    near = [k + 1 for k, c in enumerate(cuts) if any(abs(c - b) <= 24 for b in nbs)]
    pick = set([0])
    for _ in range(nm):
        pick.add(rng.choice(near) if near and rng.chance(3, 4) else 1 + rng.below(len(cuts)))
    # mutations near the boundary (both sides)
    nmut = 0
    if lay.pads or lay.frames:
        targets = []
        for (a, b) in lay.pads:
            targets += list(range(a, b))
        for f in lay.frames:
            if f[1] in (2, 3) or rng.chance(1, 4):
                targets += list(range(f[0], f[0] + f[2] + 1))
        for _ in range(3 if quick else 8):
            if not targets:
                break
            m = ",".join("%d=%d" % (rng.choice(targets), rng.choice([0, 0, 1, 2, 3, 9, 10, 19, 20, 80, 88, 101, 128, 255, rng.below(256)])) for _ in range(rng.range(1, 2)))
            reads.append((m, "-"))
            pick.add(len(reads) - 1)
            nmut += 1
    bump(stats, "boundary_logs")
    bump(stats, "boundary_cuts", len(cuts))
    bump(stats, "boundary_mutated_reads", nmut)
    bump(stats, "boundary_bytes", flen)
    o = rand_opts(rng, False)
    return Case(tag or "bnd%d" % i, o, batches, reads, sorted(pick), expect=expect)


def gen_rollover(rng, stats, i, big):
    """rollover_size in force: some appends fail with table-full (also after padding was written)"""
    B = K["BLOCK_SIZE"]
    batches, expect = [], []
    if big:
        # get close to the boundary, then a rollover just past it
        r = rng.choice([0, 1, 5, 18, 19, 20, 30])
        es = solve_batch_for_frame(rng, B - r)
        batches.append([e.spec() for e in es])
        ro = B + rng.choice([0, 5, 10, 17, 18, 19, 20, 30, 100, 5000])
        for _ in range(rng.range(1, 4)):
            es = solve_entries(rng, rng.choice([8, 9, 10, 20, 50, 90, 200, 4990, 6000]))
            batches.append([e.spec() for e in es])
    else:
        ro = rng.choice([0, 1, 17, 18, 19, 20, 30, 40, 64, 100, 300, 1000])
        for _ in range(rng.range(2, 7)):
            batches.append([small_entry(rng).spec() for _ in range(rng.range(1, 3))])
    expect = ["any"] * len(batches)
    reads = [("", "-")] + [("", str(c)) for c in ([B - 5, B - 1, B, B + 1, B + 12] if big else [0, 1, 10, 20, 25, 40, 60, 100])]
    bump(stats, "rollover_logs")
    o = rand_opts(rng, not big)
    o["ro"] = ro
    return Case("ro%d" % i, o, batches, reads, expect=expect)


# ------------------------------------------------------------------ malformed raw files
def py_header(size, disc, crc, rng=None, weird=None):
    """header bytes; `weird` selects a malformation"""
    f_size = b"\x50" + varint(size)
    f_disc = b"\x58" + varint(disc)
    f_crc = b"\x65" + crc.to_bytes(4, "little")
    w = weird
    if w == "noncanon_size":
        f_size = b"\x50" + varint(size, pad=rng.range(1, 2))
    elif w == "noncanon_disc":
        f_disc = b"\x58" + varint(disc, pad=1)
    elif w == "reorder":
        return f_crc + f_disc + f_size
    elif w == "dup_size":
        return b"\x50" + varint(rng.below(300)) + f_size + f_disc + f_crc
    elif w == "dup_size_last":
        return f_size + f_disc + f_crc + b"\x50" + varint(rng.below(300))
    elif w == "unknown_varint":
        return f_size + bytes([rng.choice([0x08, 0x60, 0x78])]) + varint(rng.below(1 << 20), pad=rng.below(2)) + f_disc + f_crc
    elif w == "unknown_len":
        n = rng.below(4)
        return f_size + b"\x6a" + varint(n) + bytes(rng.below(256) for _ in range(n)) + f_disc + f_crc
    elif w == "unknown_fixed":
        return f_size + b"\x0d" + rng.bytes(4) + b"\x09" + rng.bytes(8) + f_disc + f_crc
    elif w == "wrong_wire_size":
        return b"\x55" + rng.bytes(4) + f_disc + f_crc          # field 10 as fixed32: ignored -> size 0
    elif w == "wrong_wire_crc":
        return f_size + f_disc + b"\x60" + varint(crc)           # field 12 as varint: ignored -> crc 0
    elif w == "missing_disc":
        return f_size + f_crc
    elif w == "missing_crc":
        return f_size + f_disc
    elif w == "disc_overflow":
        return f_size + b"\x58" + varint(rng.choice([2**32, 2**32 + 1, 2**40, 2**64 - 1])) + f_crc
    elif w == "bad_wire":
        return f_size + bytes([rng.choice([0x53, 0x54, 0x56, 0x57])]) + f_disc + f_crc
    elif w == "field_zero":
        return f_size + b"\x00\x00" + f_disc + f_crc
    elif w == "reserved_field":
        return f_size + varint((19000 + rng.below(1000)) * 8) + b"\x00" + f_disc + f_crc
    elif w == "tag_too_large":
        return f_size + varint(rng.choice([2**32, 2**35])) + b"\x00" + f_disc
    elif w == "trunc_fixed":
        return f_size + f_disc + b"\x65" + rng.bytes(rng.below(4))
    elif w == "varint_overlong":
        return b"\x50" + b"\x80" * rng.range(9, 11) + b"\x01" + f_disc + f_crc
    elif w == "varint10":
        return b"\x50" + b"\xff" * 9 + bytes([rng.choice([0, 1, 2, 3, 0x7f])]) + f_disc + f_crc
    return f_size + f_disc + f_crc


HDR_WEIRD = ["noncanon_size", "noncanon_disc", "reorder", "dup_size", "dup_size_last", "unknown_varint", "unknown_len",
             "unknown_fixed", "wrong_wire_size", "wrong_wire_crc", "missing_disc", "missing_crc", "disc_overflow", "bad_wire",
             "field_zero", "reserved_field", "tag_too_large", "trunc_fixed", "varint_overlong", "varint10"]


def py_entry_weird(rng):
    """entry bytes, valid or damaged in a structured way"""
    e = small_entry(rng)
    e.klen = min(e.klen, 20)
    e.vlen = min(e.vlen, 30)
    k = gbytes(e.klen, e.ka, e.kb)
    v = gbytes(e.vlen, e.va, e.vb)
    put = e.kind == "p"
    base = 0 if put else 4
    f_sh = bytes([(base + 1) << 3]) + b"\x00"
    f_k = bytes([((base + 2) << 3) | 2]) + varint(len(k)) + k
    f_ts = bytes([(base + 3) << 3]) + varint(e.ts)
    f_v = (b"\x22" + varint(len(v)) + v) if put else b""
    w = rng.below(16)
    fields = [f_sh, f_k, f_ts] + ([f_v] if put else [])
    if w == 0:
        fields[0] = bytes([(base + 1) << 3]) + varint(rng.choice([1, 2, 127, 128, 2**63]))     # shared != 0
    elif w == 1:
        fields.reverse()
    elif w == 2:
        fields.append(bytes([rng.choice([0x48, 0x50, 0x78])]) + varint(rng.below(1000)))          # unknown varint
    elif w == 3:
        fields[1] = bytes([((base + 2) << 3) | 2]) + varint(len(k), pad=1) + k                  # non-canonical length
    elif w == 4:
        fields[2] = bytes([(base + 3) << 3]) + varint(e.ts, pad=1)                                # non-canonical ts
    elif w == 5:
        fields.pop(rng.below(len(fields)))                                                        # missing field
    elif w == 6:
        fields.append(fields[1])                                                                  # duplicate key (last wins)
    elif w == 7:
        fields[1] = bytes([((base + 2) << 3) | 2]) + varint(len(k) + rng.range(1, 40)) + k      # key runs past the body
    elif w == 8 and not put:
        fields.append(b"\x22" + varint(len(v)) + v)                                               # value field in a Del: ignored
    elif w == 9:
        fields[1] = bytes([((base + 2) << 3) | 0]) + varint(5)                                    # key with wire type varint: ignored
    body = b"".join(fields)
    tag = 0x42 if put else 0x4a
    if w == 10:
        tag = rng.choice([0x3a, 0x52, 0x40, 0x45, 0x0a])                                          # unknown discriminant / wire type
    ln = varint(len(body))
    if w == 11:
        ln = varint(len(body) + rng.range(1, 5))                                                  # body longer than the buffer (if last)
    elif w == 12:
        ln = varint(max(0, len(body) - rng.range(1, 3)))                                          # body cut short: trailing garbage
    elif w == 13:
        ln = varint(len(body), pad=1)
    return bytes([tag]) + ln + body


def gen_raw(rng, stats, i):
    """a small file assembled from frames, most of them damaged in one place"""
    out = bytearray()
    nfr = rng.range(1, 4)
    what = []
    for _ in range(nfr):
        kind = rng.below(12)
        ents = b"".join(py_entry_weird(rng) if rng.chance(1, 3) else small_entry_bytes(rng) for _ in range(rng.range(1, 3)))
        if kind == 0:
            ents = b""
        disc = 1
        crc = crc32c(ents)
        size = len(ents)
        weird = None
        hl_override = None
        if kind == 1:
            disc = rng.choice([0, 2, 3, 4, 5, 255, 2**31, 2**32 - 1])
        elif kind == 2:
            crc = (crc + rng.range(1, 2**32 - 1)) % 2**32
        elif kind == 3:
            size = rng.choice([size + 1, max(0, size - 1), size + 100, K["TABLE_FULL_SIZE"], K["TABLE_FULL_SIZE"] + 1, 2**32, 2**64 - 1])
        elif kind == 4:
            weird = rng.choice(HDR_WEIRD)
        elif kind == 5:
            hl_override = rng.choice([0, 19, 20, 21, 127, 128, 255, 1, 2, 8])
        elif kind == 6:
            # a well formed first/second pair without the padding the writer would have put
            cutp = rng.range(0, len(ents))
            a, b = ents[:cutp], ents[cutp:]
            h1 = py_header(len(a), 2, crc32c(a))
            h2 = py_header(len(b), rng.choice([3, 3, 3, 1, 2]), crc32c(b))
            out += bytes([len(h1)]) + h1 + a + bytes([len(h2)]) + h2 + b
            what.append("pair")
            continue
        elif kind == 7:
            out += bytes(rng.range(1, 25))          # zero bytes nowhere near a boundary
            what.append("zeros")
            continue
        h = py_header(size, disc, crc, rng, weird)
        hl = len(h) if hl_override is None else hl_override
        out += bytes([hl & 0xff]) + h + ents
        what.append(weird or ["empty", "disc", "crc", "size", "weird", "hdrlen"][kind] if kind < 6 else "plain")
    if rng.chance(1, 4):
        out = out[:rng.below(len(out) + 1)]
    if rng.chance(1, 6):
        for _ in range(rng.range(1, 3)):
            if out:
                out[rng.below(len(out))] = rng.below(256)
    if rng.chance(1, 10):
        out = bytearray(rng.bytes(rng.range(0, 60)))
    for w in what:
        bump(stats, "raw_" + w)
    bump(stats, "raw_files")
    reads = [("", "-")]
    if len(out) > 2 and rng.chance(1, 2):
        reads.append(("", str(rng.below(len(out)))))
    return Case("raw%d" % i, rand_opts(rng, True), None, reads, raw=bytes(out).hex() or "-")


def small_entry_bytes(rng):
    return small_entry(rng).encode()


def gen_cases(rng, quick, stats):
    cases = []
    n_small = 120 if quick else 3000
    n_bnd = 16 if quick else 400
    n_bnd2 = 2 if quick else 40
    n_ro = 20 if quick else 300
    n_ro_big = 2 if quick else 20
    n_raw = 1500 if quick else 120000
    for i in range(n_small):
        cases.append(gen_small(rng, stats, i))
    for i in range(n_bnd):
        cases.append(gen_boundary(rng, stats, i, quick, window=48 if quick else 1024))
    for i in range(n_bnd2):
        cases.append(gen_boundary(rng, stats, 1000 + i, quick, nblocks=rng.range(2, 3)))
    if not quick:
        # exhaustive grid: every remainder 0..40 before the boundary x every probe class
        for r in range(0, 41):
            for pc, f in enumerate(PROBE_CLASSES):
                cases.append(gen_boundary(rng, stats, 0, quick, force_r=r, force_probe=f, nmodel=4, tag="grid_r%d_p%d" % (r, pc)))
                bump(stats, "grid_cases")
        # ... and a probe of many small entries (whole entries in the first fragment) for every
        # remainder that makes the writer split
        for r in list(range(28, 41)) + [50, 64, 80, 100, 150, 200, 400]:
            cases.append(gen_boundary(rng, stats, 0, quick, force_r=r, nmodel=4, tag="grid_r%d_small" % r, many_small=True))
            bump(stats, "grid_cases")
    for i in range(n_ro):
        cases.append(gen_rollover(rng, stats, i, False))
    for i in range(n_ro_big):
        cases.append(gen_rollover(rng, stats, 1000 + i, True))
    for i in range(n_raw):
        cases.append(gen_raw(rng, stats, i))
    return cases


# ------------------------------------------------------------------ concurrent appends
class ConcCase:
    def __init__(self, line, tag, threads=0, nbatches=0):
        self.line, self.tag, self.threads, self.nbatches = line, tag, threads, nbatches


def gen_conc_cases(rng, quick, stats):
    out = []
    n = 12 if quick else 150
    for i in range(n):
        threads = rng.range(2, 8)
        nb = rng.range(threads, 60 if quick else 200)
        batches = []
        for b in range(nb):
            # first entry unique per batch (timestamp = batch index) so that the decomposition is unique
            es = [Ent.rand(rng, "p", rng.range(1, 16), b, rng.choice([0, 10, 100, 1000, 5000]))]
            es += [small_entry(rng) for _ in range(rng.below(3))]
            batches.append(",".join(e.spec() for e in es))
        if rng.chance(1, 4):
            # one big batch in the middle so that merged frames approach the batch limit
            es = [Ent.rand(rng, "p", 8, nb, 30000) for _ in range(rng.range(10, 30))]
            batches.append(",".join(e.spec() for e in es))
        o = "wb=%d" % rng.choice([1, 64, 4096, 2097152])
        out.append(ConcCase("conc %d %s | %s" % (threads, o, ";".join(batches)), "conc%d" % i, threads, len(batches)))
        bump(stats, "conc_cases")
        bump(stats, "conc_batches", len(batches))
        bump(stats, "conc_threads_%d" % threads)
    # batches of 400-700 KiB next to small ones: while one write is in progress several appenders
    # queue up and the write core's can_batch REFUSES (two big ones exceed the 1 MiB batch limit), so
    # the leader must stop at the first waiter that does not fit (seeded change C12-r2-1 skipped it)
    for i in range(6 if quick else 40):
        threads = rng.range(3, 6)
        per = rng.range(3, 5)
        nb = threads * per
        batches = []
        nbig = 0
        for b in range(nb):
            es = [Ent.rand(rng, "p", rng.range(1, 16), b, rng.choice([0, 10, 100]))]
            if rng.chance(3, 5):
                target = rng.range(400, 700) * 1024
                es += [Ent.rand(rng, "p", 8, b, 32000) for _ in range(target // 32050)]
                nbig += 1
            else:
                es += [small_entry(rng) for _ in range(rng.below(3))]
            batches.append(",".join(e.spec() for e in es))
        out.append(ConcCase("conc %d wb=%d | %s" % (threads, rng.choice([4096, 2097152]), ";".join(batches)), "concbig%d" % i, threads, nb))
        bump(stats, "conc_big_cases")
        bump(stats, "conc_big_batches", nbig)
    return out


def check_conc(c, o, allow_fsync_failed=False, allow_write_failed=False):
    """each call Ok; the file is a concatenation of whole batches, each exactly once; per-thread order kept"""
    bad = []
    if o == "HANG":
        return [("append-never-returned", "the case did not finish: some append call never returned")]
    if not o or o.startswith("HARNESS-PANIC"):
        return [("harness-panic", o or "")]
    head, tail = o.split(" | ", 1)
    res = head.split()
    m = re.match(r"conc (\d+) ", c.line)
    threads = int(m.group(1))
    nb = len(res)
    # with an injected fdatasync failure: the calls the failed sync was for get fsync-failed, every
    # later one is refused (log poisoned, b7cac52) or gets fsync-failed; none of them is acknowledged
    if any(r != "ok" and not (allow_fsync_failed and r in ("err:corruption-fsync-failed", "err:corruption-log-poisoned"))
           and not (allow_write_failed and r in ("err:system-error", "err:corruption-log-poisoned")) for r in res):
        bad.append(("append-not-ok", " ".join(sorted(set(res)))))
    d = dict(kv.split("=", 1) for kv in tail.split())
    if d.get("o") != "end" and not (allow_write_failed and d.get("o", "").startswith("err:")):
        bad.append(("concurrent-log-unreadable", tail))
    if d.get("decomposed") != "yes":
        bad.append(("batch-torn-or-duplicated", tail))
    order = [int(x) for x in d.get("order", "").split(",") if x]
    # a refused append (log poisoned) must leave no trace in the file; every other batch is there once
    expect_in_file = [b for b, r in enumerate(res) if r != "err:corruption-log-poisoned" and not (allow_write_failed and r != "ok")]
    if sorted(order) != expect_in_file:
        bad.append(("batch-missing-or-duplicated", "order=%s, expected exactly the batches %s" % (d.get("order"), expect_in_file if len(expect_in_file) != nb else "0..%d" % (nb - 1))))
    pos = {b: k for k, b in enumerate(order)}
    for t in range(threads):
        mine = [b for b in range(t, nb, threads) if b in pos]
        if any(pos[a] > pos[b] for a, b in zip(mine, mine[1:])):
            bad.append(("per-thread-order-violated", "thread %d" % t))
            break
    return bad


def walk_frames(data):
    """(end offset of the frame group, list of (is_put, key, ts)) per batch frame of a well-formed log"""
    B = K["BLOCK_SIZE"]
    pos, out = 0, []
    buf, first = b"", False
    while pos < len(data):
        hl = data[pos]
        if hl == 0:
            pos = (pos // B + 1) * B if (pos + 1) % B else pos + 1
            continue
        h = data[pos + 1:pos + 1 + hl]
        # fields in writer order: 0x50 size 0x58 disc 0x65 crc
        p = 1
        size = shift = 0
        while True:
            size |= (h[p] & 0x7f) << shift
            shift += 7
            p += 1
            if h[p - 1] < 128:
                break
        disc = h[p + 1]
        body = data[pos + 1 + hl:pos + 1 + hl + size]
        pos += 1 + hl + size
        if disc == 2:
            buf, first = body, True
            pos = (pos + B - 1) // B * B
            continue
        if disc == 3:
            body = buf + body
        ents = []
        q = 0
        while q < len(body):
            tag = body[q]
            q += 1
            ln = shift = 0
            while True:
                ln |= (body[q] & 0x7f) << shift
                shift += 7
                q += 1
                if body[q - 1] < 128:
                    break
            eb = body[q:q + ln]
            q += ln
            # field 2/6 key, 3/7 ts
            r = 2
            kl = shift = 0
            r += 1
            while True:
                kl |= (eb[r] & 0x7f) << shift
                shift += 7
                r += 1
                if eb[r - 1] < 128:
                    break
            key = eb[r:r + kl]
            r += kl + 1
            ts = shift = 0
            while True:
                ts |= (eb[r] & 0x7f) << shift
                shift += 7
                r += 1
                if eb[r - 1] < 128:
                    break
            ents.append((tag == 0x42, key, ts))
        out.append((pos, ents))
    return out


def strace_durability(chk, hxbin, rng, quick):
    """run concurrent cases under strace and check, per acknowledged batch, that an fdatasync of
    the log which STARTED after the write(2) carrying the batch's last byte had completed, itself
    COMPLETED before the acknowledgement was written"""
    info = {"runs": 0, "acks_checked": 0, "fdatasyncs": 0, "writes": 0, "bad": [], "available": True}
    rc, out = vlib.sh(["strace", "-V"])
    if rc != 0:
        info["available"] = False
        return info
    runs = 3 if quick else 25
    for run in range(runs):
        threads = rng.range(2, 8)
        nb = rng.range(threads * 2, 40 if quick else 120)
        batches = []
        for b in range(nb):
            es = [Ent.rand(rng, "p", rng.range(1, 16), b, rng.choice([0, 10, 100, 3000]))]
            es += [small_entry(rng) for _ in range(rng.below(2))]
            batches.append(es)
        line = "conc %d wb=%d | %s" % (threads, rng.choice([64, 4096, 2097152]), ";".join(",".join(e.spec() for e in es) for es in batches))
        d = os.path.join(chk.work, "strace%d" % run)
        strace_one(hxbin, line, d, info)
    # fault injection: 4-8 appenders, the K-th fdatasync fails with EIO after being held for a while (so
    # that other appenders that already passed the poison check pile up behind it in the fsync queue);
    # no append may be acknowledged after that unless a sync that completed BEFORE the failure covers
    # its frame (a sync after a failed one covers nothing)
    for run in range(6 if quick else 30):
        threads = rng.range(4, 8)
        nb = threads * rng.range(6, 10)
        batches = []
        for b in range(nb):
            es = [Ent.rand(rng, "p", rng.range(1, 16), b, rng.choice([0, 10, 100, 3000]))]
            es += [small_entry(rng) for _ in range(rng.below(2))]
            batches.append(es)
        line = "conc %d wb=%d | %s" % (threads, rng.choice([4096, 2097152]), ";".join(",".join(e.spec() for e in es) for es in batches))
        d = os.path.join(chk.work, "stracef%d" % run)
        info["fault_injected_runs"] = info.get("fault_injected_runs", 0) + 1
        strace_one(hxbin, line, d, info, inject_when=[2, 2, 3, 2, 1, 3][run % 6])
    return info


def first_put_keys(line):
    """(key bytes of the first entry, which is a put with ts = batch index) per batch of a conc line"""
    out = []
    for b in line.split("|", 1)[1].strip().split(";"):
        first = b.split(",")[0].strip()
        k = first[1:].split(".")[0]
        if k.startswith("g"):
            l, a, bb = (int(x) for x in k[1:].split("x"))
            out.append(gbytes(l, a, bb))
        elif k == "-":
            out.append(b"")
        else:
            out.append(bytes.fromhex(k))
    return out


def strace_one(hxbin, line, d, info, inject_when=None):
    """one concurrent case under strace; appends (what, detail, line) to info['bad']"""
    nbad0 = len(info["bad"])
    try:
        _strace_one(hxbin, line, d, info, inject_when)
    finally:
        if inject_when is not None:
            info["bad"][nbad0:] = [(w, "%s [inject_when=%d]" % (dt, inject_when), ln) for (w, dt, ln) in info["bad"][nbad0:]]


def _strace_one(hxbin, line, d, info, inject_when=None):
    if True:
        keys = first_put_keys(line)
        nb = len(keys)
        os.makedirs(d, exist_ok=True)
        with open(os.path.join(d, "in"), "w") as fh:
            fh.write(line + "\n")
        inj = "" if inject_when is None else " -e inject=fdatasync:error=EIO:delay_enter=30000:when=%d" % inject_when
        cmd = "C12_KEEP=%s strace -f -qq -o %s/trace -e trace=write,pwrite64,writev,fdatasync,fsync,openat%s %s < %s/in > %s/out" % (d, d, inj, hxbin, d, d)
        rc, out = vlib.sh(cmd, timeout=120)
        info["runs"] += 1
        if rc == 124:
            vlib.sh("pkill -f %s/trace" % d)
            info["bad"].append(("append-never-returned", "the case did not finish under strace", line))
            return
        try:
            res = open(os.path.join(d, "out")).read().strip()
            data = open(os.path.join(d, "conc.log"), "rb").read()
            trace = open(os.path.join(d, "trace")).read().splitlines()
        except OSError as ex:
            info["bad"].append(("strace-run-failed", str(ex) + out[-300:], line))
            return
        for what, detail in check_conc(ConcCase(line, "strace"), res, allow_fsync_failed=inject_when is not None):
            info["bad"].append((what, detail, line))
        # batch -> end offset of the frame that carries it
        frames = walk_frames(data)
        end_of = {}
        for end, ents in frames:
            for (isput, key, ts) in ents:
                if isput and ts < nb and key == keys[ts]:
                    end_of.setdefault(ts, end)
        # events in trace order
        logfd = ackfd = None
        written = 0
        write_done = []         # (event index, cumulative bytes written to the log)
        sync_start, sync_done = {}, []      # pid -> (event idx, bytes written at start); list of (done idx, covered)
        acks = []               # (event idx of ack start, batch)
        pending = {}            # pid -> unfinished call text
        sync_failed = False
        for idx, ln in enumerate(trace):
            m = re.match(r"(\d+)\s+(.*)", ln)
            if not m:
                continue
            pid, rest = m.group(1), m.group(2)
            if "<unfinished ...>" in rest:
                call = rest.split("(")[0]
                pending[pid] = (call, rest, idx)
                if call == "fdatasync" and logfd is not None and rest.startswith("fdatasync(%s" % logfd):
                    sync_start[pid] = (idx, written)
                if call == "write" and ackfd is not None and rest.startswith("write(%s," % ackfd):
                    mm = re.search(r'"ack (\d+)', rest)
                    if mm:
                        acks.append((idx, int(mm.group(1))))
                continue
            mres = re.match(r"<\.\.\. (\w+) resumed>(.*)", rest)
            if mres:
                call, tailtxt = mres.group(1), mres.group(2)
                pc = pending.pop(pid, None)
                full = (pc[1] if pc else "") + tailtxt
                start_idx = pc[2] if pc else idx
            else:
                call = rest.split("(")[0]
                full = rest
                start_idx = idx
            ret = re.search(r"=\s+(-?\d+)", full)
            retv = int(ret.group(1)) if ret else -1
            if call == "openat" and retv >= 0:
                if "conc.log" in full and logfd is None:
                    logfd = str(retv)
                elif "conc.ack" in full:
                    ackfd = str(retv)
            elif call in ("write", "pwrite64", "writev") and logfd is not None and full.startswith("%s(%s," % (call, logfd)):
                if retv > 0:
                    written += retv
                    write_done.append((idx, written))
                    info["writes"] += 1
            elif call == "write" and ackfd is not None and full.startswith("write(%s," % ackfd):
                mm = re.search(r'"ack (\d+)', full)
                if mm and not mres:
                    acks.append((start_idx, int(mm.group(1))))
            elif call == "fdatasync" and logfd is not None and full.startswith("fdatasync(%s" % logfd):
                st = sync_start.pop(pid, (start_idx, written)) if mres else (start_idx, written)
                if retv == 0 and not sync_failed:
                    sync_done.append((idx, st[1]))
                    info["fdatasyncs"] += 1
                elif retv != 0:
                    # after a failed fdatasync the kernel may have dropped the pages: later calls cover nothing
                    sync_failed = True
                    info["failed_fdatasyncs"] = info.get("failed_fdatasyncs", 0) + 1
        if logfd is None or ackfd is None:
            info["bad"].append(("strace-parse-failed", "log/ack fd not seen", line))
            return
        for aidx, b in acks:
            info["acks_checked"] += 1
            need = end_of.get(b)
            if need is None:
                info["bad"].append(("acked-batch-not-in-file", "batch %d" % b, line))
                continue
            covered = max([cov for (didx, cov) in sync_done if didx < aidx] or [0])
            if covered < need:
                info["bad"].append(("ack-before-durable", "batch %d ends at %d, fdatasyncs completed before its acknowledgement cover %d bytes" % (b, need, covered), line))
        n_ok = sum(1 for r in res.split(" | ", 1)[0].split() if r == "ok")
        if inject_when is not None and not sync_failed and n_ok != nb:
            # the injection point was never reached: a fault-free run, so nothing may err
            info["bad"].append(("append-not-ok", "no fdatasync failed, yet: " + " ".join(sorted(set(res.split(" | ", 1)[0].split()))), line))
        if len(acks) != n_ok:
            info["bad"].append(("missing-acks", "%d acknowledgements for %d Ok results" % (len(acks), n_ok), line))


def write_fault_runs(chk, hxbin, rng, quick):
    """strace makes the K-th write(2) on the LOG FILE fail (ENOSPC / EIO; -P restricts tracing and
    injection to that path).  Sequential LogBuilder<File> and ConcurrentLogBuilder.  Oracle: an append
    that returned an error is not in the file after seal/drop; what was acknowledged Ok is read back, in
    order, as a prefix; after the first error nothing more is accepted (fail-stop); nothing hangs."""
    info = {"runs": 0, "sequential": 0, "concurrent": 0, "errors_hit": 0, "bad": []}
    rc, out = vlib.sh(["strace", "-V"])
    if rc != 0:
        return info
    nseq, nconc = (8, 3) if quick else (60, 20)
    for run in range(nseq + nconc):
        conc = run >= nseq
        d = os.path.join(chk.work, "wfault%d" % run)
        vlib.sh(["rm", "-rf", d])
        os.makedirs(d)
        err = rng.choice(["ENOSPC", "ENOSPC", "EIO"])
        if conc:
            threads = rng.range(3, 6)
            nb = threads * rng.range(3, 6)
            when = rng.range(1, 4)
            bs = []
            for b in range(nb):
                es = [Ent.rand(rng, "p", rng.range(1, 16), b, rng.choice([0, 10, 100, 3000]))] + [small_entry(rng) for _ in range(rng.below(2))]
                bs.append(",".join(e.spec() for e in es))
            line = "conc %d wb=%d | %s" % (threads, rng.choice([64, 4096]), ";".join(bs))
            target = "conc.log"
        else:
            nb = rng.range(3, 9)
            when = rng.range(1, 2 * nb)
            bs = [",".join(small_entry(rng).spec() for _ in range(rng.range(1, 4))) for _ in range(nb)]
            line = "flush=1 sink=file wb=%d | %s | @-" % (rng.choice([1, 64, 4096]), ";".join(bs))
            target = "w"
        scr = os.path.join(d, "scratch")
        os.makedirs(scr)
        with open(os.path.join(d, "in"), "w") as fh:
            fh.write(line + "\n")
        cmd = "C12_SCRATCH=%s strace -f -qq -o %s/trace -P %s/%s -e trace=write,pwrite64,writev -e inject=write,pwrite64,writev:error=%s:when=%d %s < %s/in > %s/out" % (scr, d, scr, target, err, when, hxbin, d, d)
        rc, out = vlib.sh(cmd, timeout=120)
        info["runs"] += 1
        info["concurrent" if conc else "sequential"] += 1
        tag = "%s [%s on write #%d of the log file]" % ("concurrent" if conc else "sequential", err, when)
        replay = {"line": line, "err": err, "when": when, "target": target}
        if rc == 124:
            info["bad"].append(("append-never-returned", tag, replay))
            continue
        try:
            res = open(os.path.join(d, "out")).read().strip()
        except OSError:
            res = ""
        if not res or res.startswith("HARNESS-PANIC"):
            info["bad"].append(("harness-panic", tag + " " + res[:200], replay))
            continue
        if conc:
            head = res.split(" | ", 1)[0].split()
            if any(r != "ok" for r in head):
                info["errors_hit"] += 1
            for what, detail in check_conc(ConcCase(line, "wfault"), res, allow_write_failed=True):
                info["bad"].append((what, detail + " " + tag, replay))
            continue
        secs = [x.strip() for x in res.split(" | ")]
        stat = [w.split("=", 1)[1].split(":")[0] for w in secs[0].split() if not w.startswith("seal=")]
        if "err" in stat:
            info["errors_hit"] += 1
            first = stat.index("err")
            if "ok" in stat[first:]:
                info["bad"].append(("append-accepted-after-write-error", "%s: %s" % (tag, secs[0][:300]), replay))
        if "PANIC" in stat or secs[2] == "PANIC":
            info["bad"].append(("panic", tag + " " + res[:300], replay))
            continue
        rd = dict(kv.split("=", 1) for kv in secs[2].split())
        n_ok = stat.count("ok")
        if rd["j"] == "?" or int(rd["j"]) != n_ok:
            info["bad"].append(("failed-append-in-file-or-acknowledged-append-lost",
                                "%s: %d appends returned Ok, the file reads back as %s (%s)" % (tag, n_ok, rd["j"], secs[2][:200]), replay))
        if "err" not in stat and not rd["o"].startswith("end"):
            info["bad"].append(("untruncated-log-errors", tag + " " + secs[2][:200], replay))
    return info


def write_fault_replay(hxbin, replay, workdir):
    os.makedirs(workdir, exist_ok=True)
    scr = os.path.join(workdir, "scratch")
    vlib.sh(["rm", "-rf", scr])
    os.makedirs(scr)
    with open(os.path.join(workdir, "in"), "w") as fh:
        fh.write(replay["line"] + "\n")
    cmd = "C12_SCRATCH=%s strace -f -qq -o %s/trace -P %s/%s -e trace=write,pwrite64,writev -e inject=write,pwrite64,writev:error=%s:when=%d %s < %s/in" % (
        scr, workdir, scr, replay["target"], replay["err"], replay["when"], hxbin, workdir)
    rc, out = vlib.sh(cmd, timeout=120)
    return "HANG" if rc == 124 else out.strip()
