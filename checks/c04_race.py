"""The concurrent stage of the C04 check.

In the real store a compaction step is not atomic: its commit (snapshot the tree, record I/O/D,
write the edit, install the version) races with the commits of concurrent ingests.  The Books model
commits a transaction atomically and reads I at the commit point; this stage validates that
assumption against the real threads: `c04 race` runs real compaction_thread()s against several
threads ingesting overlapping ssts, waits for quiescence and prints the whole manifest history,
the directory listing and every sst with its recomputed setsum.  The audit below needs nothing but
those lines (a race cannot be replayed, so the recorded history IS the replay):
  * oracle (Python, independent): every fragment parses; every transaction I = O + D,
    D = removed - added, I_n = O_{n-1}; every fragment starts with the roll-up of its predecessor;
    final O = sum of the listed ssts; every listed sst is in sst/ and name = final-block setsum =
    setsum recomputed by the sst crate = setsum recomputed by Python; ManifestVerifier accepts;
  * model: the extracted verify_one, chained from zero over all fragments as strings, GC replays
    (verify_gc over the recorded file contents) included, accepts and ends in the recorded O;
  * real: LsmVerifier on a copy accepts; a copy of the store reopens."""
import os
import shutil
import subprocess

import c04_lib as L
import c04_run as R


def run_round(exe, root, params, opts):
    """-> (lines of the inspection, header dict) ; the directory stays for the live-only checks"""
    shutil.rmtree(root, ignore_errors=True)
    cmd = [exe, "race", root] + [str(params[k]) for k in ("ingest_threads", "ssts_per_thread", "keys_per_sst", "compaction_threads", "seed")] + opts
    try:
        p = subprocess.run(cmd, stdout=subprocess.PIPE, stderr=subprocess.DEVNULL, timeout=300)
        out = p.stdout.decode("utf-8", "replace").split("\n")
    except subprocess.TimeoutExpired:
        return None, {"error": "timeout"}
    lines = [ln[2:] for ln in out if ln.startswith("@@")]
    head = {}
    body = []
    for ln in lines:
        if ln.startswith("RACE "):
            t = ln.split(" ")
            if "=" in t[1]:
                head.update(dict(x.split("=", 1) for x in t[1:]))
            else:
                head.setdefault("events", []).append(ln)
        elif ln == "END":
            break
        else:
            body.append(ln)
    return body, head


def raw_of_edit(e):
    def h(s):
        return s.encode().hex() if s else "-"
    return "I:%s O:%s D:%s L:%s A:%s R:%s" % (h(e.info.get("I", "")), h(e.info.get("O", "")), h(e.info.get("D", "")), h(e.info.get("L", "")),
                                              ",".join(h(a) for a in sorted(e.adds)) or "-", ",".join(h(r) for r in sorted(e.rms)) or "-")


def audit(lines, mx_exe, versions=1):
    """the recorded history through the oracle and the model -> (problems, stats)"""
    ins = L.Inspection(lines)
    problems = []
    stats = {"fragments": 0, "transactions": 0, "compactions": 0, "gcs_with_discard": 0, "files": 0}

    def problem(what, **kw):
        d = {"kind": "property", "what": what}
        d.update(kw)
        problems.append(d)

    frs = []
    for fid, edits, err in ins.frags["mani"]:
        if err:
            problem("a manifest fragment the store wrote does not parse", fragment=fid, err=err)
        frs.append((fid, edits))
    stats["fragments"] = len(frs)
    # oracle: chain and balance
    prev_state = None     # (strs, info) at the end of the previous fragment
    for fid, edits in frs:
        if not edits:
            problem("an empty manifest fragment", fragment=fid)
            continue
        first = edits[0]
        if prev_state is not None:
            s, info = prev_state
            if set(first.adds) != s or first.rms or any(first.info.get(k) != info.get(k) for k in "IOD"):
                problem("a fragment does not start with the roll-up of its predecessor", fragment=fid,
                        first_O=first.info.get("O"), previous_O=info.get("O"))
        acc = first.info.get("O")
        s, info = set(), {}
        for i, e in enumerate(edits):
            if i >= 1:
                stats["transactions"] += 1
                if e.rms:
                    stats["compactions"] += 1
                I, O, D = (e.info.get(k) for k in "IOD")
                if None in (I, O, D):
                    problem("a transaction lacks I/O/D", fragment=fid, edit=i)
                    break
                ok_chain = I == acc
                ok_bal = L.ss_from_hex(I) == L.ss_add(L.ss_from_hex(O), L.ss_from_hex(D))
                cd = L.ss_zero()
                for x in e.adds:
                    cd = L.ss_sub(cd, L.ss_from_hex(x))
                for x in e.rms:
                    cd = L.ss_add(cd, L.ss_from_hex(x))
                ok_disc = L.ss_from_hex(D) == cd
                if e.rms and D != L.ZERO_HEX:
                    stats["gcs_with_discard"] += 1
                if not (ok_chain and ok_bal and ok_disc):
                    problem("a manifest transaction does not start from the previous transaction's output / does not balance",
                            fragment=fid, edit=i, chain=ok_chain, balance=ok_bal, discard=ok_disc, I=I, previous_O=acc)
                acc = O
            for x in e.rms:
                s.discard(x)
            for x in e.adds:
                s.add(x)
            info.update(e.info)
        prev_state = (s, info)
    for fid, verdict in ins.mv.items():
        if not verdict.startswith("ok"):
            problem("ManifestVerifier::verify rejects a fragment the store wrote", fragment=fid, verdict=verdict)
    # final state
    st = ins.state.get("mani", {"strs": []})
    total = L.ss_zero()
    for n in st["strs"]:
        total = L.ss_add(total, L.ss_from_hex(n))
        if n not in ins.files["sst"]:
            problem("the manifest lists an sst that is not in sst/", file=n, in_trash=n in ins.files["trash"])
    if st.get("O", "-") != L.ss_hex(total):
        problem("recorded O differs from the sum of the listed ssts", O=st.get("O"), sum=L.ss_hex(total), listed=len(st["strs"]))
    files = {}
    for d in ("sst", "trash"):
        for name, (meta, recomputed, ents) in ins.files[d].items():
            stats["files"] += 1
            if meta == "ERR":
                problem("an sst in %s/ cannot be read back" % d, file=name)
                continue
            mine = L.ss_hex(L.ss_of_entries(ents))
            if not (name == meta == recomputed == mine):
                problem("file name / final-block setsum / setsum recomputed from the stored entries differ", dir=d, file=name)
            files[name] = ents
    # model: verify_one over the strings, chained from zero, with the recorded files as its disk
    model = L.Model(mx_exe)
    try:
        model.cmd("new")
        model.cmd("policy %d" % versions)
        sent = set()
        for name, ents in files.items():
            for e in ents:
                it = L.item_of(e)
                if it not in sent:
                    sent.add(it)
                    model.cmd("h %s %s" % (it.hex(), L.item_hash(e).hex()))
            model.cmd("file %s %s" % (name, ",".join(L.ent_tok(e) for e in ents) or "-"))
        acc = L.ZERO_HEX
        for fid, edits in frs:
            mv = model.cmd("v1 %s | %s" % (acc, " | ".join(raw_of_edit(e) for e in edits))).split(" ")
            if mv[1] != "ok":
                code = mv[2] if len(mv) > 2 else "?"
                problem("the model's verifier rejects the history the store wrote", fragment=fid,
                        model_verdict=R.MODEL_CODE_TO_IMPL.get(code, code))
                break
            acc = mv[2]
        else:
            if frs and acc != st.get("O"):
                problem("the model's verifier ends in another setsum than the recorded O", model=acc, O=st.get("O"))
    finally:
        model.close()
    return problems, stats


def live_checks(exe, root, opts, problems, stats):
    """what needs the directory, on a copy: the store reopens, then the real verifier judges the
    history.  (With several compaction threads a version may still be referenced when its successor
    is installed; explicit_unref then never moves the removed ssts to the trash and only the next
    open does (cleanup_orphans): a verifier pass BEFORE that open backs off on them, which is the
    trash protocol's business, C08.  So the copy is reopened first; a backoff after that is counted,
    any other verdict than acceptance is a violation.)"""
    tool = L.Tool(exe)
    cp = root + ".copy"
    try:
        shutil.rmtree(cp, ignore_errors=True)
        shutil.copytree(root, cp)
        p = subprocess.run([exe, "session", cp] + opts, input=b"state\n", stdout=subprocess.PIPE, stderr=subprocess.DEVNULL, timeout=120)
        first = (p.stdout.decode("utf-8", "replace").split("\n") or ["?"])[0]
        if first != "OPEN ok":
            problems.append({"kind": "property", "what": "a copy of the store does not open", "open_line": first})
            return
        out = tool.cmd("verify %s 2 %s" % (cp, " ".join(opts)), multi=True)
        for ln in out:
            if ln == "PASS ok":
                stats["verify_ok"] = stats.get("verify_ok", 0) + 1
            elif "backoff" in ln:
                stats["verify_backoff"] = stats.get("verify_backoff", 0) + 1
            else:
                problems.append({"kind": "property", "what": "the real verifier does not accept the history the store produced", "verdict": ln})
                break
    finally:
        tool.close()
        shutil.rmtree(cp, ignore_errors=True)


def one_round(exe, mx_exe, params, opts, tag, on_disk=False):
    root = L.fresh_root(tag)
    if on_disk:
        # a real file system: fsync takes time, so an ingest holds the commit lock for long
        root = os.path.join("/verif/work/C04", os.path.basename(root))
        os.makedirs("/verif/work/C04", exist_ok=True)
    try:
        lines, head = run_round(exe, root, params, opts)
        if lines is None:
            return [{"kind": "machinery", "what": "the race harness timed out"}], {}, None
        problems = []
        if head.get("quiet") != "1" or head.get("failed") != "0":
            problems.append({"kind": "property", "what": "the concurrent run did not finish cleanly", "head": head})
        pr, stats = audit(lines, mx_exe)
        problems += pr
        stats["ingests"] = int(head.get("ingests", 0))
        live_checks(exe, root, opts, problems, stats)
        return problems, stats, (lines if problems else None)
    finally:
        shutil.rmtree(root, ignore_errors=True)
        shutil.rmtree(root + ".staging", ignore_errors=True)
