"""C03 — range scans return exactly the live keys in range, in order, matching reads.

Decided by: theorems of coq/theories/Scan/Props_C03.v over the executable model Scan/Model.v (the
cursor nesting KeyValueStore::range_scan / LsmTree::range_scan build over the Lsm store model),
tied to the code by replaying single-stepped histories of the real KeyValueStore on the extracted
model (`mx_scan`, the same lock-step replay as C01) and comparing every range scan THREE ways:
the real cursor driven by a program of seek_to_first / seek_to_last / seek / next / prev calls,
the extracted model on the model store, and a direct oracle computed here in Python from the
reference map of the history (sorted live keys within the bounds, walked by a reference cursor)."""
import json
import os

import c03_lib as L
import vlib

META = {
    "category": "proof",
    "text": "Coq theorems (Scan/Props_C03.v, 18 theorems, all closed under the global context) over an executable model (Scan/Model.v, Scan/Skip.v) of KeyValueStore::range_scan, MemTable::range_scan, Version::range_scan and LsmTree::range_scan as they are after the F1 repair: the cursor the store returns = BoundsCursor(PruningCursor at the snapshot timestamp(MergingCursor[one BoundsCursor over the skiplist iterator per memtable, each seek_to_first()ed; MergingCursor[one LazyCursor per L0 file; per deeper level one ConcatenatingCursor over the LazyCursors of the files passing the two compare_bounds_le tests]])), built from the C11 combinator models over the C01 store model. Proved for EVERY store satisfying the Lsm invariant (hence after every accepted history of writes, flushes, compactions, garbage collections and reopens: C03_scan_after_history; and after every accepted CONCURRENT compaction history: C03_scan_after_concurrent_history via Lsm's concurrent_invariant_reachable), every pair of bounds (all nine kinds, empty and inverted ranges) and every program of seek_to_first/seek_to_last/seek/prev/next calls: the cursor's observations equal those of the reference cursor over live_spec (C03_scan_correct), where live_spec lists exactly the entries x with key in range, load(key) = x at the same moment and x not a tombstone (C03_live_spec_characterised), in strictly ascending key order, each key once (C03_live_spec_ascending_once), = the keys whose last write in the history is a put, with that value (C03_live_spec_is_latest_puts); the nesting satisfies every combinator's precondition and its composed C11 specification is live_spec at any read timestamp (C03_scan_expr_wf, C03_scan_spec_is_live, C03_scan_at_any_timestamp, C03_scan_at_visible_seq_no); the memtable cursor is correct although the skiplist iterator's seek_to_first lands ON the first entry (C03_memtable_cursor); a snapshot holding an immutable memtable scans the same (C03_scan_with_immutable_memtable); no call ever fails, every observed entry is live and in range, a seek lands on the first live key >= target, full forward/backward walks list live_spec ascending/descending (C03_scan_never_fails, C03_scan_observes_only_live, C03_seek_lands, C03_forward_walk, C03_backward_walk); LsmTree::range_scan lists the live entries of the tree alone (C03_tree_scan_correct). The model is tied to lsmtk by lock-step replay of single-stepped real histories on the extracted model (flush contents, every compaction the real selector chose, tree shapes, sequence numbers) and a 3-way comparison of every scan: real cursor vs extracted run_scan / run_tree_scan vs a direct Python oracle (live keys of the reference map within the bounds, walked by a reference cursor), over all nine bound-kind combinations incl. empty and inverted ranges and cursor programs biased to direction reversals and boundary seeks; scans and point reads taken at the same moment are cross-checked key by key; observations are compared with their timestamps; scans are also taken while a flush is in progress with the memtable thread parked before the ingest (the snapshot of C03_scan_with_immutable_memtable, deterministic through gate f_sealed) and after it (gate f_ingested: the window in which the sst is already in the tree, compared with the extracted run_scan_dup); cursors are used across later writes with bounds and seeks on the written keys - that a live cursor keeps its snapshot while the memtable grows and the tree changes is PROVED by C07 (Snap/Props_C07.v C07_cursor_snapshot_stable), here it is exercised. NOT PROVED: the snapshot taken between the ingest of a flushed sst and the clearing of the immutable memtable holds every pair of that memtable twice under the store's MergingCursor; C11's merging/pruning theorems need distinct pairs, so this reachable class is outside every theorem (stated in the header of Props_C03.v; no disagreement seen in about 700 forced cases per quick run).",
    "note": "Trusted: Coq kernel; extraction (ExtrOcamlBasic) + ocaml/scan/mx_scan.ml; harness `c03` + lsmtk hooks (cfg blue_verif: verif_dump, verif_compaction_step, verif_request_flush/wait, verif_state, verif_tree, gate f_ingested); checks/c03_lib.py (frozen copy of lsmlib.py + scan comparison). Modelled, not verified here: the cursor combinators (C11: their models and theorems are imported), SstCursor as a table cursor over the file's entries (C10), the skiplist as a table in Key order with find_greater_or_equal/find_less_than/find_last stated by their results (C17), single-stepped execution (concurrency is C06/C07/C20); the snapshot taken between the ingest of a flushed sst and the clearing of the immutable memtable holds those entries twice, which is outside C11's distinctness precondition: exercised by the correspondence run only. Reopen is exercised in a separate stream; from a K2 reopen on the latest-write specification no longer binds, but the implementation is still compared with the EXTRACTED MODEL on the recovered version and errors/panics/hangs still count, unless the recovered tree is not even well-formed (then everything is attributed to K2; recovery is an input of the model, validated per step as in C01).",
}

PROPS = "theories/Scan/Props_C03.v"
MODULE = "Scan.Props_C03"

# as checks/c01.py: file sizes small enough that a few dozen writes make several files, so that
# versions and tombstones of one key spread over memtable, L0 and deeper levels
OPTION_SETS = [
    ("default-limits", ["--sst-target-file-size", "400", "--sst-minimum-file-size", "200", "--sst-target-block-size", "128"]),
    ("tiny-files", ["--sst-target-file-size", "150", "--sst-minimum-file-size", "60", "--sst-target-block-size", "64"]),
    ("few-files-per-compaction", ["--sst-target-file-size", "300", "--sst-minimum-file-size", "100", "--sst-target-block-size", "96", "--max-compaction-files", "4"]),
    ("big-files", ["--sst-target-block-size", "256"]),
]
BASE_OPTS = ["--memtable-size-bytes", "100000000", "--l0-write-stall-threshold-files", "100000",
             "--l0-write-stall-threshold-bytes", "100000000000"]

KINDS = ["U", "I", "E"]
F, LAST, N, P = ("F",), ("L",), ("N",), ("P",)


# ---------------------------------------------------------------- generators
def near_miss(rng, universe):
    k = rng.choice(universe)
    c = rng.below(8)
    if c == 0:
        return k + b"\x00"
    if c == 1:
        return k + b"\xff"
    if c == 2:
        return k[:-1]
    if c == 3:
        return b""
    if c == 4:
        return b"\xff\xff\xff"
    if c == 5 and k and k[-1] > 0:
        return k[:-1] + bytes([k[-1] - 1])
    if c == 6 and k and k[-1] < 255:
        return k[:-1] + bytes([k[-1] + 1])
    return k + bytes([rng.below(256)])


def bound_key(rng, universe):
    return rng.choice(universe) if rng.chance(3, 5) else near_miss(rng, universe)


def mk_bound(kind, k):
    return ("U", None) if kind == "U" else (kind, k)


def gen_bounds(rng, universe, live=None):
    """all nine kind pairs; equal keys with I/E mixes (the empty ranges [k,k) (k,k] (k,k) and the
    point range [k,k]); inverted ranges (lo > hi); ordinary ordered ranges.  With `live` (the keys
    whose latest write is a put, at this moment) three fifths of the pairs are drawn around them, so
    that most scans have something to return."""
    if live and rng.chance(3, 5):
        i = rng.below(len(live))
        j = rng.range(i, min(len(live) - 1, i + rng.choice([0, 1, 2, 4, 8])))
        lo = mk_bound(rng.choice(["U", "I", "I", "E"]), live[i] if rng.chance(3, 4) else near_miss(rng, [live[i]]))
        hi = mk_bound(rng.choice(["U", "I", "I", "E"]), live[j] if rng.chance(3, 4) else near_miss(rng, [live[j]]))
        return lo, hi
    m = rng.below(100)
    if m < 50:
        return mk_bound(rng.choice(KINDS), bound_key(rng, universe)), mk_bound(rng.choice(KINDS), bound_key(rng, universe))
    if m < 62:
        k = bound_key(rng, universe)
        return (rng.choice(["I", "E"]), k), (rng.choice(["I", "E"]), k)
    a, b = bound_key(rng, universe), bound_key(rng, universe)
    if a == b:
        b = a + b"\x00"
    lo, hi = min(a, b), max(a, b)
    if m < 72:
        return (rng.choice(["I", "E"]), hi), (rng.choice(["I", "E"]), lo)      # inverted
    return mk_bound(rng.choice(KINDS), lo), mk_bound(rng.choice(KINDS), hi)


def seek_key(rng, universe, lo, hi):
    c = rng.below(100)
    if c < 14 and lo[0] != "U":
        return lo[1]
    if c < 28 and hi[0] != "U":
        return hi[1]
    if c < 38 and lo[0] != "U":                        # below the start bound
        k = lo[1]
        return k[:-1] if (k and rng.chance(1, 2)) else (k[:-1] + bytes([k[-1] - 1]) if k and k[-1] > 0 else b"")
    if c < 48 and hi[0] != "U":                        # above the end bound
        return hi[1] + rng.choice([b"\x00", b"\xff", b"\xff\xff"])
    if c < 52:
        return b""
    if c < 80:
        return rng.choice(universe)
    return near_miss(rng, universe)


def gen_prog(rng, universe, lo, hi):
    n = len(universe)
    r = rng.below(100)
    if r < 3:
        return []
    if r < 12:
        return [F] + [N] * (n + 2)                     # full forward walk, past the end
    if r < 21:
        return [LAST] + [P] * (n + 2)                  # full backward walk, past the start
    if r < 27:
        a = rng.range(1, n + 2)
        return [F] + [N] * a + [P] * (a + 1)           # forward, then all the way back
    if r < 33:
        a = rng.range(1, n + 2)
        return [LAST] + [P] * a + [N] * (a + 1)
    length = rng.range(1, 14)
    prog = []
    while len(prog) < length:
        c = rng.below(100)
        if c < 20:
            prog.append(N)
        elif c < 40:
            prog.append(P)
        elif c < 52:
            a, b = (N, P) if rng.chance(1, 2) else (P, N)
            for _ in range(rng.range(1, 3)):
                prog += [a, b]
        elif c < 58:
            prog += [LAST, N]
        elif c < 64:
            prog += [F, P]
        elif c < 70:
            prog.append(F)
        elif c < 76:
            prog.append(LAST)
        else:
            prog.append(("S", seek_key(rng, universe, lo, hi)))
            if rng.chance(1, 2):
                prog += [rng.choice([N, P])] * rng.range(1, 3)
    return prog[:14]


def gen_scan_point(rng, universe, light=False, live=None):
    """seqcheck + a handful of scans + sometimes a tree scan + sometimes scan-and-point-reads"""
    ops = [("seq",)]
    for _ in range(rng.range(1, 2) if light else rng.range(3, 6)):
        lo, hi = gen_bounds(rng, universe, live)
        ops.append(("scan", lo, hi, gen_prog(rng, universe, lo, hi)))
    if rng.chance(1, 6 if light else 3):
        lo, hi = gen_bounds(rng, universe, live)
        ops.append(("tscan", lo, hi, gen_prog(rng, universe, lo, hi)))
    if rng.chance(1, 8 if light else 4):
        lo, hi = gen_bounds(rng, universe, live) if rng.chance(2, 3) else (("U", None), ("U", None))
        keys = list(universe) + ([near_miss(rng, universe)] if rng.chance(1, 2) else [])
        ops.append(("scanget", lo, hi, keys))
    if not light and rng.chance(1, 5):
        # a cursor used across writes: it is a snapshot of its creation time
        writes = [(rng.choice(universe), None if rng.chance(1, 3) else rng.bytes(rng.choice([0, 1, 5]))) for _ in range(rng.range(1, 3))]
        wk = sorted(k for k, _ in writes)
        c = rng.below(10)
        if c < 3:
            lo, hi = ("U", None), ("U", None)
        elif c < 5:
            lo, hi = gen_bounds(rng, universe, live)
        elif c < 7:
            # a written key IS a bound (all four I/E mixes, and one-sided)
            lo, hi = mk_bound(rng.choice(KINDS), wk[0]), mk_bound(rng.choice(KINDS), wk[-1])
        elif c < 9:
            # the written keys lie strictly inside / just outside the range
            a, b = bound_key(rng, universe), bound_key(rng, universe)
            lo, hi = mk_bound(rng.choice(KINDS), min(a, b, wk[0])), mk_bound(rng.choice(KINDS), max(a, b, wk[-1]))
        else:
            lo, hi = mk_bound(rng.choice(["I", "E"]), wk[-1]), mk_bound(rng.choice(["I", "E", "U"]), bound_key(rng, universe))
        p1, p2 = gen_prog(rng, universe, lo, hi)[:7], gen_prog(rng, universe, lo, hi)[:7]
        if rng.chance(2, 3):
            # the cursor sits on / next to a key that is then written (seek to it, maybe one step away)
            p1 = p1[:4] + [("S", rng.choice(wk))] + ([rng.choice([N, P])] if rng.chance(1, 3) else [])
        if rng.chance(1, 2):
            p2 = [rng.choice([N, P, ("S", rng.choice(wk))])] + p2[:6]
        ops.append(("scanw", lo, hi, p1, writes, p2))
    return ops


def gen_history(rng, n_ops, universe, reopen=False):
    """ops: ('w', batch) ('flush',) ('compact', n, seed) ('reopen',) ('sp', seed); a scan point
    ('sp', seed) follows every flush and (seeded per step) every compaction step, some writes, and
    ends the history.  Deletes are about a third of the writes."""
    ops = []
    hot = [rng.choice(universe) for _ in range(4)]
    for _ in range(n_ops):
        r = rng.below(100)
        if r < 52:
            k = rng.choice(hot) if rng.chance(1, 2) else rng.choice(universe)
            if rng.chance(1, 3):
                ops.append(("w", [(k, None)]))
            else:
                ops.append(("w", [(k, rng.bytes(rng.choice([0, 1, 3, 8, 20, 60])))]))
            if rng.chance(1, 6):
                ops.append(("sp", rng.below(1 << 48)))
        elif r < 62:
            n = rng.range(2, 5)
            keys = [rng.choice(universe) for _ in range(n)]      # a key may repeat: last write wins
            ops.append(("w", [(k, None if rng.chance(1, 3) else rng.bytes(rng.choice([0, 2, 10, 40]))) for k in keys]))
            if rng.chance(1, 6):
                ops.append(("sp", rng.below(1 << 48)))
        elif r < 78:
            if rng.chance(1, 3):
                # the scan is taken while the flush is in progress (snapshot with an immutable memtable)
                lo, hi = gen_bounds(rng, universe) if rng.chance(2, 3) else (("U", None), ("U", None))
                # half of them with the memtable thread parked between the ingest of the new sst and the
                # clearing of the immutable memtable (the snapshot then holds those entries twice)
                # a third parked BEFORE the ingest (gate f_sealed: the snapshot of C03_scan_with_immutable_memtable,
                # for certain), a third parked after it, a third racing
                ops.append(("flushscan", lo, hi, gen_prog(rng, universe, lo, hi)[:8], gen_prog(rng, universe, lo, hi)[:8], rng.choice(["pre", "gate", ""])))
            else:
                ops.append(("flush",))
            ops.append(("sp", rng.below(1 << 48)))
        elif r < 94 or not reopen:
            ops.append(("compact", rng.choice([1, 2, 3, 8, 20, 40]), rng.below(1 << 48)))
        else:
            ops.append(("reopen",))
            ops.append(("sp", rng.below(1 << 48)))
    ops.append(("sp", rng.below(1 << 48)))
    return ops


# ---------------------------------------------------------------- running one history
def do_scan_op(run, op):
    if op[0] == "scan":
        run.scan(op[1], op[2], op[3])
    elif op[0] == "tscan":
        run.tscan(op[1], op[2], op[3])
    elif op[0] == "scanget":
        run.scanget(op[1], op[2], op[3])
    elif op[0] == "seq":
        run.seqcheck()
    elif op[0] == "scanw":
        run.scanw(op[1], op[2], op[3], op[4], op[5])
    elif op[0] == "flushscan":
        run.flushscan(op[1], op[2], op[3], op[4], op[5] if len(op) > 5 else False)


def scan_point(run, seed, universe, light=False):
    live = sorted(k for k, v in run.spec.items() if v is not None)
    for op in gen_scan_point(vlib.Rng(seed), universe, light, live):
        if run.dead:
            break
        do_scan_op(run, op)


def run_history(exe, mx_exe, opts, ops, tag, universe=None):
    run = L.Run(exe, mx_exe, BASE_OPTS + opts, tag, universe)
    uni = run.universe
    try:
        for i, op in enumerate(ops):
            if run.dead:
                break
            run.cur_op = i
            if op[0] == "w":
                run.write(op[1])
            elif op[0] == "flush":
                run.flush()
            elif op[0] == "compact":
                moves = 0
                for j in range(op[1]):
                    if not run.compact():
                        break
                    if len(op) > 2 and op[2] is not None:
                        # every step is followed by a scan point; long runs of trivial moves get the
                        # light form (seqcheck + 1-2 scans) after the first three
                        is_move = getattr(run, "last_compaction", {}).get("kind") == "move"
                        moves += is_move
                        scan_point(run, op[2] + j, uni, light=(is_move and moves > 3))
            elif op[0] == "reopen":
                run.reopen()
            elif op[0] == "reads":
                run.reads()
            elif op[0] == "sp":
                scan_point(run, op[1], uni)
            else:
                do_scan_op(run, op)
    finally:
        run.finish()
    return run


class Summary:
    """picklable result of one history"""

    def __init__(self, run):
        self.problems, self.known_events = run.problems[:50], run.known_events
        self.n_problems = len(run.problems)
        self.n_steps, self.n_reads, self.events = run.n_steps, run.n_reads, run.events[-15:]
        self.n_scans, self.n_tscans, self.n_scangets, self.n_obs, self.n_seqchecks = run.n_scans, run.n_tscans, run.n_scangets, run.n_obs, run.n_seqchecks
        self.sstats, self.fps, self.sample_scans = run.sstats, run.fps, run.sample_scans
        self.not_wf_from = run.not_wf_from


def _job(args):
    if args[0] == "exhaustive":
        return exhaustive_job(*args[1:])
    exe, mx_exe, opts, ops, tag, universe = args
    return Summary(run_history(exe, mx_exe, opts, ops, tag, universe))


def run_many(jobs):
    import multiprocessing
    with multiprocessing.Pool(min(len(jobs), max(2, vlib.NCPU - 2))) as pool:
        return pool.map(_job, jobs, chunksize=1)


# ---------------------------------------------------------------- exhaustive small scope (thorough)
K1, K2, K3, K4 = b"k1", b"k2", b"k3", b"k4"
SMALL_TREES = [
    # versions and tombstones of 3 keys spread over a deeper level, L0 and the memtable
    ("deep+L0+mem", [("w", [(K1, b"a")]), ("w", [(K2, b"b")]), ("w", [(K3, b"c")]), ("flush",), ("compact", 40),
                     ("w", [(K2, None)]), ("w", [(K1, b"a2")]), ("flush",), ("w", [(K3, None)]), ("w", [(K2, b"b3")])]),
    # two L0 files (newest last) over a deeper level; tombstone in the middle component
    ("deep+2xL0", [("w", [(K1, b"a"), (K2, b"b"), (K3, b"c")]), ("flush",), ("compact", 40), ("w", [(K1, None), (K3, b"c2")]), ("flush",),
                   ("w", [(K1, b"a3"), (K2, None)]), ("flush",)]),
    # everything deleted except one key, tombstones only in the memtable
    ("tombstones-in-mem", [("w", [(K1, b"a"), (K2, b""), (K3, b"c")]), ("flush",), ("w", [(K1, None), (K3, None)])]),
    # a deeper level of TWO files (one ConcatenatingCursor) whose boundary keys are deleted in L0, one of them re-put in the memtable
    ("2-file-level+L0+mem", [("w", [(K1, b"a"), (K2, b"b")]), ("flush",), ("compact", 40), ("w", [(K3, b"c"), (K4, b"d")]), ("flush",), ("compact", 40),
                             ("w", [(K2, None), (K3, None)]), ("flush",), ("w", [(K3, b"c2")])]),
]
SMALL_KEYS = [b"", b"k0", K1, b"k1\x00", K2, K3, b"k4"]
SMALL_SEEKS = [b"", K1, b"k1\x00", K3, b"k4"]


def small_bounds():
    out = [(("U", None), ("U", None))]
    for k in SMALL_KEYS:
        for kd in ("I", "E"):
            out.append(((kd, k), ("U", None)))
            out.append((("U", None), (kd, k)))
    for a in SMALL_KEYS:
        for b in SMALL_KEYS:
            for ka in ("I", "E"):
                for kb in ("I", "E"):
                    out.append(((ka, a), (kb, b)))
    return out


def small_progs(depth=3):
    alpha = [F, LAST, N, P] + [("S", k) for k in SMALL_SEEKS]
    progs = [[]]
    for _ in range(depth):
        progs = [p + [a] for p in progs for a in alpha]
    return progs        # every shorter program is a prefix of one of these: its observations are compared too


def exhaustive_job(exe, mx_exe, optname, tree_idx, chunk, nchunks, tag, depth=3):
    name, hist = SMALL_TREES[tree_idx]
    run = L.Run(exe, mx_exe, BASE_OPTS + dict(OPTION_SETS)[optname], tag, [K1, K2, K3, K4])
    try:
        for i, op in enumerate(hist):
            run.cur_op = i
            if op[0] == "w":
                run.write(op[1])
            elif op[0] == "flush":
                run.flush()
            elif op[0] == "compact":
                for _ in range(op[1]):
                    if not run.compact():
                        break
        run.cur_op = len(hist)
        run.seqcheck()
        progs = small_progs(depth)
        for bi, (lo, hi) in enumerate(small_bounds()):
            if bi % nchunks != chunk or run.dead:
                continue
            for pi, prog in enumerate(progs):
                run.scan(lo, hi, prog)
                if pi % 8 == 0:
                    run.tscan(lo, hi, prog)
                if len(run.problems) > 20:
                    break
            run.scanget(lo, hi, [K1, K2, K3, K4, b"k1\x00"])
    finally:
        run.finish()
    return Summary(run)


# ---------------------------------------------------------------- json
def bstr(b):
    return L.bound_str(b)


def ops_to_json(ops):
    out = []
    for op in ops:
        if op[0] == "w":
            out.append(["w", [[k.hex(), None if v is None else v.hex()] for k, v in op[1]]])
        elif op[0] in ("scan", "tscan"):
            out.append([op[0], bstr(op[1]), bstr(op[2]), L.prog_str(op[3])])
        elif op[0] == "scanget":
            out.append([op[0], bstr(op[1]), bstr(op[2]), ",".join(L.hx(k) for k in op[3])])
        elif op[0] == "flushscan":
            out.append([op[0], bstr(op[1]), bstr(op[2]), L.prog_str(op[3]), L.prog_str(op[4]), op[5] if len(op) > 5 else False])
        elif op[0] == "scanw":
            out.append([op[0], bstr(op[1]), bstr(op[2]), L.prog_str(op[3]), [[k.hex(), None if v is None else v.hex()] for k, v in op[4]], L.prog_str(op[5])])
        else:
            out.append(list(op))
    return out


def ops_from_json(js):
    out = []
    for op in js:
        if op[0] == "w":
            out.append(("w", [(bytes.fromhex(k), None if v is None else bytes.fromhex(v)) for k, v in op[1]]))
        elif op[0] in ("scan", "tscan"):
            out.append((op[0], L.parse_bound(op[1]), L.parse_bound(op[2]), L.parse_prog(op[3])))
        elif op[0] == "scanget":
            out.append((op[0], L.parse_bound(op[1]), L.parse_bound(op[2]), [L.unhx(k) for k in op[3].split(",") if k]))
        elif op[0] == "flushscan":
            out.append((op[0], L.parse_bound(op[1]), L.parse_bound(op[2]), L.parse_prog(op[3]), L.parse_prog(op[4]), op[5] if len(op) > 5 else False))
        elif op[0] == "scanw":
            out.append((op[0], L.parse_bound(op[1]), L.parse_bound(op[2]), L.parse_prog(op[3]),
                        [(bytes.fromhex(k), None if v is None else bytes.fromhex(v)) for k, v in op[4]], L.parse_prog(op[5])))
        else:
            out.append(tuple(op))
    return out


# ---------------------------------------------------------------- build, verdict, run
def build(chk):
    okx, outx = vlib.coq_make(["theories/Scan/Extract.vo"])
    okm, outm, mx = vlib.ocaml_build("scan", "mx_scan")
    okh, outh, (exe,) = vlib.cargo_build(["c03"])
    alt = os.environ.get("C03_HARNESS_EXE")
    if alt:
        # builder's sensitivity self-test only: a harness binary built from a MUTATED scratch copy of
        # /repo (so that the shared /repo is never mutated); the run is marked in the evidence
        exe = alt
        if chk is not None:
            chk.notes.append("SELF-TEST: harness binary overridden by C03_HARNESS_EXE=%s (not /repo's working tree)" % alt)
            chk.level = "exploration"
    if not (okx and okm):
        raise RuntimeError("model build failed:\n" + outx[-1500:] + outm[-1500:])
    if not okh:
        raise RuntimeError("harness build failed (does /repo still compile?):\n" + outh[-3000:])
    return exe, mx


PROPERTY_KINDS = ("scan", "read", "error")


def verdict(chk, results, info, ok_proof):
    """A history in which an event of a known class (K2: recovery can mis-order levels, a defect
    recorded under C01) happened is attributed to that class from that event on; problems BEFORE the
    event still count.  KNOWN-FINDING is printed only for classes listed for C03 itself."""
    mine = {k[1]: k[2] for k in vlib.known_findings("C03") if k[0] == "known"}
    inherited = {k[1]: k[2] for k in vlib.known_findings("C01") if k[0] == "known" and k[1] == "K2"}
    known = dict(inherited)
    known.update(mine)
    reported = 0
    corr_only = []
    attributed = {"histories_with_known_event": 0, "problems_after_known_event": 0, "histories_recovered_not_wf": 0,
                  "live_problems_after_known_event": 0}
    for name, optname, ops, run in results:
        first_known = min([e[2] for e in run.known_events if e[0] in known], default=None)
        unlisted = [e for e in run.known_events if e[0] not in known]
        fresh = fresh_problems(run, first_known)
        if first_known is not None:
            attributed["histories_with_known_event"] += 1
            attributed["problems_after_known_event"] += run.n_problems - len(fresh)
            attributed["histories_recovered_not_wf"] += (run.not_wf_from is not None)
            attributed["live_problems_after_known_event"] += sum(1 for p in fresh if p["at_event"] >= first_known)
        for e in run.known_events:
            if e[0] in mine:
                chk.known(e[0], mine[e[0]])
        # after a known-class event a surviving (live) problem says the implementation left the extracted
        # model or failed outright: a concrete input, reported like a property failure
        prop = [p for p in fresh if p["kind"] in PROPERTY_KINDS or (first_known is not None and p["at_event"] >= first_known)]
        if prop:
            if reported < 3:
                p0 = prop[0]
                cut = ops if p0.get("at_op") is None else ops[:p0["at_op"] + 1]
                cut = [o for o in cut if o[0] != "exhaustive-chunk"]
                uni = _UNIVERSES.get(name) or L.UNIVERSE
                # the failing scan itself, explicitly, as the last op (the seeded scan point before it repeats it)
                if p0.get("op") in ("scan", "tscan") and "prog" in p0:
                    cut = cut + [(p0["op"], L.parse_bound(p0["lo"]), L.parse_bound(p0["hi"]), L.parse_prog(p0["prog"]))]
                elif p0.get("op") == "scanget":
                    cut = cut + [("scanget", L.parse_bound(p0["lo"]), L.parse_bound(p0["hi"]), list(uni))]
                chk.violation("c03_%s.json" % name, {
                    "kind": "property", "what": p0.get("what", p0["kind"]), "options": optname,
                    "history": ops_to_json(cut), "universe": [k.hex() for k in uni],
                    "failing": p0, "problems": prop[:10], "known_events": [list(e) for e in run.known_events[:10]],
                    "events_tail": [list(e) for e in run.events[-15:]],
                    "replay_cmd": "./bin/check C03 --replay <this file>"})
            reported += 1
        elif fresh:
            corr_only.append((name, {"history": ops_to_json(ops), "options": optname, "problems": fresh[:10],
                                     "events_tail": [list(e) for e in run.events[-15:]]}))
        elif unlisted and first_known is None:
            corr_only.append((name, {"history": ops_to_json(ops), "options": optname, "unlisted_event": [list(e) for e in unlisted[:3]]}))
    if reported == 0 and (corr_only or not ok_proof):
        chk.violation("c03_unproved.json", {"kind": "no-failing-input-found", "broken": info.get("broken", []),
                                            "correspondence": [c[1] for c in corr_only[:3]]}, no_input=True)
    return reported, len(corr_only), attributed


def fresh_problems(run, first_known):
    """the problems of a history that count.  Before the first event of a known class: all.  From it
    on the latest-write specification no longer binds (that is the known defect), but the
    implementation must still agree with the EXTRACTED MODEL, which adopts the recovered version,
    and must not panic, hang or fail: problems marked `live` (impl != model, errors, scan vs point
    read of one key) keep counting - until the tree is not even well-formed (recovered wf=0, or a
    later compaction of the mis-ordered tree yields overlapping files): from there on the model's
    partition points and the real binary searches may differ and selector asserts are a stated
    consequence of K2, so everything is attributed."""
    if first_known is None:
        return list(run.problems)
    cut = run.not_wf_from
    return [p for p in run.problems
            if p["at_event"] < first_known or (p.get("live") and (cut is None or p["at_event"] < cut))]


_UNIVERSES = {}      # history name -> key universe (for replay files)


def load_corpus():
    d = os.path.join(vlib.VERIF, "corpus", "C03")
    out = []
    if os.path.isdir(d):
        for fn in sorted(os.listdir(d)):
            if fn.endswith(".json"):
                c = json.load(open(os.path.join(d, fn)))
                out.append(("corpus_" + fn[:-5], c.get("options", "default-limits"), ops_from_json(c["history"]),
                            [bytes.fromhex(k) for k in c["universe"]] if "universe" in c else None))
    return out


def run(chk):
    if os.environ.get("C03_SKIP_PROOF") == "1":
        # builder's escape hatch while Props_C03.v is being written; the final check runs the proof stage
        ok_proof, info = True, {"broken": [], "theorems": []}
        chk.notes.append("PROOF STAGE SKIPPED (C03_SKIP_PROOF=1): this run says nothing about the theorems")
        chk.level = "exploration"
    else:
        ok_proof, info = vlib.proof_stage(chk, PROPS, MODULE, const_areas=("Scan", "Lsm"), pins_rel="pins/C03.v")
    exe, mx = build(chk)
    rng = vlib.Rng(chk.seed * 1000003 + 3)
    quick = chk.tier == "quick"
    n_hist = 240 if quick else 2400
    sizes = [80, 160, 320]
    jobs, names = [], []
    for name, optname, ops, uni in load_corpus():
        jobs.append((exe, mx, dict(OPTION_SETS)[optname], ops, "c03c%d" % len(jobs), uni))
        names.append((name, optname, ops))
        _UNIVERSES[name] = uni or L.UNIVERSE
    n_corpus = len(jobs)
    n_reopen = 0
    for i in range(n_hist):
        optname, opts = OPTION_SETS[i % len(OPTION_SETS)]
        universe = L.UNIVERSE[:rng.choice([6, 10, 18])]
        reopen = (i % 7 == 3)                      # the separate REOPEN stream, about 15% of the histories
        n_reopen += reopen
        ops = gen_history(rng.fork(), rng.choice(sizes), universe, reopen=reopen)
        jobs.append((exe, mx, opts, ops, "c03h%d" % i, universe))
        names.append((("r%d" if reopen else "h%d") % i, optname, ops))
        _UNIVERSES[names[-1][0]] = universe
    # exhaustive small scope: every bound pair over SMALL_KEYS x every program of length `depth`
    # over {F,L,N,P,S k} on the fixed small trees (quick: depth 2; thorough: depth 3)
    n_exh = 0
    depth, nchunks = (2, 4) if quick else (3, 12)
    if True:
        for ti in range(len(SMALL_TREES)):
            for c in range(nchunks):
                jobs.append(("exhaustive", exe, mx, "big-files", ti, c, nchunks, "c03x%d_%d" % (ti, c), depth))
                names.append(("x%d_%d" % (ti, c), "big-files", SMALL_TREES[ti][1] + [("exhaustive-chunk", c, nchunks)]))
                _UNIVERSES[names[-1][0]] = [K1, K2, K3, K4]
                n_exh += 1
    results = [(n[0], n[1], n[2], r) for n, r in zip(names, run_many(jobs))]

    steps, sstats = {}, {}
    fps = set()
    tot = {"scans": 0, "tscans": 0, "scangets": 0, "observations": 0, "seqchecks": 0}
    n_problems = n_prop = n_corr = 0
    samples = []
    for name, optname, ops, r in results:
        for k, v in r.n_steps.items():
            steps[k] = steps.get(k, 0) + v
        for k, v in r.sstats.items():
            sstats[k] = sstats.get(k, 0) + v
        fps |= r.fps
        tot["scans"] += r.n_scans
        tot["tscans"] += r.n_tscans
        tot["scangets"] += r.n_scangets
        tot["observations"] += r.n_obs
        tot["seqchecks"] += r.n_seqchecks
        n_problems += r.n_problems
        n_prop += sum(1 for p in r.problems if p["kind"] in PROPERTY_KINDS)
        n_corr += sum(1 for p in r.problems if p["kind"] not in PROPERTY_KINDS)
        if len(samples) < 4:
            samples += r.sample_scans[:1]
    reported, ncorr_hist, attributed = verdict(chk, results, info, ok_proof)
    n_after_known = attributed["problems_after_known_event"]
    n_eval = tot["scans"] + tot["tscans"] + tot["scangets"]
    chk.coverage.update({
        "evaluations": n_eval, "distinct_nontrivial": len(fps),
        "rule": "every evaluation is one range scan of the real store compared with the direct oracle and the extracted model: `scan` = KeyValueStore::range_scan + a cursor program (observation of the fresh cursor and after every call), `tscan` = LsmTree::range_scan likewise, `scanget` = full forward walk + point reads of the universe at the same moment. Scans are taken at scan points (after every flush, after every compaction step, after about 1/6 of the writes, after reopen, at the end) of random single-stepped histories (puts/deletes (1/3)/batches over an adversarial key universe with shared prefixes and the empty key, flush, 1..40 compaction steps; 4 option sets shaping file sizes) from one SplitMix64 seed; bounds: all nine kind pairs, keys from the universe or near misses, equal-key I/E mixes, inverted ranges; programs of 0..14 calls biased to reversals and boundary seeks plus full forward/backward walks. non-trivial = the store had >= 2 non-empty components (memtable, each L0 file, each deeper level) and the program had >= 2 calls; distinct = distinct (state fingerprint [level file names + reference map + memtable non-empty], entry point, lo, hi, program)"
                + "; plus the exhaustive small scope: %d fixed small trees (versions/tombstones of 3-4 keys over memtable, L0 files, a deeper level of 1-2 files) x all %d bound pairs over %d keys x all %d programs of length %d (every shorter program is a prefix) over {F,L,N,P,S k}, every 8th also through the tree alone" % (len(SMALL_TREES), len(small_bounds()), len(SMALL_KEYS), len(small_progs(depth)), depth),
        "samples": samples + [ops_to_json(results[-1 - n_exh][2])[:14]],
        "input_distribution": {"store_steps": steps, "scan_inputs": dict(sorted(sstats.items())), "comparisons": tot,
                               "histories": n_hist, "reopen_stream_histories": n_reopen, "corpus_histories": n_corpus,
                               "exhaustive_jobs": n_exh, "option_sets": [o[0] for o in OPTION_SETS]},
        "traces_validated_against_impl": len(results),
        "exhaustive": False,
        "correspondence": "impl (Rust, release + overflow-checks + debug-assertions) vs extracted Coq model (run_scan, run_live, run_tree_scan on the lock-step model store) vs independent Python oracle, 3-way",
        "disagreements_impl_vs_spec": reported, "disagreements_model_or_replay": ncorr_hist,
        "disagreements_note": "counted per history, outside the known class K2 only; every problem recorded from a K2 reopen on is attributed to that class (known_class_attribution)",
        "problems_seen_incl_known_class": n_problems, "problems_attributed_to_known_class": n_after_known,
        "known_events_seen": sum(len(r.known_events) for _, _, _, r in results),
        "known_class_attribution": attributed,
        "trusted_base": [
            "Coq 8.16.1 kernel (coqc, full .vo build)",
            "extraction via ExtrOcamlBasic + ocaml/scan/mx_scan.ml",
            "harness/src/bin/c03.rs and the cfg(blue_verif) hooks in lsmtk (single-step, dump, state, verif_tree)",
            "checks/c03_lib.py (frozen copy of lsmlib.py: lock-step replay, Python reference map, reference cursor)",
            "selector and recovery are validated per step, not modelled (as in C01)",
        ],
    })
    chk.assumptions = ["single-stepped execution: one client thread; the only concurrency exercised is the memtable thread's flush while a cursor is created / alive (flushscan) and writes by the same thread between cursor calls (scanw); concurrent writers/compactions are C06/C07/C20",
                       "SstCursor enumerates the file's entries in (key asc, timestamp desc) order (C10); the skiplist holds the memtable's entries in that order and its find_* functions return what their names say (C17)",
                       "the cursor combinators behave as their Cursor-area models (C11, whose theorems are imported and re-checked in the cone)",
                       "batches hold distinct keys (the store dedupes a batch naming a key twice; fixed finding e9a5d1d)",
                       "the snapshot taken between the ingest of a flushed sst and the clearing of the immutable memtable holds the flushed entries twice: outside the theorems (C11 needs distinct (key, timestamp) pairs), covered by the correspondence run only (flushscan imm=2)",
                       "after a reopen in which the recovery defect K2 is detected the store is outside the theorem's invariant: scans from that event on are attributed to K2"]


def replay(path):
    obj = json.load(open(path))
    print(json.dumps({k: obj[k] for k in obj if k != "history"}, indent=1)[:4000])
    if "history" not in obj:
        return 1
    exe, mx = build(None)
    ops = ops_from_json(obj["history"])
    uni = [bytes.fromhex(k) for k in obj["universe"]] if obj.get("universe") else None
    r = run_history(exe, mx, dict(OPTION_SETS)[obj.get("options", "default-limits")], ops, "c03r", uni)
    known = {k[1] for k in vlib.known_findings("C03") + vlib.known_findings("C01") if k[0] == "known"}
    first_known = min([e[2] for e in r.known_events if e[0] in known], default=None)
    fresh = fresh_problems(r, first_known)
    bad = [p for p in fresh if p["kind"] in PROPERTY_KINDS or (first_known is not None and p["at_event"] >= first_known)]
    for p in bad[:5]:
        print("FAILS NOW: %s %s %s %s" % (p.get("op"), p.get("lo"), p.get("hi"), p.get("prog")))
        print("  impl  :", p.get("impl", p.get("out")))
        print("  oracle:", p.get("oracle", p.get("spec")))
        print("  model :", p.get("model"))
    print("scans compared now: %d; property problems now: %d; correspondence problems now: %d; known events: %s"
          % (r.n_scans + r.n_tscans + r.n_scangets, len(bad), len(fresh) - len(bad), r.known_events[:5]))
    return 1 if bad else 0
