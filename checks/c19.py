"""C19 — the scrunch compressed text index answers every query as the uncompressed text would.

Decided by: theorems of coq/theories/Scrunch/Props_C19.v over the executable models
Scrunch/Model*.v (Sigma, backward search over psi, sampled suffix / inverse suffix arrays,
WaveletTreePsi, record boundaries through rank/select, the binary searches), tied to the code by
running the extracted model and the real scrunch types on the same generated inputs, plus the
direct oracle: a plain scan of the original text (computed here in Python, and again inside the
harness without any scrunch code).  SA-IS and the RRR / sparse / wavelet / Huffman encodings are
specified by interface and compared component-wise (every index of sa / isa / psi / sigma, every
access / rank / select of every bit vector and wavelet tree)."""
import json
import os
import time

import vlib

META = {
    "category": "proof",
    "text": "Coq theorems (Scrunch/Props_C19.v, closed under the global context; the document theorems carry the suffix _partial, the missing parts are listed in the file's header) over executable models of scrunch/src/{lib,sigma,psi/mod,psi/wavelet_tree,sa,isa,sampled,binary_search}.rs: for every text, alphabet, valid record division and needle the modelled CompressedDocument (Sigma; backward search over the WaveletTreePsi table incl. its streaming constructor, lookup, lower_bound, upper_bound and constrain; locate through the sampled suffix array; extract through the sampled inverse suffix array; record lookup by rank/select; lib.rs inverse_and_psi_u32) returns exactly the occurrences, counts, record numbers, record contents, length and record count of a plain scan, as do PsiDocument over the reference arrays and ReferenceDocument; rank/select laws and the trait-default binary searches; the prefix-code wavelet tree (prefix.rs access/rank/select over per-node bit vectors, closed for the fixed-width encoder); the two bit-vector encodings CompressedDocument uses are transcribed and proved equal to the plain bit list for every bit pattern: sparse.rs (B-tree of delta slices: from_indices / construct, access, rank, select, inherited rank0 / select0) and rrr.rs (63-bit words, classes, offsets through the binomial table K with widths L, decode inverts encode, p / r superblock samples, s0 / s1 select samples, u63::select_word, access, access_rank, rank, select, select0; no push_word assertion fails below 2^62 bits), put under the document's record boundaries and under every node of the prefix wavelet tree; SA-IS, the Huffman code book and serialisation are specified by interface only and compared with the code component-wise (every index, every bit vector, before and after re-parsing) by differential runs of Rust vs extracted model (list interface AND the structural sparse / rrr models, incl. the L / K tables entry by entry) vs a plain scan. A document with more than 65535 distinct symbols (the u32 branch of construct) is built and compared in every run.",
    "note": "Partial by construction: suffix sorting (SA-IS), the Huffman code book and the protobuf / byte framing (incl. the byte-at-a-time loops of BitArray load / push_word and the varint headers of the sparse nodes) are not proved (interface + correspondence). Inside the document model the sigma columns, the sampled arrays' presence vectors, y_key and WaveletTreePsi's wavelet trees stay plain lists read through the list functions the sparse / rrr theorems prove the encodings compute (C19_compressed_document_answers_as_scan_structural_partial re-instantiates only the record boundaries). Machine-word effects (u64 wrap, width <= 32 in FixedWidthIterator, lengths >= 2^62) are outside the models. Trusted: Coq kernel; tools/constants.py; ExtrOcamlBasic extraction + ocaml/scrunch driver; harness c19; std binary_search/partition_point/sort/HashMap as specified. Texts need a valid record division (non-empty text, last record non-empty): both constructors refuse the rest.",
}

PROPS = "theories/Scrunch/Props_C19.v"
MODULE = "Scrunch.Props_C19"
U32 = 0xFFFFFFFF


# ---------------------------------------------------------------------------- helpers
def fl(xs):
    return " ".join(str(x) for x in xs) if xs else "-"


def jn(xs):
    return ",".join(str(x) for x in xs) if xs else "-"


def doc_line(flags, text, rb, needles, offsets, records):
    return "doc|%s|%s|%s|%s|%s|%s" % (flags, fl(text), fl(rb), ";".join(fl(n) for n in needles), fl(offsets), fl(records))


def valid_rb(text, rb):
    if not rb or rb[0] != 0 or rb[-1] >= len(text):
        return False
    return all(a < b for a, b in zip(rb, rb[1:]))


def spec_tokens(text, rb, needles, offsets, records):
    """the property's own words: a plain scan of the original text (independent of scrunch)"""
    n = len(text)
    out = ["len=%d" % n, "recs=%d" % len(rb)]
    for i, nd in enumerate(needles):
        k = len(nd)
        occ = [s for s in range(n) if s + k <= n and text[s:s + k] == nd]
        out.append("S%d=%s" % (i, jn(occ)))
        out.append("C%d=%d" % (i, len(occ)))
    for o in offsets:
        if o < n:
            out.append("L%d=%d" % (o, sum(1 for b in rb if b <= o) - 1))
        else:
            out.append("L%d=E" % o)
    for r in records:
        if r < len(rb):
            lim = rb[r + 1] if r + 1 < len(rb) else n
            out.append("T%d=%s" % (r, jn(text[rb[r]:lim])))
            out.append("O%d=%d" % (r, rb[r]))
        else:
            out.append("T%d=E" % r)
            out.append("O%d=E" % r)
    return out


def sections(line):
    d = {}
    for s in line.split(" | "):
        if ": " in s:
            k, v = s.split(": ", 1)
            d[k.strip()] = v.split(" ")
    return d


# ---------------------------------------------------------------------------- text grammar
def de_bruijn(k, n):
    a = [0] * k * n
    seq = []

    def db(t, p):
        if t > n:
            if n % p == 0:
                seq.extend(a[1:p + 1])
        else:
            a[t] = a[t - p]
            db(t + 1, p)
            for j in range(a[t - p] + 1, k):
                a[t] = j
                db(t + 1, t)
    db(1, 1)
    return seq


def fib_word(n):
    a, b = [0], [0, 1]
    while len(b) < n:
        a, b = b, b + a
    return b[:n]


def thue_morse(n):
    return [bin(i).count("1") & 1 for i in range(n)]


ALPHABETS = [
    [7], [0], [U32], [0, 1], [1, 0], [65, 66, 78], [0, U32], [1048575, 1048576, 1048577], [1114111, 65536, 3, 1],
    [5, 4, 3, 2, 1], [0, 1, 2, 3, 4, 5, 6, 7, 8, 9, 10, 11, 12, 13, 14, 15, 16], [255, 256, 257, 65535, 65536, 65537],
    [U32 - 1, U32, 0, 1],
]


def gen_text(rng, maxlen, stats):
    kind = rng.below(13)
    alpha = list(rng.choice(ALPHABETS))
    if rng.chance(1, 4):
        k = rng.range(1, 6)
        base = rng.choice([0, 1, 97, 1 << 20, U32 - 8])
        alpha = [base + i * rng.range(1, 3) for i in range(k)]
    n = rng.range(1, maxlen)
    if kind == 0:
        t, name = [alpha[0]] * n, "all-equal"
    elif kind == 1:
        t, name = [alpha[0]], "single"
    elif kind == 2:
        p = rng.range(1, 5)
        t, name = [alpha[i % p % len(alpha)] for i in range(n)], "periodic"
    elif kind == 3:
        k = min(len(alpha), rng.range(2, 3))
        if k < 2:
            alpha = alpha + [alpha[0] + 1]
            k = 2
        order = rng.range(2, 4 if k == 2 else 3)
        s = de_bruijn(k, order)
        s = s + s[:order - 1]
        t, name = [alpha[x] for x in s][:max(n, len(s)) if maxlen >= len(s) else maxlen], "de-bruijn"
    elif kind == 4:
        if len(alpha) < 2:
            alpha = alpha + [alpha[0] + 1]
        t, name = [alpha[x] for x in fib_word(n)], "fibonacci"
    elif kind == 5:
        if len(alpha) < 2:
            alpha = alpha + [alpha[0] + 1]
        t, name = [alpha[x] for x in thue_morse(n)], "thue-morse"
    elif kind == 6:
        t, name = [], "runs"
        while len(t) < n:
            t += [rng.choice(alpha)] * rng.range(1, 6)
        t = t[:n]
    elif kind == 7:
        big = [U32, U32 - 1, (1 << 20), (1 << 20) + 1, (1 << 20) - 1, 0x10FFFF, 1 << 31, 0]
        t, name = [rng.choice(big) for _ in range(n)], "large-code-points"
    elif kind == 8:
        t, name = [alpha[0]] * (n - 1) + [alpha[-1] if len(alpha) > 1 else alpha[0] + 1], "all-equal-but-last"
    elif kind == 9:
        t, name = [(alpha[-1] if len(alpha) > 1 else alpha[0] + 1)] + [alpha[0]] * (n - 1), "all-equal-but-first"
    elif kind == 10:
        t, name = list(range(n, 0, -1)) if rng.chance(1, 2) else list(range(1, n + 1)), "all-distinct"
    else:
        t, name = [rng.choice(alpha) for _ in range(n)], "random"
    if not t:
        t = [alpha[0]]
    stats["text_kinds"][name] = stats["text_kinds"].get(name, 0) + 1
    return [x & U32 for x in t]


def gen_rb(rng, n, stats):
    k = rng.below(6)
    if k == 0:
        rb, name = [0], "one-record"
    elif k == 1:
        rb, name = list(range(n)), "one-symbol-per-record"
    elif k == 2 and n > 1:
        rb, name = [0, rng.range(1, n - 1)], "two-records"
    elif k == 3:
        rb, name = [0] + [i for i in range(1, n) if rng.chance(1, 2)], "dense"
    else:
        rb, name = [0] + [i for i in range(1, n) if rng.chance(1, 6)], "sparse"
    stats["divisions"][name] = stats["divisions"].get(name, 0) + 1
    return rb


def gen_needles(rng, text, rb, maxlen, limit):
    n = len(text)
    alpha = sorted(set(text))
    absent = [x for x in [(alpha[0] - 1) & U32, (alpha[-1] + 1) & U32, 9, U32 - 3] if x not in alpha][:1] or [alpha[0]]
    nds = [[]]
    seen = set()

    def add(x):
        key = tuple(x)
        if key not in seen and len(nds) < limit:
            seen.add(key)
            nds.append(list(x))
    # every substring up to maxlen (boundary-crossing ones included by construction)
    for L in range(1, maxlen + 1):
        for s in range(0, max(0, n - L + 1)):
            add(text[s:s + L])
    # needles that cross each record boundary
    for b in rb[1:]:
        for a in range(max(0, b - 2), b):
            for e in range(b + 1, min(n, b + 2) + 1):
                add(text[a:e])
    add(text)
    add(text + [alpha[0]])
    add(text[1:])
    add(text[:-1] if n > 1 else text)
    add(absent)
    add([alpha[0]] + absent)
    add(absent + [alpha[-1]])
    for _ in range(6):
        L = rng.range(1, maxlen + 1)
        add([rng.choice(alpha + absent) for _ in range(L)])
    if n >= 2:
        add([text[-1], text[0]])
        add(text[-2:] + absent)
    return nds


def invalid_rbs(rng, n):
    return [[], [1] if n > 1 else [5], [0, 0], [0, n], [0, n + 3], [0, 2, 1] if n > 2 else [0, 1, 1], [0, 1, 1] if n > 1 else [0, 0]]


# ---------------------------------------------------------------------------- bit vectors
BV_KINDS = ["ref", "rrr", "sparse", "sparse4", "sparse128", "cfrrr"]
BV_SPECIAL = [0, 1, 2, 3, 15, 16, 17, 62, 63, 64, 65, 125, 126, 127, 128, 255, 256, 257, 503, 504, 505, 511, 512, 513, 1007, 1008, 1009,
              1448, 1449, 1450, 2897, 2898, 2899, 4032, 4096]   # 63 = word, 504 = rrr block, 1449 = cf_rrr block


def runs_to_bits(runs):
    bits = []
    for n, b in runs:
        bits.extend([b] * n)
    return bits


def gen_bv_runs(rng, small):
    k = rng.below(8)
    if k == 0:
        return []
    if k == 1:
        return [(rng.choice(BV_SPECIAL if not small else [1, 2, 3, 62, 63, 64, 65, 126, 127]), 1)]
    if k == 2:
        return [(rng.choice(BV_SPECIAL if not small else [1, 2, 3, 62, 63, 64, 65, 126, 127]), 0)]
    if k == 3:
        n = rng.range(1, 90 if small else 9000)
        return [(1, i & 1) for i in range(n)]
    if k == 4:
        w = rng.choice([1, 2, 3, 21, 63, 64] if small else [63, 64, 504, 4032, 126])
        c = rng.range(1, 3 if small else 30)
        return [(w, (i + rng.below(2)) & 1) for i in range(c)]
    runs = []
    total = 0
    cap = 190 if small else rng.choice([600, 5000, 30000])
    for _ in range(rng.range(1, 8 if small else 60)):
        n = rng.choice([1, 1, 2, 3, 7, 62, 63, 64, 65]) if small or rng.chance(1, 2) else rng.choice(BV_SPECIAL + [rng.range(0, 3000)])
        if total + n > cap:
            break
        total += n
        runs.append((n, rng.below(2)))
    return runs


def bv_tables(bits):
    n = len(bits)
    rank = [0] * (n + 1)
    s1, s0 = [0], [0]
    for i, b in enumerate(bits):
        rank[i + 1] = rank[i] + b
        (s1 if b else s0).append(i + 1)
    ones, zeros = len(s1) - 1, len(s0) - 1
    a = [str(bits[i]) if i < n else "N" for i in range(n + 2)]
    r = [str(rank[i]) if i <= n else "N" for i in range(n + 2)]
    z = [str(i - rank[i]) if i <= n else "N" for i in range(n + 2)]
    s = [str(s1[i]) if i <= ones else "N" for i in range(ones + 3)]
    t = [str(s0[i]) if i <= zeros else "N" for i in range(zeros + 3)]
    return a, r, z, s, t


def fnv_tables(tabs):
    h = 0xcbf29ce484222325
    M = (1 << 64) - 1
    P = 0x100000001b3
    for tab in tabs:
        for g in tab:
            for ch in g.encode():
                h = ((h ^ ch) * P) & M
            h = ((h ^ 0x2c) * P) & M
    return "%016x" % h


# ---------------------------------------------------------------------------- running
def run_lines(exe, lines, workdir, tag, timeout=3000):
    p = os.path.join(workdir, tag + ".in")
    with open(p, "w") as fh:
        fh.write("\n".join(lines) + "\n")
    rc, out = vlib.sh("%s < %s" % (exe, p), timeout=timeout)
    res = out.split("\n")
    if res and res[-1] == "":
        res.pop()
    if len(res) != len(lines):
        raise RuntimeError("%s: %d output lines for %d cases (rc=%s): %s" % (tag, len(res), len(lines), rc, out[-600:]))
    return res


def case_deadline(line, quick):
    """seconds a single harness case may take before it counts as 'does not terminate'"""
    f = line.split("|")
    if f[0] in ("fuzz", "deep"):
        return 600 if quick else 3000
    if f[0] == "bv" and len(f) > 2 and f[2] != "-":
        return 20 + sum(int(r.split(":")[0]) for r in f[2].split()) // 400
    return 20


def run_lines_deadline(exe, lines, workdir, tag, quick, max_hung=3):
    """run the harness over the lines with a deadline on EVERY case (the harness flushes one output
    line per case): a case that does not answer in time is killed, its output is "TIMEOUT", and the
    harness is restarted on the cases after it.  Returns (outputs, [indices of hung cases])."""
    import select
    import subprocess
    outs, hung, start = [None] * len(lines), [], 0
    while start < len(lines):
        p = os.path.join(workdir, tag + ".in")
        with open(p, "w") as fh:
            fh.write("\n".join(lines[start:]) + "\n")
        e = dict(os.environ)
        with open(p, "rb") as fin:
            proc = subprocess.Popen([exe], stdin=fin, stdout=subprocess.PIPE, stderr=subprocess.DEVNULL, env=e)
        fd, buf, i, t0, timed_out, eof = proc.stdout.fileno(), b"", start, time.time(), False, False
        while i < len(lines):
            nl = buf.find(b"\n")
            if nl >= 0:
                outs[i] = buf[:nl].decode("utf-8", "replace")
                buf, i, t0 = buf[nl + 1:], i + 1, time.time()
                continue
            left = case_deadline(lines[i], quick) - (time.time() - t0)
            ready = select.select([fd], [], [], left)[0] if left > 0 else []
            if not ready:
                timed_out = True
                break
            chunk = os.read(fd, 1 << 20)
            if not chunk:
                eof = True
                break
            buf += chunk
        if timed_out:
            proc.kill()
            proc.wait()
            outs[i] = "TIMEOUT"
            hung.append(i)
            start = i + 1
            if len(hung) >= max_hung:
                for k in range(start, len(lines)):
                    outs[k] = "SKIPPED"
                break
            continue
        rc = proc.wait()
        if eof or i < len(lines):
            raise RuntimeError("%s: the harness died after %d of %d cases (rc=%s) at: %s" % (tag, i, len(lines), rc, lines[i][:600] if i < len(lines) else ""))
        start = len(lines)
    return outs, hung


def load_corpus():
    d = os.path.join(vlib.VERIF, "corpus", "C19")
    cases = []
    if os.path.isdir(d):
        for fn in sorted(os.listdir(d)):
            if fn.endswith(".json"):
                with open(os.path.join(d, fn)) as fh:
                    c = json.load(fh)
                cases.append((fn, c))
    return cases


def small_scope_docs(alpha, maxn, maxpat, absent):
    """every text over `alpha` up to length maxn x every record division x every pattern up to maxpat"""
    out = []
    pats = [[]]
    frontier = [[]]
    for _ in range(maxpat):
        frontier = [p + [c] for p in frontier for c in alpha + [absent]]
        pats += frontier
    for n in range(1, maxn + 1):
        for code in range(len(alpha) ** n):
            t, c = [], code
            for _ in range(n):
                t.append(alpha[c % len(alpha)])
                c //= len(alpha)
            for mask in range(1 << (n - 1)):
                rb = [0] + [i for i in range(1, n) if (mask >> (i - 1)) & 1]
                out.append((t, rb, pats + [t, t + [alpha[0]]]))
    return out


def run(chk):
    ok_proof, info = vlib.proof_stage(chk, PROPS, MODULE, const_areas=("Scrunch",), pins_rel="pins/C19.v")
    okx, outx = vlib.coq_make(["theories/Scrunch/Extract.vo"])
    okm, outm, mx = vlib.ocaml_build("scrunch", "mx_scrunch")
    okh, outh, (hxbin,) = vlib.cargo_build(["c19"])
    if not (okx and okm):
        raise RuntimeError("model build failed:\n" + outx[-1500:] + outm[-1500:])
    if not okh:
        raise RuntimeError("harness build failed (does /repo still compile?):\n" + outh[-3000:])

    quick = chk.tier == "quick"
    rng = vlib.Rng(chk.seed * 1000003 + 19)
    stats = {"text_kinds": {}, "divisions": {}, "doc_cases_with_model": 0, "doc_cases_impl_only": 0, "invalid_divisions": 0,
             "needles": 0, "needles_with_hits": 0, "needles_absent": 0, "needles_crossing_boundary": 0,
             "max_text_len": 0, "max_alphabet": 0, "bit_vectors_small": 0, "bit_vectors_large": 0, "max_bits": 0,
             "wavelet_strings": 0, "sais_texts": 0, "fuzz_docs_in_harness": 0}

    # ---------------- document cases: (line, text, rb, needles, offsets, records, has_model)
    docs = []

    def add_doc(flags, text, rb, needles, has_model, tag):
        n = len(text)
        offsets = list(range(n + 3)) if n <= 80 else sorted(set([0, 1, n // 2, n - 1, n, n + 1] + [rng.below(n) for _ in range(40)]))
        recs = list(range(len(rb) + 2)) if len(rb) <= 60 else sorted(set([0, 1, len(rb) - 1, len(rb), len(rb) + 1] + [rng.below(len(rb)) for _ in range(30)]))
        docs.append({"line": doc_line(flags, text, rb, needles, offsets, recs), "text": text, "rb": rb, "needles": needles,
                     "offsets": offsets, "records": recs, "model": has_model, "tag": tag})

    ncorpus = 0
    corpus_bv = []
    corpus_bvidx = []
    for fn, c in load_corpus():
        if c.get("kind") == "bv":
            for ln in c["lines"]:
                runs = [(int(r.split(":")[0]), int(r.split(":")[1])) for r in ln.split("|")[2].split()]
                corpus_bv.append(runs)
            continue
        if c.get("kind") == "bvidx":
            for ln in c["lines"]:
                f = ln.split("|")
                corpus_bvidx.append((int(f[1]), int(f[2]), [] if f[3].strip() in ("-", "") else [int(x) for x in f[3].split()]))
            continue
        add_doc(c.get("flags", "CDkRPWXN"), c["text"], c["rb"], c["needles"], c.get("model", True), "corpus:" + fn)
        ncorpus += 1

    # exhaustive small scope
    if quick:
        scopes = [([1, 2], 4, 3, 9)] if chk.seed % 2 else [([0, U32], 4, 3, 7)]
        scopes.append(([5, 3, 8], 3, 2, 1))
    else:
        scopes = [([1, 2], 6, 3, 9), ([0, U32], 5, 3, 7), ([5, 3, 8], 5, 2, 1), ([1, 2, 3, 4], 4, 2, 0)]
    nscope = 0
    for alpha, maxn, maxpat, absent in scopes:
        for t, rb, pats in small_scope_docs(alpha, maxn, maxpat, absent):
            add_doc("CDkcRPWXN", t, rb, pats, True, "scope")
            nscope += 1

    # grammar of degenerate texts, with the model
    for k in range(420 if quick else 4000):
        t = gen_text(rng, 9 if k % 3 == 0 else 40, stats)
        rb = gen_rb(rng, len(t), stats)
        nds = gen_needles(rng, t, rb, 3 if len(t) > 12 else 4, 70)
        add_doc("CDkcRPWXN" if len(t) <= 9 else "CDkRPWXN", t, rb, nds, True, "grammar%d" % k)
        if k % 9 == 0:
            for bad in invalid_rbs(rng, len(t))[: 3 if quick else 7]:
                add_doc("CRPWXN", t, bad, nds[:4], True, "invalid%d" % k)
                stats["invalid_divisions"] += 1
    # texts long enough for the suffix-array sampling (stride 64) to matter, still with the model
    for k in range(10 if quick else 150):
        t = gen_text(rng, 230, stats)
        if len(t) < 66:
            t = (t * 70)[:rng.range(66, 200)]
        rb = gen_rb(rng, len(t), stats)
        nds = gen_needles(rng, t, rb, 2, 24)
        add_doc("CDkRPWXN", t, rb, nds, True, "long%d" % k)
    add_doc("CRPWXN", [], [0], [[], [1]], True, "empty-text")
    add_doc("CRPWXN", [], [], [[]], True, "empty-text-no-records")

    # medium / large documents: implementation vs plain scan only
    for k in range(30 if quick else 300):
        kind = k % 6
        if kind == 0:      # alphabets around the u8 / u16 symbol-width thresholds
            K = rng.choice([254, 255, 256, 257, 258])
            t = list(range(K)) + [rng.below(K) for _ in range(rng.range(0, 300))]
        elif kind == 1:    # thousands of symbols
            K = rng.range(1000, 4000)
            t = [rng.below(K) * 7 for _ in range(rng.range(K, 2 * K))]
        elif kind == 2:    # one symbol per record, several levels of the sparse tree
            t = gen_text(rng, rng.choice([300, 5000]), stats)
        elif kind == 3:
            t = [3] * rng.range(100, 3000)
        elif kind == 4:
            p = rng.range(1, 7)
            t = [(i % p) * 1000003 & U32 for i in range(rng.range(100, 3000))]
        else:
            t = gen_text(rng, 1500, stats)
        rb = list(range(len(t))) if kind == 2 else gen_rb(rng, len(t), stats)
        nds = gen_needles(rng, t, rb, 2, 40)
        add_doc("CDRXN" if len(t) <= 400 else "CDRN", t, rb, nds, False, "medium%d" % k)
    # the u32 branch of PsiDocument::construct (more than 65535 distinct symbols) is reached by no smaller text:
    # one such document in EVERY run (seeded/C19-r3-3 swapped isa and psi in that branch only and escaped the
    # quick tier, which built this document for one seed in three), the threshold from below in the thorough tier
    for K in ([65536 + rng.below(3)] if quick else [65535, 65536, 65537 + rng.below(3)]):
        t = list(range(K)) + [rng.below(K) for _ in range(2000)]
        add_doc("CRN", t, [0, 5, K], [[1, 2], [K - 1], [K - 2, K - 1], [70000]], False, "u16-threshold")

    lines = [d["line"] for d in docs]
    # ---------------- bit vectors
    bvs = [(runs, len(runs_to_bits(runs)) <= 200) for runs in corpus_bv]
    for k in range(240 if quick else 2500):
        runs = gen_bv_runs(rng, True)
        bvs.append((runs, True))
    for k in range(14 if quick else 200):
        runs = gen_bv_runs(rng, False)
        bvs.append((runs, len(runs_to_bits(runs)) <= 200))
    for runs in [[(70000, 1)], [(35000, 0), (35000, 1)], [(1, 1), (1, 0)] * 9000, [(63, 1), (63, 0)] * 70, [(4032, 0), (1, 1)] * 4] if not quick else [[(20000, 1)], [(1, 1), (1, 0)] * 3000]:
        bvs.append((runs, False))
    # medium vectors (several 504-bit superblocks, several 64-one / 64-zero select samples): the
    # structural model of rrr runs on these too
    for k in range(10 if quick else 160):
        dens = rng.choice([0, 1, 2, 8, 32, 62, 63])
        runs, total, cap = [], 0, rng.choice([504, 505, 567, 1008, 1100, 1500])
        while total < cap:
            n = min(cap - total, rng.choice([1, 1, 2, 5, 40, 63, 64, 130, 504]) if dens in (0, 63) or rng.chance(1, 3) else 1)
            b = 1 if dens == 63 else 0 if dens == 0 else int(rng.below(64) < dens)
            if dens in (0, 63) and rng.chance(1, 5):
                b ^= 1
                n = 1
            runs.append((n, b))
            total += n
        bvs.append((runs, False))
    bv_lines, bv_meta = [], []
    for runs, small in bvs:
        spec = " ".join("%d:%d" % (n, b) for n, b in runs) if runs else "-"
        nbits = sum(n for n, _ in runs)
        for kind in BV_KINDS:
            bv_lines.append("bv|%s|%s" % (kind, spec))
            bv_meta.append((kind, runs, small or (kind == "rrr" and nbits <= 1600)))
    # ---------------- sparse::BitVector::from_indices on arbitrary index lists
    bvidx = list(corpus_bvidx)
    for k in range(120 if quick else 1500):
        n = rng.choice([0, 1, 2, 5, 16, 17, 63, 64, 200]) if rng.chance(2, 3) else rng.range(0, 190)
        idx = sorted(set(rng.below(max(n, 1)) for _ in range(rng.range(0, min(n, 40) + 1)))) if n else []
        shape = rng.below(8)
        if shape == 0:
            idx = [i for i in idx if i < n] + [n]                 # last index = len
        elif shape == 1:
            idx = idx + [n + 1 + rng.below(3)]                    # last index > len
        elif shape == 2 and idx:
            idx = idx + [idx[-1]]                                 # duplicate
        elif shape == 3 and len(idx) > 1:
            j = rng.below(len(idx) - 1)
            idx[j], idx[j + 1] = idx[j + 1], idx[j]               # unsorted
        bvidx.append((rng.choice([3, 4, 4, 16, 16, 16, 128, 255, 256]), n, idx))
    bvidx_lines = ["bvidx|%d|%d|%s" % (b, n, fl(idx)) for b, n, idx in bvidx]
    # ---------------- wavelet trees
    wt_lines, wt_meta = [], []
    for k in range(60 if quick else 1200):
        n = rng.range(0, 60)
        a = rng.choice([[1], [0, 1], [1, 2, 3], [0, 5, 9, 200, 70000], list(range(20)), list(range(0, 40, 3))])
        skew = rng.chance(1, 2)
        s = [a[min(len(a) - 1, rng.below(len(a)) * rng.below(2) if skew else rng.below(len(a)))] for _ in range(n)]
        for kind in ["ref", "huff", "fixed"]:
            wt_lines.append("wt|%s|%s" % (kind, fl(s)))
            wt_meta.append((kind, s))
    # ---------------- suffix sorting
    sais_lines, sais_meta = [], []
    for k in range(60 if quick else 1500):
        t = gen_text(rng, 50, stats)
        sais_lines.append("sais|%s" % fl(t))
        sais_meta.append(t)
    # ---------------- implementation-only: in-harness random search and deep codes
    fuzz_lines = []
    fs = rng.u64() % (1 << 40)
    if quick:
        fuzz_lines += ["fuzz|%d|6000|14|0" % fs, "fuzz|%d|1500|120|3" % (fs + 1), "fuzz|%d|300|900|300" % (fs + 2), "fuzz|%d|16|12000|6000" % (fs + 3),
                       "deep|wt|34"]
    else:
        fuzz_lines += ["fuzz|%d|60000|14|0" % fs, "fuzz|%d|40000|60|3" % (fs + 1), "fuzz|%d|6000|900|300" % (fs + 2), "fuzz|%d|600|6000|3000" % (fs + 3),
                       "fuzz|%d|40|70000|40000" % (fs + 4), "deep|wt|34", "deep|wt|36", "deep|doc|33", "deep|doc|34"]

    model_lines = [d["line"] if d["model"] else "" for d in docs]
    impl_in = lines + bv_lines + wt_lines + sais_lines + fuzz_lines + bvidx_lines
    impl_out, hung = run_lines_deadline(hxbin, impl_in, chk.work, "impl", quick)
    model_in = model_lines + [l if m[2] else "" for l, m in zip(bv_lines, bv_meta)] + wt_lines + sais_lines + bvidx_lines + ["rrrtab"]
    model_out = run_lines(mx, model_in, chk.work, "model")

    evaluations = 0
    prop_bad, corr_bad, machinery = [], [], []
    # a case the implementation does not answer within its deadline is a failure of the property
    # ("answers every query"): the input is the replay
    for i in hung:
        prop_bad.append({"variant": "query does not terminate", "line": impl_in[i], "deadline_s": case_deadline(impl_in[i], quick),
                         "what": "the harness did not answer this case within its deadline and was killed"})
    stats["cases_not_terminating"] = len(hung)
    distinct = set()

    # ---------------- documents
    for d, io, mo in zip(docs, impl_out, model_out):
        text, rb = d["text"], d["rb"]
        n = len(text)
        si = sections(io)
        ok_div = valid_rb(text, rb)
        stats["max_text_len"] = max(stats["max_text_len"], n)
        stats["max_alphabet"] = max(stats["max_alphabet"], len(set(text)))
        if d["model"]:
            stats["doc_cases_with_model"] += 1
        else:
            stats["doc_cases_impl_only"] += 1
        if ok_div:
            spec = spec_tokens(text, rb, d["needles"], d["offsets"], d["records"])
            in_scope = [not (t.startswith("L") and int(t[1:t.index("=")]) >= n) for t in spec]
            for i, nd in enumerate(d["needles"]):
                stats["needles"] += 1
                hits = spec[2 + 2 * i] != "S%d=-" % i
                stats["needles_with_hits"] += hits
                if nd and any(c not in text for c in nd):
                    stats["needles_absent"] += 1
                if hits and nd and len(rb) > 1:
                    occ = [int(x) for x in spec[2 + 2 * i].split("=")[1].split(",")]
                    if any(s < b < s + len(nd) for s in occ for b in rb[1:]):
                        stats["needles_crossing_boundary"] += 1
            if n >= 2 and any(spec[2 + 2 * i] != "S%d=-" % i for i in range(1, len(d["needles"]))):
                distinct.add(d["line"])
            if "N" in si and si["N"] != spec:
                machinery.append("harness naive scan differs from the Python scan: " + d["line"][:300])
            for name in ("C", "D", "R", "P", "W", "X"):
                if name not in si:
                    continue
                got = si[name]
                if name == "D":
                    if got == ["same"]:
                        continue
                    got = si["D"]
                if len(got) != len(spec):
                    prop_bad.append({"variant": name, "line": d["line"], "got": " ".join(got)[:600], "spec": " ".join(spec)[:600], "tag": d["tag"]})
                    continue
                evaluations += sum(in_scope)
                diffs = [(g, s) for g, s, k in zip(got, spec, in_scope) if k and g != s]
                if diffs:
                    prop_bad.append({"variant": name, "line": d["line"], "first_differences(got,spec)": diffs[:5], "tag": d["tag"]})
        else:
            for name in ("C", "R", "P", "W", "X"):
                if name in si:
                    evaluations += 1
                    if si[name] != ["CE"]:
                        prop_bad.append({"variant": name, "line": d["line"], "got": " ".join(si[name])[:300], "spec": "construct must refuse this division (CE)", "tag": d["tag"]})
        if d["model"]:
            sm = sections(mo)
            for name in sm:
                if name == "N":
                    if ok_div and sm["N"] != spec:
                        machinery.append("model specification section differs from the Python scan: " + d["line"][:300])
                    continue
                evaluations += len(sm[name])
                if name not in si or si[name] != sm[name]:
                    got = si.get(name, [])
                    diffs = [(g, m) for g, m in zip(got, sm[name]) if g != m][:4]
                    corr_bad.append({"section": name, "line": d["line"], "first_differences(impl,model)": diffs or [(" ".join(got)[:200], " ".join(sm[name])[:200])], "tag": d["tag"]})

    # ---------------- bit vectors
    off = len(docs)
    by_vec = {}
    for j, (kind, runs, small) in enumerate(bv_meta):
        io, mo = impl_out[off + j], model_out[off + j]
        bits = runs_to_bits(runs)
        key = id(runs)
        if key not in by_vec:
            tabs = bv_tables(bits)
            by_vec[key] = (tabs, fnv_tables(tabs) if len(bits) <= 40000 else None)
            stats["bit_vectors_small" if small else "bit_vectors_large"] += 1
            stats["max_bits"] = max(stats["max_bits"], len(bits))
        tabs, h = by_vec[key]
        toks = dict(t.split("=", 1) for t in io.split(" ") if "=" in t)
        evaluations += sum(len(t) for t in tabs)
        bad = None
        if toks.get("len") != str(len(bits)) or toks.get("bad") != "0":
            bad = "implementation disagrees with a plain bit array: " + io[-200:]
        elif h is not None and toks.get("h") != h:
            bad = "digest of access/rank/rank0/select/select0 tables %s differs from the plain bit array's %s" % (toks.get("h"), h)
        elif len(bits) <= 200:
            for nm, tab in zip("arzst", tabs):
                if toks.get(nm) != ",".join(tab):
                    bad = "table %s: %s expected %s" % (nm, toks.get(nm), ",".join(tab))
                    break
        if bad:
            prop_bad.append({"variant": "bit_vector:" + kind, "line": bv_lines[j][:2000], "what": bad})
        if small:
            mo_halves = mo.split(" || ")
            mo = mo_halves[0]
            if len(mo_halves) > 1:
                # the structural model of this implementation (sparse B-tree / rrr blocks)
                st = dict(t.split("=", 1) for t in mo_halves[1].split(" ") if "=" in t)
                stats["structural_" + ("rrr" if kind == "rrr" else "sparse")] = stats.get("structural_" + ("rrr" if kind == "rrr" else "sparse"), 0) + 1
                if len(bits) > 200:
                    # the implementation printed the digest of its tables, found equal to the plain
                    # bit array's above: the tables themselves are `tabs`
                    toks = dict(toks)
                    toks.update({nm: ",".join(tab) for nm, tab in zip("arzst", tabs)})
                for nm in "arzst":
                    if st.get(nm) != toks.get(nm):
                        corr_bad.append({"section": "bit_vector:" + kind + ":structural-model:" + nm, "line": bv_lines[j][:2000], "impl": (toks.get(nm) or "")[:3000], "model": st.get(nm, mo_halves[1][:80])[:3000]})
                        break
            mt = dict(t.split("=", 1) for t in mo.split(" ") if "=" in t)
            for nm in "arzst":
                if mt.get(nm) != toks.get(nm):
                    corr_bad.append({"section": "bit_vector:" + kind + ":" + nm, "line": bv_lines[j][:2000], "impl": toks.get(nm), "model": mt.get(nm)})
                    break
            if mt.get("ds") != mt.get("s"):
                corr_bad.append({"section": "bit_vector:default_select", "line": bv_lines[j][:2000], "model_default": mt.get("ds"), "model_spec": mt.get("s")})
    # ---------------- wavelet trees
    off += len(bv_lines)
    for j, (kind, s) in enumerate(wt_meta):
        io, mo = impl_out[off + j], model_out[off + j]
        stats["wavelet_strings"] += (kind == "ref")
        evaluations += len(mo.split(" "))
        if " bad=0" not in " " + io:
            prop_bad.append({"variant": "wavelet_tree:" + kind, "line": wt_lines[j], "what": io[-300:]})
        else:
            halves = mo.split(" || ")
            for which, mtoks in zip(("list-interface", "prefix-tree-structure", "prefix-tree-over-rrr-model"), halves):
                if io.split(" bad=")[0] != mtoks:
                    corr_bad.append({"section": "wavelet_tree:" + kind + ":" + which, "line": wt_lines[j], "impl": io[:300], "model": mtoks[:300]})
    # ---------------- suffix sorting
    off += len(wt_lines)
    for j, t in enumerate(sais_meta):
        io, mo = impl_out[off + j], model_out[off + j]
        stats["sais_texts"] += 1
        alpha = sorted(set(t))
        s = [alpha.index(x) + 1 for x in t] + [0]
        exp = sorted(range(len(s)), key=lambda i: s[i:])
        isa_ = [0] * len(s)
        for i_, p_ in enumerate(exp):
            isa_[p_] = i_
        psi_ = [isa_[(p_ + 1) % len(s)] for p_ in exp]
        evaluations += 2 * len(s)
        if io != "sa=%s ok32=1 ok=1 psi=%s psi3=1" % (jn(exp), jn(psi_)):
            prop_bad.append({"variant": "sais/psi", "line": sais_lines[j], "got": io[:300], "spec": "sa=%s psi=%s" % (jn(exp), jn(psi_))})
        if mo != "sa=%s psi=%s" % (jn(exp), jn(psi_)):
            corr_bad.append({"section": "sais/psi", "line": sais_lines[j], "model": mo[:300], "sorted": jn(exp)})
    # ---------------- from_indices on arbitrary index lists
    ioff = len(impl_in) - len(bvidx_lines)
    moff = len(model_in) - 1 - len(bvidx_lines)
    stats["from_indices_cases"] = len(bvidx)
    stats["from_indices_must_refuse"] = 0
    for j, (br, n, idx) in enumerate(bvidx):
        io, mo = impl_out[ioff + j], model_out[moff + j]
        accept = 4 <= br < 256 and all(a < b for a, b in zip(idx, idx[1:])) and (not idx or idx[-1] < n)
        stats["from_indices_must_refuse"] += (not accept)
        evaluations += 1
        if not accept:
            if io != "CE":
                prop_bad.append({"variant": "sparse::from_indices accepts an index list that is not a bit vector of this length", "line": bvidx_lines[j],
                                 "what": "branch=%d len=%d indices=%s: expected refusal, got %s" % (br, n, fl(idx), io[:400])})
            if mo != "CE":
                corr_bad.append({"section": "sparse:from_indices:acceptance", "line": bvidx_lines[j], "impl": io[:200], "model": mo[:200]})
            continue
        bits = [0] * n
        for i in idx:
            bits[i] = 1
        tabs = bv_tables(bits)
        toks = dict(t.split("=", 1) for t in io.split(" ") if "=" in t)
        evaluations += sum(len(t) for t in tabs)
        if not io.startswith("OK ") or toks.get("len") != str(n) or toks.get("bad") != "0" or any(toks.get(nm) != ",".join(tab) for nm, tab in zip("arzst", tabs)):
            prop_bad.append({"variant": "bit_vector:sparse:from_indices", "line": bvidx_lines[j], "what": io[-400:]})
        mt = dict(t.split("=", 1) for t in mo.split(" ") if "=" in t)
        if not mo.startswith("OK ") or any(mt.get(nm) != toks.get(nm) for nm in "arzst"):
            corr_bad.append({"section": "sparse:from_indices:structural-model", "line": bvidx_lines[j], "impl": io[:300], "model": mo[:300]})
    # ---------------- the L / K tables of rrr.rs against the model's (and against n-choose-k)
    import math
    import re
    src = open(os.path.join(vlib.REPO, "scrunch/src/bit_vector/rrr.rs")).read()
    mL = re.search(r"const L: &\[usize\] = &\[(.*?)\];", src, re.S)
    mK = re.search(r"const K: &\[&\[u64\]\] = &\[(.*?)\n\];", src, re.S)
    if not mL or not mK:
        raise RuntimeError("cannot find the L / K tables in scrunch/src/bit_vector/rrr.rs")
    src_L = [int(x) for x in re.findall(r"\d+", mL.group(1))]
    src_K = [[int(x) for x in re.findall(r"\d+", row)] for row in re.findall(r"&\[(.*?)\]", mK.group(1), re.S)]
    tab = dict(t.split("=", 1) for t in model_out[-1].split(" ") if "=" in t)
    mod_L = [int(x) for x in tab.get("L", "").split(",") if x]
    mod_K = [[int(x) for x in row.split(",") if x] for row in tab.get("K", "").split(";")]
    evaluations += len(src_L) + sum(len(r) for r in src_K)
    stats["rrr_table_entries"] = len(src_L) + sum(len(r) for r in src_K)
    if mod_K != [[math.comb(n, k) for k in range(n + 1)] for n in range(64)]:
        raise RuntimeError("the model's K table is not Pascal's triangle (machinery error)")
    if src_L != mod_L:
        corr_bad.append({"section": "rrr:L-table", "impl": jn(src_L), "model": jn(mod_L)})
    if src_K != mod_K:
        rows = [n for n in range(max(len(src_K), len(mod_K))) if n >= len(src_K) or n >= len(mod_K) or src_K[n] != mod_K[n]]
        corr_bad.append({"section": "rrr:K-table", "rows": rows[:10], "impl": jn(src_K[rows[0]]) if rows[0] < len(src_K) else None,
                         "model": jn(mod_K[rows[0]]) if rows[0] < len(mod_K) else None})
    # ---------------- in-harness search, deep codes
    off += len(sais_lines)
    for j, l in enumerate(fuzz_lines):
        io = impl_out[off + j]
        if l.startswith("fuzz"):
            stats["fuzz_docs_in_harness"] += int(l.split("|")[2])
            if io.startswith("ok "):
                evaluations += int(io.split("evals=")[1])
            else:
                rl = io.split(" :: ")[-1] if " :: " in io else l
                prop_bad.append({"variant": "C(in-harness random search)", "line": rl, "what": io[:500], "generator": l})
        else:
            if " bad=0" in io:
                evaluations += int(io.split("checks=")[1].split(" ")[0])
            else:
                prop_bad.append({"variant": "deep-prefix-code", "line": l, "what": io[:300]})

    if machinery:
        raise RuntimeError("the check's own oracles disagree (machinery error, not a verdict): " + machinery[0])

    chk.coverage.update({
        "evaluations": evaluations, "distinct_nontrivial": len(distinct),
        "rule": "documents from a grammar of degenerate texts (all-equal, single, periodic, de Bruijn, Fibonacci, Thue-Morse, runs, large code points incl. 0 / 2^20+-1 / 2^32-1, all-distinct, random) x record divisions (one record, one symbol per record, two records, dense, sparse, invalid) x needles (every substring up to a bound, boundary-crossing, absent symbols, whole text, longer than the text, empty) from one SplitMix64 seed, plus exhaustive small scopes (every text x every division x every pattern) and alphabets at the 256 / 65536 symbol-width thresholds; non-trivial = text of >= 2 symbols with at least one non-empty needle that occurs; distinct = distinct case lines; evaluations = individual query results compared (len, records, search, count, lookup, retrieve, offset_of, every sa/isa/psi/sigma index, every constrain, every access/rank/select)",
        "samples": [docs[ncorpus + nscope + 3]["line"][:400], docs[-2]["line"][:300], bv_lines[7][:200]],
        "input_distribution": stats, "corpus_cases": ncorpus, "exhaustive_small_scope_docs": nscope,
        "correspondence": "impl (CompressedDocument, re-parsed copy, ReferenceDocument, PsiDocument over reference arrays, over WaveletTreePsi<ReferenceWaveletTree>, over sampled arrays + fixed-width wavelet tree; components sa/isa/psi/sigma/constrain at every index; 6 bit-vector implementations; 3 wavelet trees; sais) vs extracted Coq model vs a plain scan in Python and in the harness",
        "disagreements_impl_vs_model": len(corr_bad), "disagreements_impl_vs_spec": len(prop_bad),
        "trusted_base": [
            "Coq 8.16.1 kernel (coqc, full .vo build)",
            "tools/constants.py (CTX_MAX / CTX_SZ re-extracted from scrunch/src/psi/wavelet_tree.rs); the sampling rate 6 is a literal in lib.rs, retyped",
            "extraction via ExtrOcamlBasic (no Extract Constant of ours) + ocaml/scrunch/mx_scrunch.ml driver",
            "harness/src/bin/c19.rs (its naive scan is cross-checked against the Python scan on every case)",
            "by interface, compared not proved: SA-IS (sais.rs), the cf_rrr / reference bit vectors, the Huffman encoder (incl. the one-symbol book), serialise + re-parse of every structure (bit arrays' byte loops, sparse node headers, protobuf framing: the clause 'serialising and re-parsing changes nothing' is correspondence only), std binary_search / partition_point / sort / HashMap",
            "unsafe code in lib.rs / psi/wavelet_tree.rs (get_unchecked, MaybeUninit) is modelled as checked access: reading an unwritten slot is a Panic the theorems exclude",
        ],
    })
    chk.assumptions = ["texts are indexed only with a valid record division (check_record_boundaries): non-empty text, first record at 0, strictly increasing starts, last record non-empty; both constructors refuse everything else and the check verifies the refusal",
                       "lookup of an offset >= len is outside the property (ReferenceDocument answers the last record, CompressedDocument answers the last record for offset = len and an error beyond); compared with the model only"]

    if prop_bad:
        b = prop_bad[0]
        chk.violation("c19_property.json", {"kind": "property", "what": "implementation differs from a plain scan of the original text", "case": b,
                                            "all": len(prop_bad), "replay_cmd": "echo '<case.line>' | work/target/release/c19"})
    elif corr_bad or not ok_proof:
        chk.violation("c19_unproved.json", {"kind": "no-failing-input-found", "broken": info["broken"],
                                            "correspondence_disagreements": corr_bad[:5], "count": len(corr_bad)}, no_input=True)


def replay(path):
    with open(path) as fh:
        obj = json.load(fh)
    print(json.dumps(obj, indent=1)[:6000])
    case = obj.get("case")
    if not case or "line" not in case:
        return 1
    okh, outh, (hxbin,) = vlib.cargo_build(["c19"])
    line = case["line"]
    rc, out = vlib.sh([hxbin], stdin=(line + "\n").encode(), timeout=case.get("deadline_s", 1200))
    print("impl now :", out.strip()[:3000])
    if rc == 124:
        print("still does not terminate within", case.get("deadline_s", 1200), "s")
        return 1
    if case.get("variant") == "query does not terminate":
        print("the case now terminates")
        return 0
    if line.startswith("bvidx|"):
        f = line.split("|")
        idx = [] if f[3].strip() in ("-", "") else [int(x) for x in f[3].split()]
        accept = 4 <= int(f[1]) < 256 and all(a < b for a, b in zip(idx, idx[1:])) and (not idx or idx[-1] < int(f[2]))
        still = (out.strip() != "CE") if not accept else (" bad=0" not in " " + out)
        print("still differs" if still else "agrees now")
        return 1 if still else 0
    if line.startswith("doc|"):
        f = line.split("|")
        nums = lambda s: [] if s.strip() in ("-", "") else [int(x) for x in s.split()]
        text, rb = nums(f[2]), nums(f[3])
        needles = [nums(x) for x in f[4].split(";")] if f[4].strip() else []
        spec = spec_tokens(text, rb, needles, nums(f[5]), nums(f[6])) if valid_rb(text, rb) else ["CE"]
        print("spec     :", " ".join(spec)[:3000])
        si = sections(out.strip())
        n = len(text)
        for name in ("C", "R", "P", "W", "X"):
            if name in si:
                got = si[name]
                if len(got) != len(spec) or any(g != s for g, s in zip(got, spec) if not (s.startswith("L") and s.endswith("=E") and int(s[1:s.index("=")]) >= n)):
                    print("still differs in section", name)
                    return 1
        return 0
    return 0 if (" bad=0" in out or out.startswith("ok ")) else 1
