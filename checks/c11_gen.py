"""C11 helpers: case language, structure-aware generator, and the direct oracle (the specification
itself: a reference cursor over the list the property text defines for each combinator).

Case line:  EXPR | PROG   (see harness/src/bin/c11.rs for the token grammar).
An entry is (key: bytes, ts: int, val: bytes|None)."""

U64 = (1 << 64) - 1


# ------------------------------------------------------------------ entries / order
def kref(e):
    # KeyRef::cmp: key ascending, timestamp DESCENDING
    return (e[0], -e[1])


def fmt_entry(e):
    k, ts, v = e
    return "%s@%d%s" % (k.hex(), ts, "~" if v is None else "=" + v.hex())


def fmt_bound(b):
    return "U" if b is None else "%s:%s" % (b[0], b[1].hex())


# ------------------------------------------------------------------ expression trees
# ("T", entries) ("L", entries) ("M", [kids]) ("C", [kids]) ("B", lo, hi, kid) ("P", ts, kid)
def fmt_sched(sc):
    return ",".join(str(n) for n in sc) if sc else "-"


def fmt_expr(x):
    t = x[0]
    if t in "TL":
        return " ".join([t, str(len(x[1]))] + [fmt_entry(e) for e in x[1]])
    if t in "FO":      # failing leaves: ("F", entries, sched) table; ("O", entries, sched) lazy with failing opens
        return " ".join([t, str(len(x[1])), fmt_sched(x[2])] + [fmt_entry(e) for e in x[1]])
    if t in "MC":
        return " ".join([t, str(len(x[1]))] + [fmt_expr(k) for k in x[1]])
    if t == "B":
        return " ".join(["B", fmt_bound(x[1]), fmt_bound(x[2]), fmt_expr(x[3])])
    if t == "P":
        return " ".join(["P", str(x[1]), fmt_expr(x[2])])
    raise ValueError(t)


def fmt_prog(prog):
    return " ".join(o if isinstance(o, str) else "S:" + o[1].hex() for o in prog)


# ------------------------------------------------------------------ the specification
def in_bounds(k, lo, hi):
    if lo is not None:
        if lo[0] == "I" and k < lo[1]:
            return False
        if lo[0] == "X" and k <= lo[1]:
            return False
    if hi is not None:
        if hi[0] == "I" and k > hi[1]:
            return False
        if hi[0] == "X" and k >= hi[1]:
            return False
    return True


def prune_spec(t, l):
    """per key, the newest version not newer than t, unless it is a tombstone"""
    best = {}
    for e in l:
        if e[1] <= t and (e[0] not in best or e[1] > best[e[0]][1]):
            best[e[0]] = e
    return sorted((e for e in best.values() if e[2] is not None), key=kref)


def spec(x):
    t = x[0]
    if t in "TLFO":
        return list(x[1])
    if t == "M":
        return sorted((e for k in x[1] for e in spec(k)), key=kref)
    if t == "C":
        return [e for k in x[1] for e in spec(k)]
    if t == "B":
        return [e for e in spec(x[3]) if in_bounds(e[0], x[1], x[2])]
    if t == "P":
        return prune_spec(x[1], spec(x[2]))
    raise ValueError(t)


def ref_run(l, prog):
    """sst::reference::ReferenceCursor over l; observation after construction and each call"""
    n = len(l)
    i = -1
    out = []

    def obs():
        out.append(fmt_entry(l[i]) if 0 <= i < n else "-")

    obs()
    for o in prog:
        if o == "F":
            i = -1
        elif o == "E":
            i = n
        elif o == "N":
            i = min(i + 1, n)
        elif o == "V":
            i = max(i - 1, -1)
        else:
            i = sum(1 for e in l if e[0] < o[1])
        obs()
    return " ".join(out)


def add_failures(rng, x, stats):
    """turn leaves into failing leaves: T -> F with 0-3 failing call numbers, L -> O with failing opens"""
    t = x[0]
    if t == "T":
        if rng.chance(2, 3):
            n = rng.choice([1, 1, 1, 2, 2, 3])
            sc = sorted(set(rng.range(1, rng.choice([4, 8, 16, 30])) for _ in range(n)))
            stats["fail_points"] = stats.get("fail_points", 0) + len(sc)
            return ("F", x[1], sc)
        return x
    if t == "L":
        if rng.chance(1, 2):
            sc = sorted(set(rng.range(1, 4) for _ in range(rng.choice([1, 1, 2]))))
            stats["fail_points"] = stats.get("fail_points", 0) + len(sc)
            return ("O", x[1], sc)
        return x
    if t in "MC":
        return (t, [add_failures(rng, k, stats) for k in x[1]])
    if t == "B":
        return ("B", x[1], x[2], add_failures(rng, x[3], stats))
    if t == "P":
        return ("P", x[1], add_failures(rng, x[2], stats))
    return x


def single_failure_variants(x, maxcall):
    """every way to make exactly one leaf fail at exactly one call number 1..maxcall (opens 1..3)"""
    leaves = []

    def walk(y, path):
        t = y[0]
        if t in "TL":
            leaves.append(path)
        elif t in "MC":
            for i, k in enumerate(y[1]):
                walk(k, path + [i])
        elif t == "B":
            walk(y[3], path + [0])
        elif t == "P":
            walk(y[2], path + [0])
    walk(x, [])

    def rebuild(y, path, n):
        t = y[0]
        if not path:
            return ("F", y[1], [n]) if t == "T" else ("O", y[1], [n])
        if t in "MC":
            return (t, [rebuild(k, path[1:], n) if i == path[0] else k for i, k in enumerate(y[1])])
        if t == "B":
            return ("B", y[1], y[2], rebuild(y[3], path[1:], n))
        return ("P", y[1], rebuild(y[2], path[1:], n))

    out = []
    for path in leaves:
        y = x
        for i in path:
            y = y[1][i] if y[0] in "MC" else (y[3] if y[0] == "B" else y[2])
        top = maxcall if y[0] == "T" else 3
        for n in range(1, top + 1):
            out.append(rebuild(x, path, n))
    return out


def parse_entry(tok):
    k, rest = tok.split("@")
    if rest.endswith("~"):
        return (bytes.fromhex(k), int(rest[:-1]), None)
    ts, v = rest.split("=")
    return (bytes.fromhex(k), int(ts), bytes.fromhex(v))


def parse_bound(tok):
    return None if tok == "U" else (tok[0], bytes.fromhex(tok[2:]))


def parse_expr(toks):
    """inverse of fmt_expr on a token list (consumed from the front)"""
    t = toks.pop(0)
    if t in "TL":
        n = int(toks.pop(0))
        return (t, [parse_entry(toks.pop(0)) for _ in range(n)])
    if t in "FO":
        n = int(toks.pop(0))
        sc = toks.pop(0)
        sched = [] if sc == "-" else [int(v) for v in sc.split(",")]
        return (t, [parse_entry(toks.pop(0)) for _ in range(n)], sched)
    if t in "MC":
        n = int(toks.pop(0))
        return (t, [parse_expr(toks) for _ in range(n)])
    if t == "B":
        lo = parse_bound(toks.pop(0))
        hi = parse_bound(toks.pop(0))
        return ("B", lo, hi, parse_expr(toks))
    if t == "P":
        ts = int(toks.pop(0))
        return ("P", ts, parse_expr(toks))
    raise ValueError(t)


def parse_prog(toks):
    return [t if t in "FENV" else ("S", bytes.fromhex(t[2:])) for t in toks]


def ref_run_errors(l, prog, toks):
    """The specification of a run with storage errors, given where the run returned Err.
    `toks`: the observations (initial one first).  Returns (verdict, known): verdict None if every
    position the specification determines agrees (everything before the first Err; after an Err
    every seek / seek_to_first / seek_to_last that succeeds and everything after it up to the
    next Err), else a description; known = number of runs of dirty next/prev calls (after an Err,
    before the next successful absolute call) whose result differs from "the failed call was a
    no-op" - the known class: those are unspecified."""
    n = len(l)

    def kv(i):
        return fmt_entry(l[i]) if 0 <= i < n else "-"

    if not toks:
        return "no output", 0
    if toks[0] == "ERR":
        return (None if len(toks) == 1 else "output after a failed constructor"), 0
    if toks[0] != kv(-1):
        return "initial observation: got %s want %s" % (toks[0], kv(-1)), 0
    if len(toks) != len(prog) + 1:
        return "number of observations", 0
    i, dirty, diverged, known = -1, False, False, 0
    for pos, (o, tok) in enumerate(zip(prog, toks[1:])):
        if tok in ("PANIC", "FUEL"):
            return "own failure %s at call %d" % (tok, pos + 1), known
        if tok == "ERR":
            dirty = True
            continue
        if o == "N":
            i = min(i + 1, n)
        elif o == "V":
            i = max(i - 1, -1)
        else:
            i = -1 if o == "F" else (n if o == "E" else sum(1 for e in l if e[0] < o[1]))
            dirty, diverged = False, False
        if diverged:
            continue
        if tok != kv(i):
            if dirty:
                known += 1
                diverged = True
            else:
                return "call %d: got %s want %s" % (pos + 1, tok, kv(i)), known
    return None, known


def has_kind(x, kinds):
    t = x[0]
    if t in kinds:
        return True
    if t in "MC":
        return any(has_kind(k, kinds) for k in x[1])
    if t == "B":
        return has_kind(x[3], kinds)
    if t == "P":
        return has_kind(x[2], kinds)
    return False


def kinds_of(x, acc=None):
    acc = acc if acc is not None else set()
    acc.add({"F": "T", "O": "L"}.get(x[0], x[0]))
    if x[0] in "MC":
        for k in x[1]:
            kinds_of(k, acc)
    elif x[0] == "B":
        kinds_of(x[3], acc)
    elif x[0] == "P":
        kinds_of(x[2], acc)
    return acc


# ------------------------------------------------------------------ generator
KEY_POOLS = [
    [b"a", b"b", b"c", b"d", b"e", b"f"],
    [b"", b"\x00", b"\x00\x00", b"a", b"a\x00", b"aa", b"ab", b"b", b"\xff", b"\xff\xff"],
    [b"k1", b"k2", b"k3"],
    [b"m"],
]
TS_POOL = [0, 1, 2, 3, 4, 5, 6, 7, 8, 9, U64, U64 - 1]


def gen_entries(rng, stats):
    """a strictly sorted list of entries with distinct (key, ts); shared keys at several
    timestamps, tombstones (possibly tombstone-only), empty values, possibly empty"""
    pool = rng.choice(KEY_POOLS)
    shape = rng.below(10)
    nk = 0 if shape == 0 else rng.range(1, len(pool))
    keys = sorted(set(rng.choice(pool) for _ in range(nk)))
    tomb_only = rng.chance(1, 12)
    es = []
    for k in keys:
        nv = rng.choice([1, 1, 1, 2, 2, 3, 4, 5])
        tss = sorted(set(rng.choice(TS_POOL) for _ in range(nv)), reverse=True)
        for ts in tss:
            if tomb_only or rng.chance(1, 4):
                v = None
            else:
                v = rng.choice([b"", b"v", b"w", bytes([rng.below(256)]), b"val" + bytes([48 + ts % 10])])
            es.append((k, ts, v))
    stats["entries"] += len(es)
    stats["tombstones"] += sum(1 for e in es if e[2] is None)
    if not es:
        stats["empty_family"] += 1
    return es, pool


def rand_key(rng, pool, es):
    c = rng.below(10)
    if c < 5 and es:
        return rng.choice(es)[0]
    if c < 8:
        return rng.choice(pool)
    if c == 8:
        return rng.choice(pool) + bytes([rng.choice([0, 1, 255])])
    return b""


def rand_bound(rng, pool, es):
    c = rng.below(5)
    if c == 0:
        return None
    return ("I" if rng.chance(1, 2) else "X", rand_key(rng, pool, es))


def split_contig(rng, es, n):
    """n contiguous segments (some empty); cut points biased to fall inside a key's versions"""
    cuts = sorted(rng.below(len(es) + 1) for _ in range(n - 1))
    out, last = [], 0
    for c in cuts:
        out.append(es[last:c])
        last = c
    out.append(es[last:])
    return out


def split_scatter(rng, es, n):
    out = [[] for _ in range(n)]
    mode = rng.below(4)
    for e in es:
        if mode == 0:
            out[rng.below(n)].append(e)
        elif mode == 1:           # by timestamp parity: shared keys in different tables
            out[e[1] % n].append(e)
        elif mode == 2:           # skewed: most in table 0
            out[0 if rng.chance(3, 4) else rng.below(n)].append(e)
        else:                     # tombstones gathered in the last table
            out[n - 1 if e[2] is None else rng.below(n)].append(e)
    return out


def gen_expr(rng, es, pool, depth, kind, stats, allow_lazy=True):
    """expression of the requested top kind over the entry list `es` (precondition-respecting)"""
    if kind is None:
        if depth <= 0:
            kind = rng.choice(["T", "T", "T", "L"])
        else:
            kind = rng.choice(["T", "T", "L", "M", "M", "C", "C", "B", "P"])
    # an SST cannot be built from an empty table (F9, property C10) nor from a table whose first
    # entry is ("", u64::MAX) (SstBuilder's initial last_key): those are C10's business, not C11's
    if kind == "L" and (not es or not allow_lazy or (es[0][0] == b"" and es[0][1] == U64)):
        kind = "T"
    if kind in ("T", "L"):
        return (kind, list(es))
    if kind == "M":
        n = rng.choice([0, 1, 1, 2, 2, 2, 3, 3, 4, 5, 7]) if depth > 0 else rng.choice([1, 2, 3])
        parts = split_scatter(rng, es, n) if n else []
        return ("M", [gen_expr(rng, p, pool, depth - 1, None, stats, allow_lazy) for p in parts])
    if kind == "C":
        n = rng.choice([1, 1, 2, 2, 3, 3, 4, 5, 6, 8])
        parts = split_contig(rng, es, n)
        return ("C", [gen_expr(rng, p, pool, depth - 1, None, stats, allow_lazy) for p in parts])
    if kind == "B":
        return ("B", rand_bound(rng, pool, es), rand_bound(rng, pool, es),
                gen_expr(rng, es, pool, depth - 1, None, stats, allow_lazy))
    if kind == "P":
        t = rng.choice(TS_POOL + [3, 4, 5])
        return ("P", t, gen_expr(rng, es, pool, depth - 1, None, stats, allow_lazy))
    raise ValueError(kind)


def gen_prog(rng, pool, es, stats, maxlen=40):
    n = rng.range(1, maxlen)
    prog = []
    mode = rng.below(5)
    for _ in range(n):
        c = rng.below(100)
        if mode == 0:      # mostly forward
            o = "N" if c < 70 else ("V" if c < 85 else None)
        elif mode == 1:    # mostly backward
            o = "V" if c < 70 else ("N" if c < 85 else None)
        elif mode == 2:    # zig-zag: reversals everywhere
            o = "N" if c < 45 else ("V" if c < 90 else None)
        else:
            o = "N" if c < 35 else ("V" if c < 70 else None)
        if o is None:
            c2 = rng.below(10)
            o = "F" if c2 < 2 else ("E" if c2 < 4 else ("S", rand_key(rng, pool, es)))
        if prog and ((prog[-1] == "N" and o == "V") or (prog[-1] == "V" and o == "N")):
            stats["reversals"] += 1
        stats["op_" + (o if isinstance(o, str) else "S")] += 1
        prog.append(o)
    return prog


def new_stats():
    s = {k: 0 for k in ["entries", "tombstones", "empty_family", "reversals", "op_F", "op_E", "op_S", "op_N", "op_V"]}
    return s


def gen_case(rng, stats, top=None, depth=None, allow_lazy=True, maxlen=40):
    es, pool = gen_entries(rng, stats)
    if depth is None:
        depth = rng.choice([1, 1, 1, 2, 2, 3])
    x = gen_expr(rng, es, pool, depth, top, stats, allow_lazy)
    prog = gen_prog(rng, pool, es, stats, maxlen)
    return x, prog
