"""C11 — merging, concatenating, pruning, bounds and lazy cursors equal their definitions.

Decided by: theorems of coq/theories/Cursor/Props_C11.v over executable models of the five sst
cursor combinators (Cursor/{Merging,Concat,Pruning,Bounds,Lazy}.v) and their composition
(Cursor/Compose.v), tied to the code by running the real Rust combinators (harness c11, over
ReferenceTable cursors and, for LazyCursor, real SST files) and the extracted model on the same
generated cursor expressions and programs, plus the direct oracle: a reference cursor over the list
the property text defines (sorted union / concatenation / interval filter / newest version not
newer than t unless tombstone / the table itself), computed independently in Python."""
import json
import os

import vlib
import c11_gen as G

META = {
    "category": "proof",
    "text": "Coq theorems (Cursor/Props_C11.v, all closed under the global context) over executable models of sst's MergingCursor (array heap, Forward/Reverse comparator, direction switch), ConcatenatingCursor (binary search over last keys, walk across exhausted children), PruningCursor (skip key, the three nested loops of prev), BoundsCursor (before/positioned/after machine, all nine bound combinations incl. empty and inverted) and LazyCursor: each, over ARBITRARY child cursors that behave as reference cursors, gives for every finite program of seek_to_first/seek_to_last/seek/prev/next the same key_value() observations as sst::reference::ReferenceCursor over the specified list, never fails and never runs out of loop fuel; the theorems compose to arbitrary nestings (C11_compose), in particular the cursor over a compaction's inputs / the garbage collector's cursor that lsmtk builds (C11_compaction_input, C11_compaction_walk_reads_sorted_union, C11_gc_input; the range-scan nestings are C03's). Storage errors: a second set of models (Cursor/F*.v) transcribes every `?` of the five files (where each combinator returns on a child's Err and what it leaves behind); proved for every nesting, every program and every failure schedule of every leaf: every Err is reported and is exactly one failure consumed (C11_errors_reported), everything returned before the first Err equals the reference (C11_errors_before_first), and after an Err every successful seek/seek_to_first/seek_to_last and everything after it up to the next Err equals the reference again (C11_absolute_calls_recover_after_error); next/prev between an Err and the next successful absolute call are unspecified (C11_failed_call_is_not_a_noop; counted in the evidence as dirty_relative_observations, informational). The models are tied to the code by differential runs (Rust vs extracted model vs an independent Python rendering of the specification): without errors on structure-aware generated families, with errors using a cursor that returns Err on schedule at every leaf (compared at EVERY position, incl. after errors), and on lsmtk's compaction/GC nesting built with the same constructor calls over real SstCursors. Clone stage: a merging cursor over concrete reference cursors is replaced by its clone() mid-program (mostly while travelling backwards) and must observe what the program without the clone steps observes.",
    "note": "Trusted: Coq kernel; extraction via ExtrOcamlBasic + ocaml/cursor drivers; harness c11 / c11f (FailingCursor: a ReferenceCursor whose n-th call returns Err without moving it; LazyCursor opens failing on schedule); std's binary_search and sort inside ReferenceTable (stated, not transcribed). A failed call is modelled as leaving the leaf where it was (the theorems allow any `junk` that keeps it a cursor). LazyCursor's SstCursor is represented by the table cursor of its entries (C10 relates an SstCursor to its entries); the harness cannot make a real SstCursor return Err, only the open. Merging requires the children's (key,timestamp) pairs to be pairwise distinct; concatenation requires the concatenated entries to be strictly sorted. PruningCursor::prev's logic error is an ordinary Err in the Rust and a sticky failure flag in the model: it only occurs in dirty states, where the model then stops making claims (reported as model_unhealthy in the evidence).",
}

PROPS = "theories/Cursor/Props_C11.v"
MODULE = "Cursor.Props_C11"


def run_lines(exe, lines, workdir, tag):
    p = os.path.join(workdir, tag + ".in")
    with open(p, "w") as fh:
        fh.write("\n".join(lines) + "\n")
    rc, out = vlib.sh("%s < %s" % (exe, p), timeout=3000)
    res = out.split("\n")
    if res and res[-1] == "":
        res.pop()
    return rc, res


def load_corpus():
    d = os.path.join(vlib.VERIF, "corpus", "C11")
    cases = []
    if os.path.isdir(d):
        for fn in sorted(os.listdir(d)):
            if fn.endswith(".json"):
                with open(os.path.join(d, fn)) as fh:
                    c = json.load(fh)
                cases.append((c["case"], c["expect"], "corpus:" + fn))
    return cases


# ------------------------------------------------------------------ exhaustive small scopes
def small_families():
    """table families within a small scope, each with the seek keys used by its programs"""
    a5, a3t, a1 = (b"a", 5, b"x"), (b"a", 3, None), (b"a", 1, b"z")
    b4, b2t = (b"b", 4, b"y"), (b"b", 2, None)
    c9 = (b"c", 9, b"w")
    fam = []
    T = lambda es: ("T", list(es))
    full = [a5, a3t, a1, b4, b2t, c9]
    # merging: shared keys at different timestamps, tombstone-only table, empty table
    fam.append(("M", [T([a5, a1, c9]), T([a3t, b2t]), T([]), T([b4])]))
    fam.append(("M", [T([a5]), T([a3t]), T([a1])]))
    fam.append(("M", [T(full)]))
    fam.append(("M", []))
    fam.append(("M", [T([b2t, c9]), T([a5, a3t, a1, b4])]))
    # concatenation: one key's versions split across adjacent tables, empty tables everywhere
    fam.append(("C", [T([a5]), T([a3t, a1]), T([]), T([b4, b2t, c9])]))
    fam.append(("C", [T([]), T([a5, a3t]), T([]), T([]), T([a1, b4]), T([b2t]), T([c9]), T([])]))
    fam.append(("C", [T([]), T([]), T([])]))
    fam.append(("C", [T(full)]))
    fam.append(("C", [T([a5, a3t, a1]), T([b4, b2t]), T([c9])]))
    # bounds: all nine combinations over three key choices, incl. empty and inverted
    for lo in [None, ("I", b"a"), ("X", b"a"), ("I", b"b"), ("X", b"b"), ("I", b"d"), ("X", b"")]:
        for hi in [None, ("I", b"b"), ("X", b"b"), ("I", b"a"), ("X", b"a"), ("X", b"")]:
            fam.append(("B", lo, hi, T(full)))
    # pruning: every timestamp threshold
    for t in [0, 1, 2, 3, 4, 5, 8, 9, G.U64]:
        fam.append(("P", t, T(full)))
    fam.append(("P", 4, T([a3t, b2t])))
    fam.append(("P", 4, T([])))
    # lazy
    fam.append(("L", full))
    fam.append(("L", [a3t]))
    # a scan-shaped nesting
    fam.append(("P", 4, ("B", ("I", b"a"), ("X", b"c"), ("M", [("C", [T([a5]), T([a3t, b4])]), T([a1, b2t, c9])]))))
    return fam


def failing_families():
    a5, a3t, a1 = (b"a", 5, b"x"), (b"a", 3, None), (b"a", 1, b"z")
    b4, b2t = (b"b", 4, b"y"), (b"b", 2, None)
    c9 = (b"c", 9, b"w")
    T = lambda es: ("T", list(es))
    return [
        ("M", [T([a5, a1, c9]), T([a3t, b4, b2t])]),
        ("C", [T([a5, a3t]), T([]), T([a1, b4, b2t, c9])]),
        ("B", ("I", b"a"), ("X", b"c"), T([a5, a3t, a1, b4, b2t, c9])),
        ("P", 4, T([a5, a3t, a1, b4, b2t, c9])),
        ("L", [a5, b4, c9]),
        ("P", 4, ("B", ("I", b"a"), ("X", b"c"), ("M", [("C", [T([a5]), T([a3t, b4])]), T([a1, b2t, c9])]))),
    ]


def load_fcorpus():
    d = os.path.join(vlib.VERIF, "corpus", "C11")
    out = []
    if os.path.isdir(d):
        for fn in sorted(os.listdir(d)):
            if fn.endswith(".fjson"):
                with open(os.path.join(d, fn)) as fh:
                    c = json.load(fh)
                out.append((c["case"], G.parse_expr(c["case"].split("|")[0].split()), G.parse_prog(c["case"].split("|")[1].split()), "corpus:" + fn))
    return out


def all_programs(maxlen):
    ops = ["F", "E", "N", "V", ("S", b"a"), ("S", b"b"), ("S", b"bb")]
    progs = [[]]
    frontier = [[]]
    for _ in range(maxlen):
        frontier = [p + [o] for p in frontier for o in ops]
        progs += frontier
    return progs


class Tally:
    def __init__(self):
        self.n = 0
        self.distinct = set()
        self.prop_bad, self.corr_bad, self.model_spec_bad = [], [], []
        self.nbad = [0, 0, 0]


def run_batch(chk, hxbin, mx, cases, tally, tag):
    """run one batch of (line, expected, tag) on the implementation and on the extracted model"""
    if not cases:
        return
    rc1, impl_out = run_lines(hxbin, [c[0] for c in cases], chk.work, "impl_" + tag)
    rc2, model_out = run_lines(mx, [c[0] for c in cases], chk.work, "model_" + tag)
    if len(impl_out) != len(cases) or len(model_out) != len(cases):
        raise RuntimeError("output line count mismatch impl=%d model=%d cases=%d\n%s" % (
            len(impl_out), len(model_out), len(cases), "\n".join(model_out[-3:])))
    for (line, exp, ctag), io, mo in zip(cases, impl_out, model_out):
        mm, _, ms = mo.partition(" # ")
        nobs = io.split()
        tally.n += 1
        if len(nobs) >= 4 and any(o != "-" for o in nobs):
            tally.distinct.add(hash(line))
        if io == exp and mm == exp and (ms == exp or ctag.startswith("malformed")):
            continue
        rec = {"tag": ctag, "case": line, "impl_out": io, "model_out": mm, "coq_spec_out": ms, "spec_out": exp}
        if ctag.startswith("malformed"):
            tally.nbad[1] += 1
            tally.corr_bad.append(rec)
        elif io != exp:
            tally.nbad[0] += 1
            if len(tally.prop_bad) < 200 or len(line) < 120:
                tally.prop_bad.append(rec)
        elif io != mm:
            tally.nbad[1] += 1
            tally.corr_bad.append(rec)
        else:
            tally.nbad[2] += 1
            tally.model_spec_bad.append(rec)


def run_fbatch(chk, hxf, mxf, fcases, ft):
    """cases with failing leaves: implementation (c11f) vs fallible model (mx_fcursor), exactly, at every
    position incl. after errors; and both vs the specification of a run with errors"""
    if not fcases:
        return
    rc1, impl_out = run_lines(hxf, [c[0] for c in fcases], chk.work, "fimpl")
    rc2, model_out = run_lines(mxf, [c[0] for c in fcases], chk.work, "fmodel")
    if len(impl_out) != len(fcases) or len(model_out) != len(fcases):
        raise RuntimeError("fallible: output line count mismatch impl=%d model=%d cases=%d\n%s" % (
            len(impl_out), len(model_out), len(fcases), "\n".join(model_out[-3:])))
    for (line, x, prog, tag), io, mo in zip(fcases, impl_out, model_out):
        mm, _, ms = mo.partition(" # ")
        ft["n"] += 1
        unhealthy = "UNHEALTHY" in mm
        if unhealthy:
            # the model entered its own failure state (only possible while dirty): it claims nothing
            # from there on; compare the prefix only
            ft["unhealthy"] += 1
            mm = mm.replace(" UNHEALTHY", "").strip()
            io_cmp = " ".join(io.split()[:len(mm.split())])
            # ... and that may only happen while dirty (after an Err, before a successful absolute call)
            dirty = False
            for o, t in list(zip(prog, io.split()[1:]))[:max(0, len(mm.split()))]:
                if t == "ERR":
                    dirty = True
                elif o not in ("N", "V"):
                    dirty = False
            if not dirty:
                ft["corr_bad"].append({"tag": tag, "case": line, "what": "model unhealthy in a clean state", "impl_out": io, "model_out": mm})
        else:
            io_cmp = io
        toks = io.split()
        nerr = toks.count("ERR")
        ft["errs"] += nerr
        ft["with_err"] += (nerr > 0)
        if nerr and any(t != "ERR" for t in toks[toks.index("ERR"):]):
            ft["continued_after_err"] += 1
        verdict, known = G.ref_run_errors(G.spec(x), prog, toks)
        rec = {"tag": tag, "case": line, "impl_out": io, "model_out": mm, "verdict": verdict}
        if verdict is not None:
            ft["prop_bad"].append(rec)
        elif io_cmp != mm:
            ft["corr_bad"].append(rec)
        if known:
            ft["known"] += 1
            if ft["known_example"] is None or len(line) < len(ft["known_example"]["case"]):
                ft["known_example"] = rec
        if nerr and verdict is None:
            ft["recovered"] += sum(1 for o, t in zip(prog, toks[1:]) if t != "ERR" and o not in ("N", "V"))


def run(chk):
    ok_proof, info = vlib.proof_stage(chk, PROPS, MODULE, const_areas=("Cursor",), pins_rel="pins/C11.v")

    okx, outx = vlib.coq_make(["theories/Cursor/Extract.vo"])
    okm, outm, mx = vlib.ocaml_build("cursor", "mx_cursor")
    okh, outh, (hxbin, hxf) = vlib.cargo_build(["c11", "c11f"])
    okxf, outxf = vlib.coq_make(["theories/Cursor/FExtract.vo"])
    okmf, outmf, mxf = vlib.ocaml_build("cursor", "mx_fcursor")
    if not (okxf and okmf):
        raise RuntimeError("fallible model build failed:\n" + outxf[-1500:] + outmf[-1500:])
    if not (okx and okm):
        raise RuntimeError("model build failed:\n" + outx[-1500:] + outm[-1500:])
    if not okh:
        raise RuntimeError("harness build failed (does /repo still compile?):\n" + outh[-3000:])

    rng = vlib.Rng(chk.seed * 1000003 + 11)
    stats = G.new_stats()
    kinds_hist = {}
    tally = Tally()
    cases = []       # (line, expected spec output, tag)
    for line, exp, tag in load_corpus():
        cases.append((line, exp, tag))
    ncorpus = len(cases)

    n = 20000 if chk.tier == "quick" else 500000
    tops = ["M", "C", "B", "P", "L", None, "M", "C"]
    samples = []
    for k in range(n):
        top = tops[k % len(tops)]
        x, prog = G.gen_case(rng, stats, top=top)
        for kd in G.kinds_of(x):
            kinds_hist[kd] = kinds_hist.get(kd, 0) + 1
        cases.append((G.fmt_expr(x) + " | " + G.fmt_prog(prog), G.ref_run(G.spec(x), prog), "gen%d" % k))
        if k in (0, 3, 4):
            samples.append(cases[-1][0][:600])
        if len(cases) >= 50000:
            run_batch(chk, hxbin, mx, cases, tally, "gen")
            cases = []
    # the malformed stream: an empty vector of children (ConcatenatingCursor::new asserts).  Only at
    # the top: a failure of a CHILD is outside the model (children are total state machines).
    cases.append(("C 0 | F N", "PANIC", "malformed:empty-concat"))
    run_batch(chk, hxbin, mx, cases, tally, "gen")

    # exhaustive small scopes: ALL programs up to a length over fixed small families
    nexh = 0
    fams = small_families()
    maxlen = 3 if chk.tier == "quick" else 5
    deep = set() if chk.tier == "quick" else (set(range(10)) | {12, 20, 29, 38, 45, 55, 56, 57, 63, len(fams) - 1})   # these also at length 6
    progs = all_programs(maxlen)
    progs6 = None
    for fi, x in enumerate(fams):
        sp = G.spec(x)
        ex = G.fmt_expr(x)
        use = progs
        if fi in deep:
            if progs6 is None:
                progs6 = all_programs(6)
            use = progs6
        batch = []
        for prog in use:
            batch.append((ex + " | " + G.fmt_prog(prog), G.ref_run(sp, prog), "exh%d" % fi))
            if len(batch) >= 100000:
                nexh += len(batch)
                run_batch(chk, hxbin, mx, batch, tally, "exh")
                batch = []
        nexh += len(batch)
        run_batch(chk, hxbin, mx, batch, tally, "exh")
    samples.append(G.fmt_expr(fams[0]) + " | " + G.fmt_prog(progs[-1]))

    # ---- storage errors: leaves that return Err on schedule
    ft = {"n": 0, "errs": 0, "with_err": 0, "continued_after_err": 0, "known": 0, "known_example": None,
          "recovered": 0, "unhealthy": 0, "prop_bad": [], "corr_bad": []}
    frng = vlib.Rng(chk.seed * 1000003 + 1111)
    fstats = G.new_stats()
    nf = 8000 if chk.tier == "quick" else 200000
    fcases = []
    for line, x, prog, tag in load_fcorpus():
        fcases.append((line, x, prog, tag))
    for k in range(nf):
        x, prog = G.gen_case(frng, fstats, top=tops[k % len(tops)])
        fx = G.add_failures(frng, x, fstats)
        fcases.append((G.fmt_expr(fx) + " | " + G.fmt_prog(prog), fx, prog, "fgen%d" % k))
        if k == 1:
            samples.append(fcases[-1][0][:600])
        if len(fcases) >= 50000:
            run_fbatch(chk, hxf, mxf, fcases, ft)
            fcases = []
    # ---- the nestings lsmtk builds over real SstCursors: compaction input (K) and GC cursor (G)
    nk = 600 if chk.tier == "quick" else 20000
    kcases, kstat = [], {"K": 0, "G": 0, "walks": 0}
    for k in range(nk):
        es, pool = G.gen_entries(frng, fstats)
        if not es:
            continue
        ntab = frng.choice([2, 2, 3, 3, 4, 6])
        tabs = [t for t in G.split_scatter(frng, es, ntab) if t and not (t[0][0] == b"" and t[0][1] == G.U64)]
        if not tabs:
            continue
        sp = sorted((e for t in tabs for e in t), key=G.kref)
        kind = "K" if k % 2 == 0 else "G"
        if frng.chance(1, 2):
            prog = (["F"] if kind == "K" else []) + ["N"] * (len(sp) + 2)      # the walk compaction / the collector do
            kstat["walks"] += 1
        else:
            prog = G.gen_prog(frng, pool, sp, fstats, 20)
        line = " ".join([kind, str(len(tabs))] + [" ".join([str(len(t))] + [G.fmt_entry(e) for e in t]) for t in tabs]) + " | " + G.fmt_prog(prog)
        exp = G.ref_run(sp, prog) if kind == "K" else " ".join(G.ref_run(sp, ["F", "N"] + prog).split()[2:])
        kcases.append((line, exp, kind))
        kstat[kind] += 1
    if kcases:
        rc1, kio = run_lines(hxf, [c[0] for c in kcases], chk.work, "kimpl")
        rc2, kmo = run_lines(mxf, [c[0] for c in kcases], chk.work, "kmodel")
        if len(kio) != len(kcases) or len(kmo) != len(kcases):
            raise RuntimeError("nestings: output line count mismatch")
        for (line, exp, kind), io, mo in zip(kcases, kio, kmo):
            mm, _, ms = mo.partition(" # ")
            rec = {"tag": "nesting:" + kind, "case": line, "impl_out": io, "model_out": mm, "coq_spec_out": ms, "spec_out": exp}
            if io != exp:
                ft["prop_bad"].append(rec)
            elif io != mm or mm != ms:
                ft["corr_bad"].append(rec)
        samples.append(kcases[0][0][:400])
    ft["n"] += len(kcases)
    ft["nestings"] = kstat

    # exhaustive: every single failure point of every leaf, on small families, short programs
    fprogs = all_programs(3 if chk.tier == "quick" else 4)
    for fi, x in enumerate(failing_families()):
        for fx in G.single_failure_variants(x, 9 if chk.tier == "quick" else 14):
            ex = G.fmt_expr(fx)
            for prog in fprogs:
                fcases.append((ex + " | " + G.fmt_prog(prog), fx, prog, "fexh%d" % fi))
            if len(fcases) >= 50000:
                run_fbatch(chk, hxf, mxf, fcases, ft)
                fcases = []
    run_fbatch(chk, hxf, mxf, fcases, ft)

    # ---- clones: a MergingCursor over concrete (Clone) reference cursors is replaced by its clone at
    # random points of the program, mostly while it travels backwards; a clone is the cursor, so the
    # observations must be those of the same program without the clone steps (the model and the
    # specification get that program)
    crng = vlib.Rng(chk.seed * 1000003 + 1112)
    cstats = G.new_stats()
    ncl = 3000 if chk.tier == "quick" else 60000
    clone_stats = {"cases": 0, "clone_steps": 0, "clones_while_backward": 0}
    ccases, cimpl = [], []
    for k in range(ncl):
        es, pool = G.gen_entries(crng, cstats)
        nt = crng.range(1, 5)
        parts = G.split_scatter(crng, es, nt)
        x = ("M", [("T", list(pt)) for pt in parts])
        prog = G.gen_prog(crng, pool, es, cstats, maxlen=24)
        dprog, back = [], False
        for o in prog:
            dprog.append(o)
            if o in ("E", "V"):
                back = True
            elif o in ("F", "N") or isinstance(o, tuple):
                back = False
            if crng.chance(1, 3 if back else 8):
                dprog.append("D")
                clone_stats["clone_steps"] += 1
                clone_stats["clones_while_backward"] += 1 if back else 0
        ex = G.fmt_expr(x)
        ccases.append((ex + " | " + G.fmt_prog(prog), G.ref_run(G.spec(x), prog), "clone%d" % k))
        cimpl.append("K" + ex[1:] + " | " + " ".join("D" if o == "D" else G.fmt_prog([o]) for o in dprog))
    clone_stats["cases"] = len(ccases)
    rc1, c_impl_out = run_lines(hxbin, cimpl, chk.work, "impl_clone")
    rc2, c_model_out = run_lines(mx, [c[0] for c in ccases], chk.work, "model_clone")
    if len(c_impl_out) != len(ccases) or len(c_model_out) != len(ccases):
        raise RuntimeError("clone stage: output line count mismatch impl=%d model=%d cases=%d" % (len(c_impl_out), len(c_model_out), len(ccases)))
    for (line, exp, ctag), il, io, mo in zip(ccases, cimpl, c_impl_out, c_model_out):
        mm = mo.partition(" # ")[0]
        tally.n += 1
        if io == exp and mm == exp:
            continue
        rec = {"tag": ctag, "case": il, "impl_out": io, "model_out": mm, "spec_out": exp, "case_without_clones": line}
        if io != exp:
            tally.nbad[0] += 1
            tally.prop_bad.append(rec)
        else:
            tally.nbad[1] += 1
            tally.corr_bad.append(rec)

    prop_bad, corr_bad, model_spec_bad = tally.prop_bad, tally.corr_bad, tally.model_spec_bad
    prop_bad = prop_bad + ft["prop_bad"]
    corr_bad = corr_bad + ft["corr_bad"]
    chk.coverage.update({
        "evaluations": tally.n + ft["n"], "distinct_nontrivial": len(tally.distinct),
        "storage_errors": {"cases": ft["n"], "cases_with_err": ft["with_err"], "err_returns": ft["errs"],
                           "cases_continued_after_err": ft["continued_after_err"],
                           "absolute_calls_checked_after_an_err": ft["recovered"],
                           "dirty_relative_observations": ft["known"],
                           "dirty_relative_sample": (ft["known_example"] or {}).get("case"),
                           "dirty_relative_sample_output": (ft["known_example"] or {}).get("impl_out"),
                           "model_unhealthy": ft["unhealthy"],
                           "lsmtk_nestings_over_real_SstCursors": ft.get("nestings"),
                           "rule": "the same generator with 2/3 of the table leaves replaced by a cursor over the same table whose calls number n1,n2,.. (1-3 numbers in 1..4/8/16/30) return Err without moving it, and 1/2 of the lazy leaves by one whose opens fail on schedule; the run continues after an Err; compared: implementation vs fallible model at EVERY position, and both vs the specification of a run with errors (everything before the first Err, every successful seek*/first/last after an Err and everything after it); plus every single failure point (call 1..9/14 of each leaf) on %d small families x all programs up to length %d" % (len(failing_families()), 3 if chk.tier == "quick" else 4)},
        "rule": "cursor expressions (T table / L lazy-over-real-SST / M merging / C concat / B bounds / P pruning, nested to depth <= 3, top kind cycled over M,C,B,P,L,any) over a strictly sorted entry family from one SplitMix64 seed (key pools with shared prefixes, empty key, 0x00/0xff bytes; 1-5 versions per key from timestamps 0..9, u64::MAX-1, u64::MAX; 1/4 tombstones, 1/12 tombstone-only, 1/10 empty family; children of C are contiguous segments incl. empty ones and cuts inside a key's versions; children of M are scattered subsets incl. by timestamp parity and tombstones gathered in one table) and programs of 1-40 calls (five mixes: forward, backward, zig-zag with a reversal at almost every step, uniform; seek keys drawn from the entries, the pool, pool key + 0x00/0x01/0xff, empty key)"
                + "; plus ALL programs of length <= %d over {first,last,next,prev,seek a,seek b,seek bb} on %d fixed small families (shared keys across tables, tombstone-only and empty tables, a key split across adjacent tables, 42 bound combinations incl. empty and inverted, 9 pruning thresholds, lazy, one scan-shaped nesting)%s: exhaustive within that scope" % (maxlen, len(fams), (", %d of them up to length 6" % len(deep) if deep else ""))
                + "; non-trivial = at least 3 calls and at least one non-None observation; distinct = distinct case lines (by hash)",
        "samples": samples,
        "clone_stage": dict(clone_stats, rule="MergingCursor over 1..5 concrete reference cursors (scattered subsets of one entry family), programs of 1..24 calls in which the cursor is replaced by its clone() with probability 1/3 after a backward call and 1/8 otherwise; expected = the same program without the clone steps, on the specification and on the extracted model"),
        "input_distribution": dict(stats, kinds=kinds_hist, corpus_cases=ncorpus, exhaustive_cases=nexh),
        "exhaustive": False,
        "exhaustive_small_scope_cases": nexh,
        "correspondence": "impl (Rust, release + overflow-checks + debug-assertions) vs extracted Coq model (Compose.run_model) vs Coq spec (Compose.run_spec) vs independent Python spec, 4-way",
        "disagreements_impl_vs_spec": tally.nbad[0] + len(ft["prop_bad"]), "disagreements_impl_vs_model": tally.nbad[1] + len(ft["corr_bad"]),
        "disagreements_model_vs_spec": tally.nbad[2],
        "trusted_base": [
            "Coq 8.16.1 kernel (coqc, full .vo build)",
            "extraction via ExtrOcamlBasic (no Extract Constant of ours) + ocaml/cursor/mx_cursor.ml driver (parser/printer only)",
            "harness/src/bin/c11.rs (builds ReferenceTables / SST files and Box<dyn Cursor> trees, prints key()/value() after every call)",
            "checks/c11_gen.py: generator and the independent Python rendering of the specification",
            "std's slice::binary_search and sort inside sst::reference (stated as count-below / sortedness, not transcribed)",
            "tools/constants.py (the Cursor table is empty: the combinators use no const items)",
        ],
    })
    chk.assumptions = [
        "behaviour after a child error is not part of C11; proved and compared anyway: errors reported, prefix before the first Err exact, absolute calls recover",
        "storage errors of child cursors (I/O, corruption: the `?` after each child call) are outside the model; children are total state machines",
        "merging: the children's (key, timestamp) pairs are pairwise distinct; concatenation: the concatenated entries are strictly sorted by KeyRef",
        "LazyCursor: the SstCursor it opens behaves as a reference cursor over the SST's entries (property C10)",
        "timestamps are unbounded naturals in the model (u64 in the code; nothing wraps)",
    ]

    if prop_bad:
        b = min(prop_bad, key=lambda r: len(r["case"]))
        chk.violation("c11_%s.json" % b["tag"].replace(":", "_"), {
            "kind": "property", "what": "a cursor combinator's observations differ from the reference cursor over its specified list",
            "case": b, "n_failing": tally.nbad[0],
            "replay_cmd": "./bin/check C11 --replay <this file>   (or: echo '<case>' | work/target/release/c11, compare with spec_out)"})
    elif corr_bad or model_spec_bad or not ok_proof:
        chk.violation("c11_unproved.json", {
            "kind": "no-failing-input-found", "broken": info["broken"],
            "impl_vs_model": corr_bad[:5], "model_vs_spec": model_spec_bad[:5]}, no_input=True)


def replay(path):
    with open(path) as fh:
        obj = json.load(fh)
    print(json.dumps(obj, indent=1)[:4000])
    case = obj.get("case")
    if case:
        okh, outh, (hxbin, hxf) = vlib.cargo_build(["c11", "c11f"])
    okxf, outxf = vlib.coq_make(["theories/Cursor/FExtract.vo"])
    okmf, outmf, mxf = vlib.ocaml_build("cursor", "mx_fcursor")
    if not (okxf and okmf):
        raise RuntimeError("fallible model build failed:\n" + outxf[-1500:] + outmf[-1500:])
        rc, out = vlib.sh([hxbin], stdin=(case["case"] + "\n").encode())
        print("impl now :", out.strip())
        print("spec     :", case["spec_out"])
        return 0 if out.strip() == case["spec_out"] else 1
    return 1
