"""C20 — writes keep completing: ingest and compaction never wait on each other forever.

Decided by: theorems of coq/theories/Stall/Props_C20.v over (i) Stall/Select.v, an executable model
of the compaction selector of lsmtk/src/tree/mod.rs, (ii) Stall/Proto.v, the stall/compact
condition-variable protocol as a transition system, (iii) Stall/Known.v, the known class.  Tied to
the code by
  * the selector on generated trees: the real Version::next_compaction (hook lsmtk::verif_select,
    no files touched) vs the extracted model vs two direct oracles stated in Python (admissibility
    of the choice; "a stalled tree with nothing ongoing has a compaction unless it is in the
    known class");
  * an exhaustive small-scope search of (options, tree) for the boundary of the class;
  * sessions of a real KeyValueStore with its real flush thread and 1..3 real compaction
    threads: the order of the critical sections of the compaction mutex is recorded (hook) and
    replayed on the model (every select, park, ingest, apply must be what the model says), and a
    watchdog that reads the parked counters under the same mutex decides "every store thread
    parked, no wake-up pending" exactly."""
import json
import os
import select
import shutil
import subprocess
import time

import vlib
import c20_gen as G

META = {
    "category": "proof",
    "technique": "Coq model of the selector and of the wake-up protocol; invariants; differential runs on synthetic trees; trace acceptance of real threaded runs",
    "text": "Coq theorems (Stall/Props_C20.v, closed under the global context) over an executable model of lsmtk's compaction selector (compute_bounds with its fixed-point loop and a proved fuel bound, trivial moves, find_best_compaction with saturating i64 scores and the byte/file limits, expand_compaction, may_choose_compaction, next_compaction with the mandatory logic and exact-rational level_factor) and over a transition system of the stall/compact condition variables: no wake-up is lost on either variable for every interleaving of client ingests and 1..K compaction threads; the store threads all wait on one another exactly when ingest is stalled, nothing is ongoing and the selector returns nothing, and that state is permanent; the selector returns a compaction in every stalled state outside the known class K-stall for every usize option setting (inside the class the statement is refuted and the deadlock is shown reachable); every choice of the selector is admissible (Lsm valid_compactionb, incl. the expanded candidates) and respects ongoing compactions; the selector never panics and its loop terminates on well-formed trees; every compaction it picks lowers a measure of the tree, so a run of select-and-apply steps between two ingests has at most mu(v) steps. The models are tied to the code by 3-way differential runs on generated trees (real next_compaction vs extracted model vs Python oracles), an exhaustive small-scope class search, and real multi-threaded store sessions whose critical-section traces are replayed on the model with an exact all-parked watchdog. Compaction threads that return after an I/O error are covered (fault-injected sessions; the survivors must be woken). Repaired in /repo: F15, the README stall (0634ccd); the missing compact.notify_all() of a failing compaction thread (33fc9d3). Known classes: K-stall; waitlist-full (more writers in flight than wait-list slots, demonstrated on a 2-slot ring).",
    "note": "Liveness is proved in its safety form (no lost wake-up + stall_relievable + permanence of stuck states + a termination measure for sequential select-and-apply runs); not proved: the run-level measure bound for several compaction threads (a compaction selected on one version and applied to a later one), well-formedness of the tree as an invariant of the protocol model (a hypothesis, asserted on every real run; C01 proves it for its own machine), liveness of put/delete/batch (safety in C06, hand-over liveness in C18, composition not stated), scheduler/Mutex/Condvar fairness. The protocol model covers the compaction mutex and the condition variables stall/compact only; other locks held across a wait (manifest RwLock, store mutex, wait list) are caught by progress, not by the model: watchdog verdict `lockheld` in the threaded sessions (incl. a family whose stall is relieved by a merging, manifest-writing compaction) and gated multi-writer schedules overlapping a rollover in which every put must return. Trusted: Coq kernel; extraction + ocaml/stall driver; harness c20 and the cfg(blue_verif) hooks verif_select / verif_parked / trace (critical sections of the compaction mutex are taken to be atomic); Rust Mutex/Condvar semantics; float tables compared with Rust on every run, cases within 2^-20 of an integer or |score| >= 2^32 counted as float-risk. Class K-stall: level 0 empty under a zero stall threshold; max_open_files <= |L0| + |L1 overlap| (or, when the mandatory condition does not hold under a stall, <= the number of files in the tree).",
}

PROPS = "theories/Stall/Props_C20.v"
MODULE = "Stall.Props_C20"
U64 = (1 << 64) - 1


# ------------------------------------------------------------------ Python oracles (independent of the Coq model)
def sat_size(files):
    s = 0
    for f in files:
        s = min(s + f[5], U64)
    return s


def overlap(a, b):
    return a[1] <= b[2] and b[1] <= a[2]


def py_stall(opts, levels):
    return len(levels[0]) >= opts[5] or sat_size(levels[0]) >= opts[6]


def py_mandatory(opts, levels):
    return len(levels[0]) >= opts[3] or sat_size(levels[0]) >= opts[4] or all(len(lv) > 0 for lv in levels)


def py_l1_overlap(levels):
    l0 = levels[0]
    if not l0 or len(levels) < 2:
        return 0
    fk, lk = min(f[1] for f in l0), max(f[2] for f in l0)
    while True:
        sel = [f for f in levels[1] if f[2] >= fk and f[1] <= lk]
        nf, nl = min([fk] + [f[1] for f in sel]), max([lk] + [f[2] for f in sel])
        if (nf, nl) == (fk, lk):
            return len(sel)
        fk, lk = nf, nl


def py_known(opts, levels):
    """the class K-stall, stated independently of the Coq definition; returns the sub-class or None"""
    if not levels[0]:
        return "empty-l0"
    if py_mandatory(opts, levels):
        if opts[0] <= len(levels[0]) + py_l1_overlap(levels):
            return "max-open-files"
    elif opts[0] <= sum(len(lv) for lv in levels):
        return "max-open-files-without-mandatory"
    return None


def py_valid(levels, ch):
    """admissibility of a chosen compaction (the definition of Lsm valid_compactionb restated on
    metadata); returns None or the name of the conjunct that fails"""
    lo, up, fk, lk, ids = ch["lo"], ch["up"], ch["fk"], ch["lk"], set(ch["ids"])
    if not (lo < up < len(levels)) or fk > lk:
        return "shape"
    U = levels[up]
    lb = 0
    while lb < len(U) and U[lb][2] < fk:
        lb += 1
    ub = 0
    while ub < len(U) and U[ub][1] <= lk:
        ub += 1
    if lb > ub:
        return "shape"
    if any(f[0] not in ids for f in U[lb:ub]):
        return "slice"
    if any(f[0] in ids for f in U[:lb] + U[ub:]):
        return "rest"
    mid = []
    for j in range(lo, up):
        lv = levels[j]
        if j == 0:
            lv = sorted(lv, key=lambda f: -f[4])
        mid += lv
    for f in mid + U:
        if f[0] in ids and not (fk <= f[1] and f[2] <= lk):
            return "range"
    for i, x in enumerate(mid):
        if x[0] in ids:
            for g in mid[i + 1:]:
                if g[0] not in ids and overlap(x, g):
                    return "closed"
    have = set(f[0] for f in mid + U)
    if not ids <= have:
        return "ids"
    return None


def py_may_choose(opts, og, ch):
    if ch["lo"] == ch["up"]:
        return False
    n = 0
    for c in og:
        n = min(n + len(c[5]), U64)
    if len(ch["ids"]) + n >= opts[0]:
        return False
    for c in og:
        if c[0] <= ch["up"] and ch["lo"] <= c[1] and c[2] <= ch["lk"] and ch["fk"] <= c[3]:
            return False
    return True


def parse_choice(words):
    if words == ["none"]:
        return None
    return {"lo": int(words[0]), "up": int(words[1]), "fk": G_unhx(words[2]), "lk": G_unhx(words[3]), "size": int(words[4]),
            "ids": [int(x) for x in words[5].split(",")] if len(words) > 5 and words[5] else []}


def G_unhx(s):
    return b"" if s == "-" else bytes.fromhex(s)


# ------------------------------------------------------------------ small-scope enumeration (class boundary)
def enum_small(rng, limit):
    """every tree over 3 levels with L0 <= 2 files, L1 <= 2 files, L2 <= 1 file, keys in {a,b,c},
    sizes in {1, 10}, crossed with an option grid around the thresholds; when the product exceeds
    `limit` a seeded sample of it is taken"""
    keys = [b"a", b"b", b"c"]
    ranges = [(a, b) for a in keys for b in keys if a <= b]
    l0s = [[]]
    for r1 in ranges:
        for s1 in (1, 10):
            l0s.append([(r1, s1)])
            for r2 in ranges:
                l0s.append([(r1, s1), (r2, 10 - s1 + 1)])
    l1s = [[]]
    for r1 in ranges:
        for s1 in (1, 10):
            l1s.append([(r1, s1)])
            for r2 in ranges:
                if r1[1] <= r2[0]:
                    l1s.append([(r1, s1), (r2, 10)])
    l2s = [[]] + [[(r, s)] for r in ranges for s in (1, 10)]
    grid = []
    for mof in (0, 1, 2, 3, 4, 5, 1 << 19):
        for mcf in (1, 2, 64):
            for stall in (0, 1, 2):
                for mand in (1, 2, 100):
                    grid.append([mof, 1 << 29, mcf, mand, 1 << 26, stall, 1 << 28])
    total = len(l0s) * len(l1s) * len(l2s) * len(grid)
    out = []

    def mk(l0, l1, l2, o):
        nid = 1
        levels = []
        ts = 10
        for lv in (l0, l1, l2):
            fs = []
            for (a, b), sz in lv:
                fs.append([nid, a, b, ts, ts, sz])
                nid += 1
                ts += 1
            levels.append(fs)
        return o, [], levels

    if total <= limit:
        for l0 in l0s:
            for l1 in l1s:
                for l2 in l2s:
                    for o in grid:
                        out.append(mk(l0, l1, l2, o))
    else:
        for _ in range(limit):
            out.append(mk(rng.choice(l0s), rng.choice(l1s), rng.choice(l2s), rng.choice(grid)))
    return out, total


# ------------------------------------------------------------------ running the two sides
def run_lines(cmd, lines, workdir, tag, timeout=3000):
    p = os.path.join(workdir, tag + ".in")
    with open(p, "w") as fh:
        fh.write("\n".join(lines) + "\n")
    rc, out = vlib.sh("%s < %s" % (cmd, p), timeout=timeout)
    res = out.split("\n")
    if res and res[-1] == "":
        res.pop()
    return rc, res


class Proc:
    """a co-process with line-based request/response and a read time-out"""

    def __init__(self, argv):
        self.p = subprocess.Popen(argv, stdin=subprocess.PIPE, stdout=subprocess.PIPE, stderr=subprocess.DEVNULL, bufsize=0)
        self.buf = b""
        self.threads = []

    def readline(self, timeout):
        fd = self.p.stdout.fileno()
        while b"\n" not in self.buf:
            ready, _, _ = select.select([fd], [], [], timeout)
            if not ready:
                return None
            chunk = os.read(fd, 1 << 16)
            if not chunk:
                rest, self.buf = self.buf, b""
                return rest.decode() if rest else ""
            self.buf += chunk
        line, self.buf = self.buf.split(b"\n", 1)
        return line.decode()

    def send(self, line):
        self.p.stdin.write((line + "\n").encode())
        self.p.stdin.flush()

    def cmd(self, line, timeout=60):
        self.send(line)
        while True:
            ln = self.readline(timeout)
            if ln is None:
                return "HANG"
            if ln == "":
                return "EOF"
            if ln.startswith("THREAD "):
                self.threads.append(ln)
                continue
            return ln

    def cmd_multi(self, line, endprefix, timeout=60):
        self.send(line)
        outs = []
        while True:
            ln = self.readline(timeout)
            if ln is None:
                outs.append("HANG")
                return outs
            if ln == "":
                outs.append("EOF")
                return outs
            if ln.startswith("THREAD "):
                self.threads.append(ln)
                continue
            outs.append(ln)
            if ln.startswith(endprefix):
                return outs

    def close(self):
        try:
            self.p.kill()
            self.p.wait(timeout=10)
        except Exception:
            pass


# ------------------------------------------------------------------ threaded store sessions
OPT_FLAGS = ["--max-open-files", "--max-compaction-bytes", "--max-compaction-files", "--l0-mandatory-compaction-threshold-files",
             "--l0-mandatory-compaction-threshold-bytes", "--l0-write-stall-threshold-files", "--l0-write-stall-threshold-bytes"]
SKEYS = [b"a", b"b", b"c", b"d", b"e", b"f", b"g", b"h", b"k", b"m", b"p", b"s", b"w", b"z"]


def gen_deep_overlap(rng):
    """every flush rewrites the same small key set, so every file overlaps every other: the tree is
    built level by level with single-stepped compactions until level 1 holds a file (15+ rounds),
    level 0 is then filled to the stall threshold, one more flush parks on `stall`, and only then
    the compaction threads start: the stall must be relieved by a MERGING compaction (no trivial
    move exists), which writes the manifest while the ingest sleeps"""
    o = list(G.DEFAULTS)
    o[5] = rng.choice([1, 2, 2, 3])
    o[3] = rng.range(1, o[5])
    o[2] = rng.choice([1, 2, 4, 64])
    k = rng.choice([1, 2, 2, 3])
    keys = sorted(set(rng.choice(SKEYS) for _ in range(rng.range(2, 4))) | {b"a", b"z"})
    rounds = rng.choice([15, 15, 16, 18])
    base = rng.range(600, 3000)
    shrink = rng.choice([0, base // 22, base // 18])
    script = []
    for r in range(rounds):
        sz = max(1, base - shrink * r)
        for key in keys:
            script.append("put %s %s" % (key.hex(), (bytes([65 + rng.below(26)]) * sz).hex()))
        script += ["flush", "stepall"]
    for r in range(o[5]):
        for key in keys:
            script.append("put %s %s" % (key.hex(), (b"w" * rng.range(1, 200)).hex()))
        script.append("flush")
    for key in keys:
        script.append("put %s 7777" % key.hex())
    script += ["flushreq", "flushwait", "threads %d" % k, "settle"]     # flushwait: until the flush thread is parked on `stall`
    for r in range(rng.range(0, 3)):
        for key in keys:
            script.append("put %s %s" % (key.hex(), (b"x" * rng.range(1, 300)).hex()))
        script += ["flushreq", "flushwait"]
    return {"tag": "deep-overlap", "opts": o, "k": k, "script": script}


def gen_session(rng, tier):
    """a scripted session: options, K compaction threads, rounds of puts followed by a flush
    request; thresholds are small so that a dozen flushes fill level 0 and cascade through the levels"""
    if rng.chance(1, 12):
        return gen_deep_overlap(rng)
    kind = rng.below(100)
    o = list(G.DEFAULTS)
    if kind < 45:
        tag = "small-thresholds"
        o[2] = rng.choice([1, 2, 3, 4, 64])
        o[3] = rng.choice([1, 2, 4])
        o[5] = rng.choice([2, 3, 4, 12])
        if o[3] > o[5]:
            o[3] = o[5]
    elif kind < 60:
        tag = "byte-thresholds"
        o[4] = rng.choice([300, 2000, 20000])
        o[6] = o[4] * rng.choice([1, 2, 4])
        o[1] = rng.choice([500, 5000, 1 << 29])
    elif kind < 75:
        tag = "defaults"
    elif kind < 85:
        tag = "stall-without-mandatory"
        o[5] = rng.choice([1, 2])
        o[3] = 100
    elif kind < 93:
        tag = "known:zero-stall-threshold"
        if rng.chance(1, 2):
            o[5] = 0
        else:
            o[6] = 0
    else:
        tag = "tiny-max-compaction-files"       # the F15 / F19 settings, repaired by 0634ccd
        o[2] = rng.choice([1, 2])
        o[5] = rng.choice([2, 3])
        o[3] = 1
    k = rng.choice([1, 1, 2, 2, 3, 4])
    rounds = rng.range(6, 16) if tier == "quick" else rng.range(10, 40)
    late = rng.chance(1, 4)          # the compaction threads start only after some flushes
    late_at = rng.range(1, rounds - 1) if late else 0
    script = [] if late else ["threads %d" % k]
    decreasing = rng.chance(1, 3)
    # fault injection: from some round on every merging compaction fails with an I/O error (its
    # thread returns) until the first compaction thread has returned; the other threads go on
    fault = (not late) and k >= 2 and rng.chance(1, 6)
    fault_at = rng.range(1, rounds - 1) if fault else -1
    for r in range(rounds):
        if r == fault_at:
            script.append("sabotage")
        if late and r == late_at:
            script.append("threads %d" % k)
            script.append("settle")
        n = rng.range(1, 5)
        base = rng.range(1, 700)
        for _ in range(n):
            key = rng.choice(SKEYS) + (bytes([97 + rng.below(3)]) if rng.chance(1, 3) else b"")
            sz = max(1, base * (rounds - r) // rounds) if decreasing else rng.range(1, base)
            if rng.chance(1, 8):
                script.append("del %s" % key.hex())
            else:
                script.append("put %s %s" % (key.hex(), (bytes([65 + rng.below(26)]) * sz).hex()))
        script.append("flushreq")
        if r == fault_at:
            script.append("waitexit")
            script.append("unsabotage")
        script.append("flushwait")
    return {"tag": tag + ("+late-threads" if late else "") + ("+fault" if fault else ""), "opts": o, "k": k, "script": script}


def run_session(exe, mx, sess, work, idx):
    """-> dict(result fields); never raises on store misbehaviour (that is an observation)"""
    root = os.path.join("/dev/shm" if os.path.isdir("/dev/shm") else work, "blue_verif_c20_%d_%d" % (os.getpid(), idx))
    shutil.rmtree(root, ignore_errors=True)
    flags = []
    for n, v in zip(OPT_FLAGS, sess["opts"]):
        flags += [n, str(v)]
    res = {"tag": sess["tag"], "problems": [], "verdict": None, "events": 0, "selects": 0, "applies": 0, "ingests": 0,
           "parks": 0, "spurious": 0, "risk_skips": 0, "ops": 0}
    st = Proc([exe, "store", root] + flags)
    md = Proc([mx])
    try:
        ln = st.readline(60)
        if ln != "OPEN ok":
            res["problems"].append({"kind": "error", "what": "open failed: %s" % ln})
            return res
        st.cmd("trace on")
        kcur = 0
        verdict = None
        pending_flush = False
        faulty = "sabotage" in sess["script"]
        for op in sess["script"]:
            if op == "flushwait":
                if kcur == 0 and pending_flush:
                    continue          # the flush thread is parked and there is nobody to relieve it yet
                out = st.cmd("flushwait 20000 %d" % kcur, timeout=60)
                if out == "FLUSHWAIT deadlock":
                    if kcur == 0:
                        pending_flush = True      # no compaction thread exists yet: not a verdict
                        continue
                    verdict = "deadlock"
                    break
                if out == "FLUSHWAIT lockheld":
                    verdict = "lockheld"
                    break
                if out == "FLUSHWAIT threadexit" and faulty and not any(t.startswith("THREAD memtable") for t in st.threads):
                    verdict = "threadexit"        # every compaction thread returned after an injected fault: the premise is gone
                    break
                if out != "FLUSHWAIT done":
                    res["problems"].append({"kind": "hang" if "timeout" in out or out == "HANG" else "error", "what": "flush did not complete: %s" % out, "threads": st.threads})
                    verdict = out
                    break
            elif op.startswith("threads"):
                st.cmd(op)
                kcur += int(op.split()[1])
            elif op == "settle":
                out = st.cmd("watch 20000 %d" % kcur, timeout=60)
                v = out.split()[1] if out.startswith("WATCH") else out
                if v in ("deadlock", "lockheld"):
                    verdict = v
                    break
                if v == "threadexit" and faulty and not any(t.startswith("THREAD memtable") for t in st.threads):
                    verdict = "threadexit"
                    break
                if v != "idle":
                    res["problems"].append({"kind": "hang", "what": "store did not settle after the compaction threads started: %s" % out, "threads": st.threads})
                    verdict = v
                    break
                pending_flush = False
            elif op == "flushreq" and pending_flush:
                continue
            elif op == "waitexit":
                st.cmd("waitexit 1500 1", timeout=30)
            elif op == "stepall":
                for _ in range(200):
                    out = st.cmd("step", timeout=60)
                    if not out.startswith("STEP") or out == "STEP none" or out.startswith("STEP err"):
                        break
                if out != "STEP none":
                    res["problems"].append({"kind": "error", "what": "single-stepped compaction did not finish: %s" % out[:200]})
            elif op == "flush":
                out = st.cmd("flush", timeout=60)
                if not out.startswith("FLUSH "):
                    res["problems"].append({"kind": "hang", "what": "blocking flush did not complete: %s" % out})
                    verdict = out
                    break
            else:
                out = st.cmd(op, timeout=20)
                res["ops"] += 1
                if not out.endswith(" ok") and not out.startswith("FLUSHREQ"):
                    res["problems"].append({"kind": "write", "what": "a write did not return ok: %s -> %s" % (op[:40], out[:200])})
                    if out in ("HANG", "EOF"):
                        verdict = out
                        break
        k = kcur
        if verdict is None:
            out = st.cmd("watch 20000 %d" % k, timeout=60)
            verdict = out.split()[1] if out.startswith("WATCH") else out
        res["verdict"] = verdict
        if verdict == "lockheld":
            # progress watchdog: the compaction mutex (or the store mutex) could not be had for 5 s
            # while a flush was waiting.  Nothing of the store can be asked any more (peek and the
            # trace need the same mutex); the session itself is the replay.
            res["problems"].append({"kind": "lockheld", "what": "no progress: a store lock (the compaction mutex or the store mutex) is held for more than 5 s while a flush or an ingest is waiting; every store thread waits on one another through a lock that is held across a wait"})
            return res
        peek = st.cmd("peek") if verdict in ("deadlock", "idle") else "PEEK ?"
        tr = st.cmd_multi("taketrace", "TRACEEND", timeout=60)
        if st.threads:
            res["problems"].append({"kind": "threadexit", "what": "a store thread returned: %s" % "; ".join(st.threads)})
        # ---- replay on the model
        ids = {}

        def fid(h):
            if h not in ids:
                ids[h] = len(ids) + 1
            return ids[h]

        def meta(m):
            t = m.split(":")
            return "%d:%s:%s:%s:%s:%s" % (fid(t[0]), t[1], t[2], t[3], t[4], t[5])

        def core(ws):
            return "%s %s %s %s %s %s" % (ws[0], ws[1], ws[2], ws[3], ws[4], ",".join(str(fid(x)) for x in ws[5].split(",")) if len(ws) > 5 and ws[5] else "-")

        md.cmd("I %s | %s" % (",".join(str(x) for x in sess["opts"]), "/" * 15))
        ok = True
        tlines = [ln for ln in tr if ln.startswith("T ")]
        for n_ev, ln in enumerate(tlines):
            ws = ln[2:].split(" ")
            ev = ws[0]
            res["events"] += 1
            if ev == "wake":
                res["spurious"] += ws[3] == "spurious"
                continue
            if ev == "notify":
                continue
            if ev in ("ingest", "apply", "release"):
                # the notify_all belongs to the same critical section: it is the next event
                want = "notify %s %s" % (ws[1], "stall" if ev == "apply" else "compact")
                nxt = tlines[n_ev + 1][2:] if n_ev + 1 < len(tlines) else ""
                if nxt != want:
                    res["problems"].append({"kind": "property", "what": "%s was not followed by notify_all on `%s` in its critical section (a sleeper would miss the event it waits for)" % (ev, want.split()[-1]), "event": ln[:200], "next": nxt[:100]})
            if ev == "select":
                res["selects"] += 1
                m = md.cmd("E select none" if ws[2] == "none" else "E select " + core(ws[2:]))
            elif ev == "park":
                res["parks"] += 1
                m = md.cmd("E park " + ws[2])
            elif ev == "ingest":
                res["ingests"] += 1
                m = md.cmd("E ingest " + meta(ws[2]))
                if m == "E ok stall=1":
                    m = "E MISMATCH ingest went ahead while the model says should_stall_ingest"
            elif ev == "apply":
                res["applies"] += 1
                bar = ws.index("|")
                m = md.cmd("E apply " + core(ws[2:bar]) + " | " + " ".join(meta(x) for x in ws[bar + 1:] if x))
                if m.startswith("E ok") and "valid=111111" not in m:
                    res["problems"].append({"kind": "property", "what": "an applied compaction is not admissible: %s" % m, "event": ln[:300]})
                if m.startswith("E ok") and "wf=1" not in m:
                    res["problems"].append({"kind": "corr", "what": "tree not well-formed after apply: %s" % m, "event": ln[:300]})
            elif ev == "release":
                m = md.cmd("E release " + core(ws[2:]))
            else:
                m = "E BAD"
            if not m.startswith("E ok"):
                if "risk=1" in m:
                    res["risk_skips"] += 1
                else:
                    res["problems"].append({"kind": "corr", "what": "trace not accepted by the model: %s" % m[:300], "event": ln[:300]})
                ok = False
                break
        if ok and tr and tr[-1].startswith("TRACEEND"):
            q = md.cmd("Q")
            qd = dict(x.split("=", 1) for x in q.split(" ")[1:] if "=" in x)
            levels = [[] for _ in range(16)]
            for it in tr[-1].split(" ")[1:]:
                t = it.split(":")
                levels[int(t[0])].append(str(fid(t[1])))
            mine = "/".join(",".join(lv) for lv in levels)
            if qd.get("tree") != mine:
                res["problems"].append({"kind": "corr", "what": "final tree differs from the model's", "impl": mine, "model": qd.get("tree")})
            res["model_q"] = q
            if verdict in ("deadlock", "idle") and peek.startswith("PEEK"):
                want = "none" if peek == "PEEK none" else core(peek.split(" ")[1:])
                if qd.get("next") is not None and q.split(" next=")[1].split(" wf=")[0] != want:
                    res["problems"].append({"kind": "corr", "what": "peek differs from the model's next_compaction", "impl": want, "model": q})
            if verdict == "deadlock":
                stuck = qd.get("stall") == "1" and qd.get("ongoing") == "0" and " next=none " in q
                if not stuck:
                    res["problems"].append({"kind": "corr", "what": "watchdog says all parked but the model state is not stuck", "model": q})
                res["deadlock_known"] = qd.get("known") == "1"
            if verdict == "idle" and qd.get("stall") == "1" and " next=none " in q and qd.get("ongoing") == "0":
                # idle with the stall condition true: the next ingest will park forever
                res["latent_stall_known"] = qd.get("known") == "1"
    finally:
        st.close()
        md.close()
        shutil.rmtree(root, ignore_errors=True)
    return res


def corpus_cases():
    d = os.path.join(vlib.VERIF, "corpus", "C20")
    out = []
    if os.path.isdir(d):
        for fn in sorted(os.listdir(d)):
            if fn.endswith(".json"):
                with open(os.path.join(d, fn)) as fh:
                    c = json.load(fh)
                c["_file"] = fn
                out.append(c)
    return out


def tree_from_line(line):
    o, g, lv = [x.strip() for x in line.split("|")]
    opts = [int(x) for x in o.split(",")]
    og = []
    if g != "-":
        for c in g.split(";"):
            t = c.split(":")
            og.append([int(t[0]), int(t[1]), G_unhx(t[2]), G_unhx(t[3]), int(t[4]), [] if t[5] == "-" else [int(x) for x in t[5].split(",")]])
    levels = []
    for l in lv.split("/"):
        fs = []
        for f in l.split(";"):
            f = f.strip()
            if f:
                t = f.split(":")
                fs.append([int(t[0]), G_unhx(t[1]), G_unhx(t[2]), int(t[3]), int(t[4]), int(t[5])])
        levels.append(fs)
    return opts, og, levels


# ------------------------------------------------------------------ the check
def run(chk):
    ok_proof, info = vlib.proof_stage(chk, PROPS, MODULE, const_areas=("Stall", "Lsm"), pins_rel="pins/C20.v")
    okx, outx = vlib.coq_make(["theories/Stall/Extract.vo"])
    okm, outm, mx = vlib.ocaml_build("stall", "mx_stall")
    okh, outh, (hxbin,) = vlib.cargo_build(["c20"])
    if not (okx and okm):
        raise RuntimeError("model build failed:\n" + outx[-1500:] + outm[-1500:])
    if not okh:
        raise RuntimeError("harness build failed (does /repo still compile?):\n" + outh[-3000:])

    # self-test only: judge a saved mutant binary without keeping a mutation applied in /repo
    hxbin = os.environ.get("C20_HARNESS_OVERRIDE", hxbin)
    quick = chk.tier == "quick"
    rng = vlib.Rng(chk.seed * 1000003 + 20)
    problems = []          # dicts: kind in property|corr ; with a replay
    stats = {}

    # ---- float tables
    rc, out = vlib.sh([hxbin, "consts"])
    rcm, outm2 = vlib.sh("echo T | %s" % mx)
    try:
        curve_r = [int(x) for x in out.split("\n")[0].split()[1:]]
        bits = [int(x) for x in out.split("\n")[1].split()[1:]]
        curve_m = [int(x) for x in outm2.split("\n")[0].split()[1:]]
        fac_m = [int(x) for x in outm2.split("\n")[1].split()[1:]]
        fac_r = []
        for b in bits:
            exp = (b >> 52) & 0x7FF
            fac_r.append((1 << 52) + (b & ((1 << 52) - 1)) if exp == 1023 and b >> 63 == 0 else -1)
        tables_ok = curve_r == curve_m and fac_r == fac_m and len(curve_m) == 16
    except Exception:
        tables_ok, curve_r, curve_m, fac_r, fac_m = False, out, outm2, None, None
    if not tables_ok:
        problems.append({"kind": "corr", "what": "level_curve / level_factor tables of the model differ from what the Rust expressions evaluate to",
                         "rust": [curve_r, fac_r], "model": [curve_m, fac_m]})

    # ---- selector cases: corpus, class search, generated
    cases = []           # (tag, opts, og, levels)
    corpus = corpus_cases()
    for c in corpus:
        if c.get("kind") == "tree":
            o, g, lv = tree_from_line(c["line"])
            cases.append(("corpus:" + c["_file"], o, g, lv))
    ncorpus = len(cases)
    small, small_total = enum_small(rng.fork(), 30000 if quick else 600000)
    for o, g, lv in small:
        cases.append(("small", o, g, lv))
    nsmall = len(small)
    ngen = 60000 if quick else 1200000
    gstats = {}
    grng = rng.fork()
    for i in range(ngen):
        o, g, lv = G.gen_tree(grng, gstats)
        cases.append(("gen%d" % i, o, g, lv))
    lines = [G.tree_line(o, g, lv) for (_, o, g, lv) in cases]
    t0 = time.time()
    rc1, impl_out = run_lines(hxbin + " sel", lines, chk.work, "sel_impl")
    rc2, model_out = run_lines(mx, ["S " + l for l in lines], chk.work, "sel_model")
    t_sel = time.time() - t0
    if len(impl_out) != len(cases) or len(model_out) != len(cases):
        raise RuntimeError("output line count mismatch impl=%d model=%d cases=%d" % (len(impl_out), len(model_out), len(cases)))

    kinds = {}
    distinct = set()
    n_stalled = n_stalled_none = n_risk = n_risk_mismatch = 0
    known_sub = {}
    small_tally = {"stalled_empty_ongoing": 0, "stuck": 0, "stuck_by_class": {}, "known_not_stuck": 0, "safe_options": 0}
    for (tag, o, g, lv), io, mo, line in zip(cases, impl_out, model_out, lines):
        mm, minfo = mo.split(" | ") if " | " in mo else (mo, "")
        mi = dict(x.split("=") for x in minfo.split() if "=" in x)
        iw = io.split()
        if io == "PANIC":
            kind = "PANIC"
        elif iw[-1] == "none":
            kind = "none"
        else:
            kind = ("move" if len(iw[7].split(",")) == 1 and int(iw[3]) == int(iw[2]) + 1 else "merge") + (":L0" if iw[2] == "0" else ":deep")
        kinds[kind] = kinds.get(kind, 0) + 1
        if kind not in ("none", "PANIC"):
            distinct.add((kind, iw[2], iw[3], len(iw[7].split(",")), o[2] if o[2] < 100 else 100, len(lv[0])))
        n_risk += mi.get("risk") == "1"
        if mi.get("wf") != "1":
            problems.append({"kind": "corr", "what": "generator produced a tree outside sel_wfb", "tag": tag, "line": line})
            continue
        # 1. implementation vs model (the direct oracles below judge the implementation's answer either way)
        agree = io == mm
        if not agree:
            if mi.get("risk") == "1":
                n_risk_mismatch += 1
                continue
            problems.append({"kind": "corr", "what": "real next_compaction differs from the model", "tag": tag, "line": line, "impl": io, "model": mo})
        # 2. direct oracles on the implementation's answer
        if io == "PANIC":
            problems.append({"kind": "property", "what": "the selector panicked on a well-formed tree", "tag": tag, "line": line})
            continue
        stall_i, mand_i = iw[0] == "1", iw[1] == "1"
        if stall_i != py_stall(o, lv) or mand_i != py_mandatory(o, lv):
            problems.append({"kind": "property", "what": "should_stall_ingest / should_perform_mandatory_compaction differ from their definition", "tag": tag, "line": line, "impl": io})
        ch = parse_choice(iw[2:])
        if ch is not None:
            bad = py_valid(lv, ch)
            if bad or (agree and mi.get("valid") != "111111"):
                problems.append({"kind": "property", "what": "the selector chose an inadmissible compaction (conjunct %s; model bits %s)" % (bad, mi.get("valid")), "tag": tag, "line": line, "impl": io})
            if not py_may_choose(o, g, ch):
                problems.append({"kind": "property", "what": "the chosen compaction conflicts with an ongoing one or exceeds max_open_files", "tag": tag, "line": line, "impl": io})
        kn = py_known(o, lv)
        if (kn is not None) != (mi.get("known") == "1"):
            problems.append({"kind": "corr", "what": "known class: Python statement and Coq definition disagree", "tag": tag, "line": line, "py": kn, "coq": mi.get("known")})
        if stall_i and not g:
            n_stalled += 1
            if tag == "small":
                small_tally["stalled_empty_ongoing"] += 1
                small_tally["safe_options"] += mi.get("safe") == "1"
            if ch is None:
                n_stalled_none += 1
                if kn is None:
                    problems.append({"kind": "property", "what": "ingest is stalled, nothing is ongoing, and next_compaction returns None outside the known class: every store thread would park forever",
                                     "tag": tag, "line": line, "impl": io})
                else:
                    known_sub[kn] = known_sub.get(kn, 0) + 1
                    chk.known("K-stall", "a stalled tree with nothing ongoing for which next_compaction returns None (level 0 empty under a zero stall threshold, or max_open_files too small for the compaction out of level 0), e.g. `%s`" % "1,536870912,64,1,67108864,1,268435456 | - | 1:61:7a:5:5:10///////////////")
                    if tag == "small":
                        small_tally["stuck"] += 1
                        small_tally["stuck_by_class"][kn] = small_tally["stuck_by_class"].get(kn, 0) + 1
            elif kn is not None and tag == "small":
                small_tally["known_not_stuck"] += 1

    # ---- threaded sessions
    t0 = time.time()
    nsess = 250 if quick else 3000
    srng = rng.fork()
    sess_stats = {"sessions": 0, "verdicts": {}, "tags": {}, "events": 0, "selects": 0, "applies": 0, "ingests": 0, "parks": 0,
                  "spurious_wakeups": 0, "risk_skips": 0, "deadlocks_known": 0, "latent_stalls_known": 0, "ops": 0, "threadexits": 0}
    sessions = []
    for c in corpus:
        if c.get("kind") == "session":
            sessions.append(({"tag": "corpus:" + c["_file"], "opts": c["opts"], "k": c["k"], "script": c["script"]}, c.get("expect")))
    for i in range(nsess):
        sessions.append((gen_session(srng, chk.tier), None))
    n_hangs = 0
    for idx, (sess, expect) in enumerate(sessions):
        if n_hangs >= 2:
            # every further session would wait out its time-outs too; two witnesses are enough
            sess_stats["aborted_after_hangs"] = len(sessions) - idx
            break
        r = run_session(hxbin, mx, sess, chk.work, idx)
        n_hangs += any(p["kind"] in ("hang", "lockheld") for p in r["problems"]) or r["verdict"] in ("timeout", "HANG")
        sess_stats["sessions"] += 1
        sess_stats["verdicts"][r["verdict"]] = sess_stats["verdicts"].get(r["verdict"], 0) + 1
        t = sess["tag"].split(":")[0] if sess["tag"].startswith("corpus") else sess["tag"]
        sess_stats["tags"][t] = sess_stats["tags"].get(t, 0) + 1
        for k2 in ("events", "selects", "applies", "ingests", "parks", "risk_skips", "ops"):
            sess_stats[k2] += r[k2]
        sess_stats["spurious_wakeups"] += r["spurious"]
        replay = {"opts": sess["opts"], "k": sess["k"], "script": sess["script"], "tag": sess["tag"]}
        for p in r["problems"]:
            if p["kind"] == "threadexit":
                sess_stats["threadexits"] += 1
                if "PANIC" in p["what"]:
                    problems.append({"kind": "property", "what": "a store thread panicked: " + p["what"], "session": replay})
                continue
            if p["kind"] == "lockheld":
                problems.append({"kind": "property", "what": "real threads: " + p["what"], "session": replay})
            elif p["kind"] in ("hang", "write"):
                problems.append({"kind": "property", "what": "a write or flush did not complete although no deadlock of the store threads was detected: " + p["what"], "session": replay})
            else:
                q = dict(p)
                q["session"] = replay
                problems.append(q)
        if r["verdict"] == "deadlock":
            if r.get("deadlock_known"):
                sess_stats["deadlocks_known"] += 1
                chk.known("K-stall", "real threads: the flush thread parked on `stall`, every compaction thread parked on `compact`, nothing ongoing, no wake-up pending (options inside the class)")
            elif "deadlock_known" in r:
                problems.append({"kind": "property", "what": "real threads: every store thread is parked and no wake-up is pending, outside the known class", "session": replay, "model": r.get("model_q")})
        elif r["verdict"] == "threadexit" and "sabotage" in sess["script"]:
            sess_stats["all_compaction_threads_returned_after_fault"] = sess_stats.get("all_compaction_threads_returned_after_fault", 0) + 1
        elif r["verdict"] not in ("idle",):
            if not any(p["kind"] in ("hang", "write", "error", "lockheld") for p in r["problems"]):
                problems.append({"kind": "corr", "what": "session ended with verdict %s" % r["verdict"], "session": replay})
        if r.get("latent_stall_known") is True:
            sess_stats["latent_stalls_known"] += 1
        elif r.get("latent_stall_known") is False:
            problems.append({"kind": "property", "what": "idle store whose next ingest would stall forever, outside the known class", "session": replay, "model": r.get("model_q")})
        if expect and r["verdict"] not in (expect if isinstance(expect, list) else [expect]):
            problems.append({"kind": "property" if "idle" in expect else "corr", "what": "corpus session: expected verdict %s, got %s" % (expect, r["verdict"]), "session": replay})
    t_sess = time.time() - t0

    # ---- client writers that overlap a rollover (gated schedules): every put must return
    # The sessions above have one client; here 2..6 writers are in flight at once, one of them is
    # held at a gate (after it got its sequence number / after its log append / after its memtable
    # insert) while a rollover is requested and other writers link behind the flush thread, then
    # it is released.  Nothing can stall here (default thresholds, a handful of files): a put that
    # does not return, or a requested flush that is not ingested, within 4 s is a violation.
    wstats = {"schedules": 0, "writers": 0, "with_rollover": 0, "samples": []}
    wrng = rng.fork()
    wscripts = [("corpus", "arm:w_logged:0;start:0;parked:w_logged:0;flushreq;rolled;sleep:50;start:1;sleep:150;release:w_logged:0;sleep:100;start:2")]
    for i in range(14 if quick else 150):
        point = wrng.choice(["w_logged", "w_logged", "w_dropped", "w_unlocked"])
        n = wrng.range(2, 5)
        sc = ["arm:%s:0" % point, "start:0", "parked:%s:0" % point]
        roll = wrng.chance(4, 5)
        if roll:
            sc += ["flushreq", "rolled", "sleep:%d" % wrng.choice([0, 30])]
        for t in range(1, n):
            sc += ["start:%d" % t, "sleep:%d" % wrng.choice([0, 20, 120])]
        if not roll and wrng.chance(1, 2):
            sc += ["flushreq"]
        sc += ["release:%s:0" % point, "sleep:%d" % wrng.choice([0, 60]), "start:%d" % n]
        wscripts.append(("gen%d" % i, ";".join(sc)))
    for tag, sc in wscripts:
        d = os.path.join("/dev/shm" if os.path.isdir("/dev/shm") else chk.work, "blue_verif_c20_w_%d" % os.getpid())
        shutil.rmtree(d, ignore_errors=True)
        rc, out = vlib.sh([hxbin, "writers", d, "4000", sc], timeout=60)
        shutil.rmtree(d, ignore_errors=True)
        ln = ([l for l in out.split("\n") if l.startswith("WRITERS")] or ["WRITERS verdict=nooutput"])[-1]
        wstats["schedules"] += 1
        wstats["writers"] += sc.count("start:")
        wstats["with_rollover"] += "flushreq" in sc
        if len(wstats["samples"]) < 2:
            wstats["samples"].append(sc + " -> " + ln)
        if "verdict=allreturned" not in ln:
            problems.append({"kind": "property", "what": "a put did not return (or a requested flush was not ingested) although nothing is stalled: " + ln, "schedule": sc, "tag": tag,
                             "replay_cmd": "work/target/release/c20 writers /dev/shm/x 4000 '%s'" % sc})
            if sum(1 for p in problems if "schedule" in p) >= 3:
                break

    # ---- the write path against a full wait-list ring (known class waitlist-full)
    # KeyValueStore::write links into the wait list while holding the store mutex; when every slot
    # is linked, link sleeps with the mutex held and nobody can unlink.  At production size that
    # needs MAX_CONCURRENCY + 1 = 65537 writers inside write() at once (not runnable here); the
    # ring is made small through the existing hook sync42::verif::set_slots.  Sessions with
    # writers <= slots must never stick.
    ring_stats = {"demonstrated": False, "controls": 0, "lines": []}

    def ring_run(slots, writers):
        d = os.path.join("/dev/shm" if os.path.isdir("/dev/shm") else chk.work, "blue_verif_c20_ring_%d" % os.getpid())
        shutil.rmtree(d, ignore_errors=True)
        rc, out = vlib.sh([hxbin, "ring", d, str(slots), str(writers), "2500"], timeout=60)
        shutil.rmtree(d, ignore_errors=True)
        ln = [l for l in out.split("\n") if l.startswith("RING")]
        ring_stats["lines"].append(ln[-1] if ln else "no output")
        return ln[-1] if ln else "RING verdict=nooutput"

    ln = ring_run(2, 3)
    if "verdict=allstuck" in ln and "gate_parked=1" in ln:
        ring_stats["demonstrated"] = True
        chk.known("waitlist-full", "more writers inside KeyValueStore::write than the wait list has slots: the extra writer sleeps in WaitList::link holding the store mutex and no put/get/flush ever returns (demonstrated with the ring set to 2 slots through the hook sync42::verif::set_slots and 3 writers + 1 reader: `c20 ring DIR 2 3 2500` -> %s; at production size it takes 65537 writers in flight)" % ln)
    elif "verdict=allreturned" in ln:
        chk.notes.append("waitlist-full no longer reproduces with 3 writers on a 2-slot ring: " + ln)
    else:
        problems.append({"kind": "corr", "what": "ring session (3 writers, 2 slots) ended neither all-stuck nor all-returned", "line": ln})
    for slots, writers in ((2, 2), (3, 3), (4, 3), (8, 5)) if quick else ((2, 1), (2, 2), (3, 2), (3, 3), (4, 3), (4, 4), (8, 5), (8, 8), (16, 12)):
        ln = ring_run(slots, writers)
        ring_stats["controls"] += 1
        if "verdict=allreturned" not in ln:
            problems.append({"kind": "property", "what": "a put or get did not return although no more writers were in flight than the wait list has slots", "ring": ln,
                             "replay_cmd": "work/target/release/c20 ring /dev/shm/x %d %d 2500" % (slots, writers)})

    # ---- evidence
    samples = [lines[ncorpus + nsmall + 3][:500], lines[-1][:500]] if len(lines) > ncorpus + nsmall + 3 else lines[:2]
    chk.coverage.update({
        "evaluations": len(cases) + sess_stats["events"],
        "distinct_nontrivial": len(distinct),
        "rule": "selector: synthetic trees (sorted levels with shared boundary keys, L0 with distinct timestamps, 2..16 levels, sizes incl. 0, 2^26, 2^63-1; options drawn around |L0|, the file count and the byte thresholds incl. 0 and 2^64-1; 0..3 ongoing compactions) from one SplitMix64 seed + the small-scope product + corpus; non-trivial = a compaction was chosen; distinct = distinct (kind, levels, number of inputs, max_compaction_files class, |L0|). sessions: every recorded critical section (select/park/ingest/apply) of real threaded runs is one evaluation",
        "samples": samples,
        "input_distribution": {"selector_cases": len(cases), "corpus_trees": ncorpus, "small_scope_cases": nsmall, "small_scope_product": small_total,
                               "generated": ngen, "generator": gstats, "choice_kinds": kinds,
                               "stalled_with_empty_ongoing": n_stalled, "of_which_selector_none": n_stalled_none, "known_subclasses_hit": known_sub,
                               "float_risk_cases": n_risk, "float_risk_mismatches_skipped": n_risk_mismatch},
        "class_search": small_tally,
        "sessions": sess_stats,
        "waitlist_ring": ring_stats,
        "gated_writers": wstats,
        "correspondence": "real Version::next_compaction (hook verif_select) vs extracted Coq model vs Python oracles, 3-way; real threaded store sessions replayed event by event on the extracted model",
        "disagreements_impl_vs_model": sum(1 for p in problems if p["kind"] == "corr"),
        "disagreements_impl_vs_spec": sum(1 for p in problems if p["kind"] == "property"),
        "timing_s": {"selector": round(t_sel, 1), "sessions": round(t_sess, 1)},
        "trusted_base": [
            "Coq 8.16.1 kernel (coqc, full .vo build); vm_compute for the refutation witnesses",
            "tools/constants.py (NUM_LEVELS re-extracted from lsmtk/src/tree/mod.rs)",
            "extraction via ExtrOcamlBasic (no Extract Constant of ours) + ocaml/stall/mx_stall.ml driver",
            "harness/src/bin/c20.rs; hooks lsmtk::verif_select / LsmTree::verif_parked / verif_trace (cfg(blue_verif), add-only)",
            "critical sections of LsmTree's `compaction` mutex are atomic; std Mutex/Condvar semantics (wait releases and enqueues atomically, notify_all reaches all waiters)",
            "float tables retyped in Stall/Select.v, compared with the Rust expressions on every run",
        ],
    })
    chk.assumptions = [
        "trees are well-formed (sel_wfb: files non-empty and sorted, levels >= 1 sorted, unique setsums, distinct level-0 timestamps, sizes < 2^63); checked on every tree of the run",
        "the flush thread and at least one compaction thread are running (the property's premise); compaction threads that return after an I/O error are covered as long as one is left",
        "scheduler fairness and termination of a sequence of compactions are not part of the theorems",
    ]

    prop = [p for p in problems if p["kind"] == "property"]
    corr = [p for p in problems if p["kind"] != "property"]
    for n, p in enumerate(prop[:5]):
        p["replay_cmd"] = "selector case: echo '<line>' | work/target/release/c20 sel ; session: ./bin/check C20 --replay <this file>"
        chk.violation("c20_property_%d.json" % n, p)
    if not prop and (corr or not ok_proof):
        chk.violation("c20_unproved.json", {"kind": "no-failing-input-found", "broken": info["broken"], "correspondence_disagreements": corr[:5]}, no_input=True)


def replay(path):
    with open(path) as fh:
        obj = json.load(fh)
    print(json.dumps(obj, indent=1, default=str)[:6000])
    okh, outh, (hxbin,) = vlib.cargo_build(["c20"])
    okm, outm, mx = vlib.ocaml_build("stall", "mx_stall")
    if "line" in obj:
        rc, out = vlib.sh("echo '%s' | %s sel" % (obj["line"], hxbin))
        rc2, out2 = vlib.sh("echo 'S %s' | %s" % (obj["line"], mx))
        print("impl now :", out.strip())
        print("model    :", out2.strip())
        o, g, lv = tree_from_line(obj["line"])
        iw = out.split()
        ch = parse_choice(iw[2:]) if out.strip() != "PANIC" else None
        stuck = iw[0] == "1" and not g and ch is None and py_known(o, lv) is None
        bad = ch is not None and (py_valid(lv, ch) or not py_may_choose(o, g, ch))
        return 1 if (stuck or bad or out.strip() != out2.split(" | ")[0].strip()) else 0
    if "schedule" in obj:
        d = "/dev/shm/blue_verif_c20_replay_w"
        shutil.rmtree(d, ignore_errors=True)
        rc, out = vlib.sh([hxbin, "writers", d, "4000", obj["schedule"]], timeout=60)
        shutil.rmtree(d, ignore_errors=True)
        print("impl now :", out.strip())
        return 0 if "verdict=allreturned" in out else 1
    if "session" in obj:
        s = obj["session"]
        work = os.path.join(vlib.WORK, "C20")
        os.makedirs(work, exist_ok=True)
        r = run_session(hxbin, mx, s, work, 9999)
        print(json.dumps(r, indent=1, default=str)[:4000])
        return 1 if (r["problems"] or (r["verdict"] == "deadlock" and not r.get("deadlock_known"))) else 0
    return 1
