"""C20 generators: synthetic trees (levels of file metadata), option settings and ongoing lists for
the selector comparison; everything from the one vlib.Rng handed in."""

U64 = (1 << 64) - 1

# keys: a small universe with shared prefixes, the empty key and 0xff runs, so that first/last keys
# collide, nest and touch at boundaries
KEYS = sorted(set([b"", b"\x00", b"a", b"a\x00", b"aa", b"ab", b"b", b"b\x00", b"ba", b"c", b"d", b"e", b"f", b"g", b"h",
                   b"k", b"m", b"p", b"s", b"w", b"z", b"zz", b"\xff", b"\xff\xff"]))

SIZES = [0, 1, 2, 7, 100, 1000, 4096, 1 << 20, 1 << 26, (1 << 26) - 1, 1 << 28, 1 << 29, (1 << 29) + 1, 1 << 32,
         (1 << 32) + 3, 1 << 40, 1 << 62, (1 << 63) - 1]

DEFAULTS = [1 << 19, 1 << 29, 1 << 6, 4, 1 << 26, 12, 1 << 28]


def hx(b):
    return b.hex() if b else "-"


def size(rng, big):
    k = rng.below(100)
    if k < 55:
        return rng.range(1, 5000)
    if k < 80:
        return rng.choice(SIZES[:8])
    if k < 92 or not big:
        return rng.choice(SIZES[:13])
    return rng.choice(SIZES)


def gen_level(rng, nfiles, dense, big, nid):
    """a sorted level: files with first <= last, last_i <= first_{i+1} (equality = shared boundary key)"""
    if nfiles == 0:
        return []
    # pick 2*nfiles sorted key positions (with repeats allowed: single-key files, shared boundaries)
    if dense:
        lo, hi = 0, len(KEYS) - 1
    else:
        a, b = rng.below(len(KEYS)), rng.below(len(KEYS))
        lo, hi = min(a, b), max(a, b)
    pts = sorted(rng.range(lo, hi) for _ in range(2 * nfiles))
    if dense and nfiles >= 1:
        pts[0], pts[-1] = 0 if rng.chance(3, 4) else pts[0], len(KEYS) - 1 if rng.chance(3, 4) else pts[-1]
    files = []
    for i in range(nfiles):
        f, l = KEYS[pts[2 * i]], KEYS[pts[2 * i + 1]]
        # strictness: a level >= 1 never has two files with the same single key unless they share a boundary;
        # last_i <= first_{i+1} holds by sortedness of pts
        sts = rng.range(0, 40)
        bts = sts + (0 if (f == l and rng.chance(1, 2)) else rng.range(0, 30))
        files.append([nid[0], f, l, sts, bts, size(rng, big)])
        nid[0] += 1
    return files


def gen_l0(rng, nfiles, dense, big, nid):
    files = []
    tss = list(range(50, 50 + 3 * nfiles + 5))
    for i in range(nfiles):
        if dense and rng.chance(2, 3):
            a, b = rng.range(0, 3), rng.range(len(KEYS) - 4, len(KEYS) - 1)
        else:
            a, b = rng.below(len(KEYS)), rng.below(len(KEYS))
            a, b = min(a, b), max(a, b)
        j = rng.below(len(tss))
        bts = tss.pop(j)          # distinct biggest timestamps (sequence numbers)
        sts = bts if a == b and rng.chance(1, 2) else rng.range(max(0, bts - 5), bts)
        files.append([nid[0], KEYS[a], KEYS[b], sts, bts, size(rng, big)])
        nid[0] += 1
    return files


def gen_options(rng, n0, ntotal):
    """options around the quantities they are compared with"""
    k = rng.below(100)
    if k < 25:
        o = list(DEFAULTS)
    else:
        near_files = [0, 1, 2, 3, max(0, n0 - 1), n0, n0 + 1, n0 + 2, ntotal - 1 if ntotal else 0, ntotal, ntotal + 1, 64, 1 << 19, U64, (1 << 63), (1 << 63) - 1]
        near_bytes = [0, 1, 100, 5000, 20000, 1 << 20, 1 << 26, 1 << 28, 1 << 29, 1 << 40, (1 << 63) - 1, 1 << 63, U64]
        o = [rng.choice(near_files) if rng.chance(2, 3) else DEFAULTS[0],
             rng.choice(near_bytes) if rng.chance(1, 2) else DEFAULTS[1],
             rng.choice(near_files) if rng.chance(2, 3) else DEFAULTS[2],
             rng.choice(near_files[:8]) if rng.chance(2, 3) else DEFAULTS[3],
             rng.choice(near_bytes) if rng.chance(1, 2) else DEFAULTS[4],
             rng.choice(near_files[:8]) if rng.chance(2, 3) else DEFAULTS[5],
             rng.choice(near_bytes) if rng.chance(1, 2) else DEFAULTS[6]]
    return o


def gen_ongoing(rng, levels, nlev):
    og = []
    n = rng.choice([0, 0, 0, 1, 1, 2, 3])
    for _ in range(n):
        lo = rng.below(nlev)
        up = min(nlev - 1, lo + rng.choice([0, 1, 1, 1, 2, 5]))
        a, b = rng.below(len(KEYS)), rng.below(len(KEYS))
        if rng.chance(1, 8):
            a, b = max(a, b), min(a, b)      # inverted key range: conflicts with nothing on the key test
        else:
            a, b = min(a, b), max(a, b)
        ids = [900000 + rng.below(1000) for _ in range(rng.choice([0, 1, 2, 5, 60]))]
        og.append([lo, up, KEYS[a], KEYS[b], rng.range(0, 10000), ids])
    return og


def gen_tree(rng, stats):
    """-> (opts list, ongoing list, levels list)"""
    profile = rng.below(100)
    nlev = 16 if rng.chance(5, 6) else rng.choice([2, 3, 5, 9])
    big = rng.chance(1, 6)
    nid = [1]
    levels = []
    if profile < 30:
        kind = "sparse"
        n0 = rng.choice([0, 1, 1, 2, 3, 4, 5])
        levels.append(gen_l0(rng, n0, False, big, nid))
        for l in range(1, nlev):
            levels.append(gen_level(rng, rng.choice([0, 0, 0, 1, 1, 2, 3]) if l > 3 else rng.choice([0, 1, 2, 3, 5]), False, big, nid))
    elif profile < 75:
        kind = "dense"       # every level covers the key space: no trivial moves, scored candidates decide
        n0 = rng.choice([0, 1, 2, 3, 4, 4, 5, 8, 12])
        levels.append(gen_l0(rng, n0, True, big, nid))
        depth = rng.choice([nlev, nlev, max(1, nlev - 1), max(1, nlev // 2)])
        for l in range(1, nlev):
            if l < depth:
                levels.append(gen_level(rng, rng.choice([1, 1, 2, 3, 4, 6]), True, big, nid))
            else:
                levels.append([])
    else:
        kind = "l0heavy"
        n0 = rng.choice([4, 6, 12, 13, 20])
        levels.append(gen_l0(rng, n0, rng.chance(1, 2), big, nid))
        for l in range(1, nlev):
            levels.append(gen_level(rng, rng.choice([0, 1, 2, 7]) if l < 3 else rng.choice([0, 0, 1]), rng.chance(1, 2), big, nid))
    ntotal = sum(len(lv) for lv in levels)
    opts = gen_options(rng, len(levels[0]), ntotal)
    og = gen_ongoing(rng, levels, nlev) if rng.chance(1, 3) else []
    stats["profile_" + kind] = stats.get("profile_" + kind, 0) + 1
    stats["with_ongoing"] = stats.get("with_ongoing", 0) + (1 if og else 0)
    stats["big_sizes"] = stats.get("big_sizes", 0) + (1 if big else 0)
    stats["levels_%d" % nlev] = stats.get("levels_%d" % nlev, 0) + 1
    stats["default_options"] = stats.get("default_options", 0) + (1 if opts == DEFAULTS else 0)
    return opts, og, levels


def tree_line(opts, og, levels):
    o = ",".join(str(x) for x in opts)
    g = ";".join("%d:%d:%s:%s:%d:%s" % (c[0], c[1], hx(c[2]), hx(c[3]), c[4], ",".join(str(i) for i in c[5]) if c[5] else "-") for c in og) if og else "-"
    lv = "/".join(";".join("%d:%s:%s:%d:%d:%d" % (f[0], hx(f[1]), hx(f[2]), f[3], f[4], f[5]) for f in level) for level in levels)
    return "%s | %s | %s" % (o, g, lv)
