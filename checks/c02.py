"""C02 — acknowledged writes survive any crash; recovery is all-or-nothing per batch.

Decided by: theorems of coq/theories/Crash/Props_C02.v (a transition system over an executable
model of every file-system mutating call the store issues — open/recovery, write, flush,
compaction — with a crash before every call under every cut of the unsynced data, any number of
times), tied to the code by running real single-stepped histories under `strace -f`:
the recorded calls of every operation are compared with the calls the extracted model predicts;
from the same record a crash image is materialised before each (sampled / every) call under crash
model (a) (process death) and (b) (every byte after a file's last fsync/fdatasync lost), reopened by
a fresh process of the real store and read back; the result is compared with the model's
prediction for that crash point and, directly, with the acknowledgement record (the direct
oracle: acknowledged writes, plus the in-flight batch wholly or not at all, nothing else).  Real
SIGKILLs (`strace -e inject=..:signal=SIGKILL`) validate the images; `inject=..:error=EIO|ENOSPC`
checks that an I/O error is returned, and that what was acknowledged around it survives."""
import hashlib
import json
import multiprocessing
import os
import select
import shutil
import subprocess
import time

import c02_fs as F
import vlib
import c02_fault

META = {
    "category": "proof",
    "text": "Coq theorems (Crash/Props_C02.v, closed under the global context): over an executable model of every file-system mutating call of KeyValueStore::open (log replay, idempotent link and manifest add, log to trash, orphan clean-up), write (log write then fdatasync before the acknowledgement), memtable flush and compaction (merging or garbage-collecting), a transition system with a crash before ANY call of ANY of them (recovery included), under ANY cut in which each file keeps a prefix of its write() calls covering the synced ones (process death and 'everything after the last fsync is lost' are both instances), any number of times, and in which a history goes on after an operation returned an I/O error that left every file recovery reads unchanged or was refused outright: reopening always succeeds and what it yields is explained by every acknowledged batch plus some of the batches in flight at a crash, each wholly or not at all, in order - every key reads as the last of those writes to it and no entry was not written; an injected I/O error at any call is returned unless the call is one of the two best-effort renames to trash/, and every state a failing operation passes through recovers. Tied to lsmtk by strace-recorded real histories: call sequences compared with the model's (through injected errors too: the faulted session is fully traced and the model takes the error in lock step), every step evaluated against the theorems' acceptance condition, crash images for both crash models (and cuts between them, and manifest cuts at line boundaries) reopened by the real store and compared with the model's prediction and with the acknowledgement record, real SIGKILL and EIO/ENOSPC injection. Stage open-fault: EIO injected at every system call of KeyValueStore::open (read side included) - the open fails or reads exactly the acknowledged state, and an undisturbed reopen afterwards does.",
    "note": "Trusted: Coq kernel; extraction (ExtrOcamlBasic) + ocaml/crash driver; harness c02 + lsmtk hooks (cfg blue_verif single-step); strace; checks/c02_fs.py (trace parser, inode-level replay into images). Modelled, not verified: the OS (completed calls atomic and ordered; create/link/unlink/rename/mkdir durable on return; data durable up to the last successful fsync/fdatasync); write() calls are the unit of loss (a crash inside a call / torn sectors are C09's subject); the byte formats (C10/C12/C13); the manifest as one append-only file of edits (rollover, backups, LOCKFILE are C13's and only exercised by the real images); setsum collisions excluded (an SST's name is its content); single-stepped execution (a compaction concurrent with the window between a flush's manifest edit and its log rename is not covered); that a garbage collection leaves every key's reading unchanged is C05's theorem (here it is evaluated on every step, `acceptedb`); after an I/O error that changed a file recovery reads (a failed fdatasync of the log or the manifest, a flush past its rollover, a compaction past its first link) the running store is judged against the specification only; tree re-levelling after reopen is C01's (K2).",
}

PROPS = "theories/Crash/Props_C02.v"
MODULE = "Crash.Props_C02"

UNIVERSE = [b"a", b"a\x00", b"ab", b"abc", b"b", b"ba", b"k1", b"k2", b"k3", b"k4", b"\xff", b""]

OPTION_SETS = [
    ("small-files", ["--sst-target-file-size", "300", "--sst-minimum-file-size", "120", "--sst-target-block-size", "96"]),
    ("tiny-files", ["--sst-target-file-size", "150", "--sst-minimum-file-size", "60", "--sst-target-block-size", "64", "--max-compaction-files", "4"]),
    ("rollover-often", ["--sst-target-file-size", "400", "--sst-minimum-file-size", "200", "--sst-target-block-size", "128", "--mani-log-rollover-ratio", "1"]),
    ("defaults", []),
    # the log's BufWriter must hold a whole frame for an append to be ONE write(): 4096 is far above the
    # frames of these histories (the default is 2 MiB against frames of at most 1 MiB)
    ("small-log-buffer", ["--sst-target-file-size", "300", "--sst-minimum-file-size", "120", "--sst-target-block-size", "96", "--log-write-buffer", "4096"]),
]
BASE_OPTS = ["--memtable-size-bytes", "100000000", "--l0-write-stall-threshold-files", "100000",
             "--l0-write-stall-threshold-bytes", "100000000000"]


def hx(b):
    return b.hex() if b else "-"


def unhx(s):
    return b"" if s == "-" else bytes.fromhex(s)


def mv(v):
    """what the model is told about a value: values are opaque to it, so a long one is replaced by a
    16-byte digest (the extracted model keeps every byte as an inductive number)"""
    if v is None or len(v) <= 64:
        return v
    return b"#" + hashlib.sha1(v).digest()[:15]


def ent_str(e):
    return "%s.%d.%s" % (hx(e[0]), e[1], "~" if e[2] is None else hx(mv(e[2])))


def parse_ents(s):
    out = []
    for t in s.split(","):
        if not t:
            continue
        k, ts, v = t.split(".")
        out.append((unhx(k), int(ts), None if v == "~" else unhx(v)))
    return out


def visible(ents):
    """entries -> key -> value|None of the newest version"""
    best = {}
    for k, ts, v in ents:
        if k not in best or ts > best[k][0]:
            best[k] = (ts, v)
    return {k: tv[1] for k, tv in best.items() if tv[1] is not None}


# ---------------------------------------------------------------- the model co-process
class ModelTimeout(Exception):
    """the extracted model did not answer a request within its wall-clock limit"""


class Model:
    """the extracted model as a co-process.  EVERY request has a wall-clock deadline: on expiry the
    driver is killed and restarted (its state is lost) and ModelTimeout is raised - the history ends
    there with a correspondence problem and a last look at the real directory (History.run)"""
    HEAVY = ("GO", "GOF", "Q", "QQ", "FQ", "LOAD", "PEND", "ACC", "FCALLS")
    LIFE = 6 * 3600      # no driver outlives this, whatever happens to its parent

    def __init__(self, exe):
        self.exe = exe
        self.start()

    def start(self):
        self.p = subprocess.Popen(["timeout", "-k", "2", str(self.LIFE), self.exe], stdin=subprocess.PIPE, stdout=subprocess.PIPE, stderr=subprocess.DEVNULL,
                                  start_new_session=True)
        self.buf = b""

    def cmd(self, line, limit=None):
        if limit is None:
            limit = 45.0 if line.split(" ", 1)[0] in self.HEAVY else 15.0
        end = time.monotonic() + limit
        try:
            self.p.stdin.write((line + "\n").encode())
            self.p.stdin.flush()
        except (BrokenPipeError, OSError):
            raise RuntimeError("model driver died before %r" % line[:200])
        fd = self.p.stdout.fileno()
        while b"\n" not in self.buf:
            left = end - time.monotonic()
            ready = select.select([fd], [], [], max(0.0, left))[0] if left > 0 else []
            if not ready:
                self.kill()
                self.start()
                raise ModelTimeout(line[:300])
            chunk = os.read(fd, 1 << 20)
            if not chunk:
                raise RuntimeError("model driver died on %r" % line[:200])
            self.buf += chunk
        out, _, self.buf = self.buf.partition(b"\n")
        return out.decode()

    def kill(self):
        try:
            os.killpg(self.p.pid, 9)       # `timeout` and the driver under it
        except Exception:
            pass
        try:
            self.p.kill()
            self.p.wait(timeout=5)
        except Exception:
            pass

    def close(self):
        try:
            self.p.stdin.close()
            self.p.wait(timeout=10)
        except Exception:
            self.kill()


# ---------------------------------------------------------------- one real session
def run_session(exe, cwd, opts, script, trace=None, inject=None, timeout=120, inject_all=None):
    """run `c02 db opts` in cwd with the script on stdin (optionally under strace).
    inject = (ev, what): `what` (signal=SIGKILL | error=EIO..) at exactly the call ev of a previous
    recording of the same script from the same directory.  -> list of '@@ ..' lines"""
    cmd = [exe, "db"] + BASE_OPTS + opts
    if trace is not None or inject is not None:
        st = ["strace", "-f", "-y", "-xx", "-s", "8000000", "-o", trace or "/dev/null", "-e", "trace=" + F.TRACE_SET]
        if inject_all:
            # no -P: the whole run is traced; `when` counts the calls of this syscall per thread
            st += ["-e", "inject=%s:%s:when=%d" % inject_all]
        if inject:
            ev, what = inject
            rel = os.path.join("db", ev.p1) if ev.p1 else "db"
            st += ["-P", rel, "-P", os.path.join(cwd, rel), "-e", "inject=%s:%s:when=%d" % (ev.sys, what, ev.pk)]
        cmd = st + cmd
    try:
        p = subprocess.run(cmd, cwd=cwd, input=("\n".join(script) + "\n").encode(), stdout=subprocess.PIPE,
                           stderr=subprocess.DEVNULL, timeout=timeout)
        out = p.stdout.decode("utf-8", "replace")
    except subprocess.TimeoutExpired as ex:
        out = (ex.stdout or b"").decode("utf-8", "replace") + "\n@@ HANG\n"
    return [ln for ln in out.split("\n") if ln.startswith("@@ ")]


class SessionOut:
    """parsed '@@' lines"""

    def __init__(self, lines):
        self.open = None
        self.res = {}        # n -> result string of 'A n'
        self.info = {}       # n -> list of 'I n' lines
        self.started = {}    # n -> op word
        self.hang = False
        for ln in lines:
            t = ln.split(" ", 3)
            if t[1] == "O":
                self.open = ln[5:]
            elif t[1] == "S":
                self.started[int(t[2])] = t[3] if len(t) > 3 else ""
            elif t[1] == "I":
                self.info.setdefault(int(t[2]), []).append(t[3] if len(t) > 3 else "")
            elif t[1] == "A":
                self.res[int(t[2])] = t[3] if len(t) > 3 else ""
            elif t[1] == "HANG":
                self.hang = True


def parse_dump(info_lines, res_line, cache):
    """FILE.. lines + DUMP line -> (levels: list of (lvl, name), seq)"""
    for ln in info_lines:
        if ln.startswith("FILE "):
            t = ln.split(" ")
            ents, bad = [], None
            for e in t[2:]:
                if e == "ERR" or e.startswith("OPENERR"):
                    bad = e
                    continue
                k, ts, v = e.split(":")
                ents.append((unhx(k), int(ts), None if v == "~" else unhx(v)))
            cache[t[1]] = (ents, bad)
    files, seq = [], None
    if res_line.startswith("DUMP"):
        body, _, tail = res_line.partition(" | ")
        for it in body.split(" ")[1:]:
            lvl, name = it.split(":")
            files.append((int(lvl), name))
        for kv in tail.split():
            if kv.startswith("seq="):
                seq = int(kv[4:])
    return files, seq


PROBE_SCRIPT = ["getall " + ",".join(hx(k) for k in UNIVERSE), "scanall", "dump", "ls"]


def probe(exe, cwd, opts, trace=None):
    """reopen the directory cwd/db with a fresh process and read everything back"""
    so = SessionOut(run_session(exe, cwd, opts, PROBE_SCRIPT, trace=trace, timeout=60))
    r = {"open": so.open or ("HANG" if so.hang else "NOOUT"), "get": None, "scan": None, "ents": None, "files": None, "bad": [], "ls": so.res.get(4)}
    if so.open != "ok":
        return r
    g = so.res.get(1, "")
    if g.startswith("GET"):
        r["get"] = g.split(" ")[1:]
    s = so.res.get(2, "")
    if s.startswith("SCAN"):
        r["scan"] = s.split(" ")[1:]
    cache = {}
    files, seq = parse_dump(so.info.get(3, []), so.res.get(3, ""), cache)
    r["files"] = [n for _, n in files]
    r["lvls"] = files
    r["seq"] = seq
    ents = []
    for _, n in files:
        e, bad = cache.get(n, ([], "MISSING"))
        if bad:
            r["bad"].append((n, bad))
        ents += e
    r["ents"] = ents
    r["cache"] = cache
    return r


# ---------------------------------------------------------------- histories
def gen_history(rng, n_ops):
    ops = []
    hot = [rng.choice(UNIVERSE) for _ in range(3)]
    since_flush = 0
    for _ in range(n_ops):
        r = rng.below(100)
        if r < 46:
            k = rng.choice(hot) if rng.chance(1, 2) else rng.choice(UNIVERSE)
            v = None if rng.chance(1, 4) else rng.bytes(rng.choice([0, 1, 3, 8, 24, 70]))
            ops.append(("w", [(k, v)]))
            since_flush += 1
        elif r < 58:
            n = rng.range(2, 5)
            ops.append(("w", [(rng.choice(UNIVERSE), None if rng.chance(1, 4) else rng.bytes(rng.choice([0, 2, 10, 40]))) for _ in range(n)]))
            since_flush += 1
        elif r < 76:
            if since_flush:
                ops.append(("flush",))
                since_flush = 0
        elif r < 92:
            ops.append(("compact", rng.choice([1, 2, 3, 6, 12, 30, 60, 120])))
        else:
            ops.append(("reopen",))
            since_flush = 0
    return ops


def vlen(n):
    """length of a protobuf varint"""
    k = 1
    while n >= 128:
        n >>= 7
        k += 1
    return k


def frame_len(batch, ts=50):
    """bytes one write batch adds to the log when it is written as a WHOLE frame (sst/src/log.rs:
    one size byte, the Header message {size, discriminant, crc32c}, the KeyValueEntry messages)"""
    body = 0
    for k, v in batch:
        inner = 2 + 1 + vlen(len(k)) + len(k) + 1 + vlen(ts)
        if v is not None:
            inner += 1 + vlen(len(v)) + len(v)
        body += 1 + vlen(inner) + inner
    return 1 + (1 + vlen(body) + 2 + 5) + body


BLOCK = 1 << 20


def gen_biglog(rng, r, blocks=1):
    """a history whose live log grows past `blocks` MiB with a frame ending exactly r bytes before
    that block boundary (r = 1: the writer pads ONE zero byte before the next frame; 2..19: longer
    padding; 20..: the next batch is split FIRST/SECOND; 0: the frame ends on the boundary), more
    batches behind it, then exit + reopen with the memtable never flushed: recovery has to replay a
    log that crosses the boundary.  ('wx', batch, end) = a write after which the log must be `end`
    bytes long, so that a change of the framing arithmetic is noticed instead of silently missed."""
    ops, bw = [], 0
    keys = [k for k in UNIVERSE if k]
    # every earlier boundary is met exactly (a frame that straddles one would be split and padded)
    for target in [b * BLOCK for b in range(1, blocks)] + [blocks * BLOCK - r]:
        while target - bw > 30000:
            want = (target - bw) - rng.range(5000, 25000)
            n = min(10, (want + 32499) // 32500)
            vl = min(32768, max(0, want // n - 40))
            batch = [(keys[i], rng.bytes(vl)) for i in range(n)]
            bw += frame_len(batch)
            ops.append(("wx", batch, bw))
        fit = None
        for k in keys:
            for L in range(0, 32769):
                fl = frame_len([(k, b"\0" * L)])
                if bw + fl == target:
                    fit = (k, L)
                if bw + fl >= target:
                    break
            if fit:
                break
        if fit is None:
            return None
        bw = target
        ops.append(("wx", [(fit[0], rng.bytes(fit[1]))], target))
    for _ in range(rng.range(1, 3)):
        ops.append(("w", [(rng.choice(keys), rng.bytes(rng.choice([1, 40, 3000])))]))
    ops.append(("reopen",))
    ops.append(("w", [(rng.choice(keys), rng.bytes(5))]))
    ops.append(("flush",))
    ops.append(("reopen",))
    return ops


def dedupe(batch):
    last = {}
    for i, (k, v) in enumerate(batch):
        last[k] = i
    return [kv for i, kv in enumerate(batch) if last[kv[0]] == i]


def split_sessions(ops):
    """-> list of sessions; each a list of (kind, arg) script items"""
    sessions, cur = [], []
    for op in ops:
        if op[0] == "reopen":
            sessions.append(cur)
            cur = []
        else:
            cur.append(op)
    sessions.append(cur)
    return sessions


def session_script(sess):
    """-> (script lines, items): items[i] = (kind, payload) for script line i+1 (1-based op numbers)"""
    lines, items = ["dump"], [("dump", None)]
    for op in sess:
        if op[0] in ("w", "wx"):
            b = op[1]
            if len(b) == 1:
                k, v = b[0]
                lines.append(("put %s %s" % (hx(k), hx(v))) if v is not None else ("del %s" % hx(k)))
            else:
                lines.append("batch " + ",".join("%s=%s" % (hx(k), "~" if v is None else hx(v)) for k, v in b))
            items.append(("w", dedupe(b)) if op[0] == "w" else ("w", WX(dedupe(b), op[2])))
        elif op[0] == "flush":
            lines += ["flush", "dump"]
            items += [("flush", None), ("dump", None)]
        elif op[0] == "compact":
            for _ in range(op[1]):
                lines += ["compact", "dump"]
                items += [("compact", None), ("dump", None)]
    lines += ["getall " + ",".join(hx(k) for k in UNIVERSE), "dump"]
    items += [("getall", None), ("dump", None)]
    return lines, items


class StopLockstep(Exception):
    """the model does not continue past this point of a faulted session; resume = the operation from
    which the rest of the session is judged against the specification alone (None: abandon the run)"""

    def __init__(self, resume=None):
        Exception.__init__(self)
        self.resume = resume


class WX(list):
    """a write batch that carries the length the log must have afterwards"""

    def __new__(cls, batch, end):
        return super().__new__(cls, batch)

    def __init__(self, batch, end):
        super().__init__(batch)
        self.end = end


class Problem(Exception):
    pass


class History:
    """One history: recorded on the real store session by session, replayed on the model in lock
    step, probed at crash points."""

    def __init__(self, exe, mx, optname, opts, ops, tag, tier, rng, forced_faults=None):
        self.exe, self.mx, self.optname, self.opts, self.ops, self.tag, self.tier, self.rng = exe, mx, optname, opts, ops, tag, tier, rng
        self.forced_faults = forced_faults or []
        base = "/dev/shm" if os.path.isdir("/dev/shm") else os.path.join(vlib.WORK, "C02")
        self.dir = os.path.join(base, "blue_c02_%s_%d" % (tag, os.getpid()))
        shutil.rmtree(self.dir, ignore_errors=True)
        os.makedirs(self.dir)
        self.problems = []      # dicts: kind in prop|corr
        self.known = []
        self.stats = {"sessions": 0, "ops": 0, "writes": 0, "flushes": 0, "compactions": 0, "moves": 0, "gc": 0, "events": 0, "dropped_events": 0,
                      "probes": 0, "probes_a": 0, "probes_b": 0, "probes_r": 0, "probes_l": 0, "nested": 0, "kills": 0, "faults": 0, "faults_surfaced": 0, "faults_dropped_ok": 0,
                      "inflight_in": 0, "inflight_out": 0, "trace_calls_compared": 0, "probe_points": {},
                      "steps_accepted_evaluated": 0, "accepted_rejections": 0, "gc_steps_accepted": 0}
        self.bind = {}          # real setsum hex -> model sst id
        self.rbind = {}
        self.dbind = {}         # real compaction dir hex -> model dir id
        self.cache = {}         # real name -> (ents, bad)
        self.acked = []         # list of batches (list of (k, v)) acknowledged, in order
        self.model = Model(mx)
        self.model.cmd("RESET")
        self.fs = F.PyFS()
        self.tree = []          # real live file names (from the last dump)

    # ------------------------------------------------------------ helpers
    def problem(self, kind, what, **kw):
        d = {"kind": kind, "what": what}
        d.update(kw)
        self.problems.append(d)

    def tree_ill_formed(self):
        """does a level >= 1 of the last dumped tree hold two files whose key ranges overlap?"""
        by = {}
        for lvl, nm in getattr(self, "tree_levels", []):
            e = self.cache.get(nm, ([], None))[0]
            if lvl >= 1 and e:
                by.setdefault(lvl, []).append((min(x[0] for x in e), max(x[0] for x in e)))
        for rs in by.values():
            rs.sort()
            for a, b in zip(rs, rs[1:]):
                if b[0] < a[1] or (b[0] == a[1] and (a[0] != a[1] or b[0] != b[1]) and False):
                    return True
        return False

    def outside(self, what, si, n):
        """a write or flush failed although nothing was injected"""
        if getattr(self, "k2_poisoned", False) and "PANIC" in what:
            # the selector's assertion left the tree's mutex poisoned: everything that locks it afterwards panics
            self.known.append(("K2", "an operation panics after the selector tripped over a mis-recovered tree"))
            return
        self.problem("prop", what, replay={"options": self.optname, "history": ops_to_json(self.ops), "session": si, "op": n})

    def spec_map(self, batches):
        m = {}
        for b in batches:
            for k, v in b:
                if v is None:
                    m.pop(k, None)
                else:
                    m[k] = v
        return m

    def unify(self, real, model):
        """real canonical name vs model name (ids interned by the driver)"""
        rk, _, rv = real.partition(":")
        mk, _, mv = model.partition(":")
        if rk != mk:
            return False
        if rk in ("sst", "tmp", "trashsst"):
            return self.bind_one(self.bind, self.rbind, rv, mv)
        if rk == "compdir":
            return self.bind_one(self.dbind, None, rv, mv)
        if rk == "comp":
            rd, ri = rv.split(":")
            md, mi = mv.split(":")
            return ri == mi and self.bind_one(self.dbind, None, rd, md)
        return rv == mv

    def bind_one(self, tbl, rtbl, r, m):
        if r in tbl:
            return tbl[r] == m
        if rtbl is not None and m in rtbl:
            return False
        tbl[r] = m
        if rtbl is not None:
            rtbl[m] = r
        return True

    def canon_events(self, evs):
        """events of one operation -> (kept canonical calls [(call, failed)], prefix index of each event)
        prefix[r] = number of model calls before real event r (collapsing the writes of one SST)"""
        kept, prefix = [], []
        last_write = None
        for ev in evs:
            prefix.append(len(kept))
            c = F.canon_call(ev)
            if c is None:
                self.stats["dropped_events"] += 1
                continue
            if c[0] in ("write", "shortwrite") and last_write == c[1] and c[1].split(":")[0] in ("tmp", "tmplog", "comp"):
                continue
            last_write = c[1] if c[0] in ("write", "shortwrite") else None
            kept.append((c, ev.failed))
        prefix.append(len(kept))
        return kept, prefix

    def compare_trace(self, kept, model_calls, where):
        """model_calls: list of 'M:kind name [name2]'"""
        mc = [c.split(":", 1) for c in model_calls]
        real = [(" ".join(c[0][:1]), c[0][1:], c[1]) for c in kept]
        i = j = 0
        ok = True
        while i < len(real) and j < len(mc):
            rkind, rnames, rfailed = real[i]
            mode, mcall = mc[j]
            mt = mcall.split(" ")
            # a run of renames into trash/ is compared as a set (the Rust iterates a hash set)
            if rkind == "rename" and rnames[0].startswith("sst:") and mt[0] == "rename" and mt[1].startswith("sst:"):
                ri, mj = i, j
                rs, ms = [], []
                while ri < len(real) and real[ri][0] == "rename" and real[ri][1][0].startswith("sst:"):
                    rs.append(real[ri][1][0].split(":")[1])
                    ri += 1
                while mj < len(mc) and mc[mj][1].startswith("rename sst:"):
                    ms.append(mc[mj][1].split(" ")[1].split(":")[1])
                    mj += 1
                if sorted(self.bind.get(x, "?" + x) for x in rs) != sorted(ms):
                    self.dbg = {"real_bound": [self.bind.get(x, "?" + x) for x in rs], "model": ms,
                                "real_ents": [[ent_str(e) for e in self.cache.get(x, ([], 0))[0]][:6] for x in rs],
                                "model_ents": [self.model.cmd("ENT " + x)[:300] for x in ms]}
                    ok = False
                    break
                i, j = ri, mj
                continue
            # remove_dir_all of a left-over compaction directory unlinks in readdir order: compare as a set
            if rkind == "unlink" and rnames[0].startswith("comp:") and mt[0] == "unlink" and mt[1].startswith("comp:"):
                ri, mj = i, j
                rs, ms = [], []
                while ri < len(real) and real[ri][0] == "unlink" and real[ri][1][0].startswith("comp:"):
                    rs.append(real[ri][1][0])
                    ri += 1
                while mj < len(mc) and mc[mj][1].startswith("unlink comp:"):
                    ms.append(mc[mj][1].split(" ")[1])
                    mj += 1
                rs.sort(key=lambda x: int(x.split(":")[2]))
                ms.sort(key=lambda x: int(x.split(":")[2]))
                if len(rs) != len(ms) or not all(self.unify(a, b) for a, b in zip(rs, ms)):
                    ok = False
                    break
                i, j = ri, mj
                continue
            if rkind != mt[0] or len(rnames) != len(mt) - 1 or not all(self.unify(a, b) for a, b in zip(rnames, mt[1:])):
                ok = False
                break
            i += 1
            j += 1
        if ok and (i != len(real) or j != len(mc)):
            ok = False
        self.stats["trace_calls_compared"] += len(real)
        if not ok:
            self.problem("corr", "system-call sequence differs from the model's at call %d of %s" % (i, where),
                         real=[" ".join([c[0]] + list(c[1])) + (" FAILED" if c[2] else "") for c in real][max(0, i - 4):i + 8],
                         model=model_calls[max(0, j - 4):j + 8], real_len=len(real), model_len=len(mc), dbg=getattr(self, "dbg", None))
        return ok

    # ------------------------------------------------------------ probes
    def image_dir(self, fsimg, sub):
        d = os.path.join(self.dir, sub)
        shutil.rmtree(d, ignore_errors=True)
        os.makedirs(d)
        fsimg.materialise(os.path.join(d, "db"))
        return d

    def check_probe(self, pr, mq, where, acked, inflight, replay):
        """pr: real probe result; mq: model answer 'OPEN ok=.. err=.. ents=..' (or None)"""
        self.stats["probes"] += 1
        spec_a = self.spec_map(acked)
        spec_p = self.spec_map(acked + [inflight]) if inflight is not None else None
        if pr["open"] != "ok":
            self.problem("prop", "reopen after a crash %s failed: %s" % (where, pr["open"]), replay=replay)
            return
        if pr["bad"]:
            self.problem("prop", "reopen after a crash %s: a live sst is unreadable %s" % (where, pr["bad"][:2]), replay=replay)
            return
        vis = visible(pr["ents"])
        if vis == spec_a:
            if inflight is not None and spec_p != spec_a:
                self.stats["inflight_out"] += 1
        elif spec_p is not None and vis == spec_p:
            self.stats["inflight_in"] += 1
        else:
            self.problem("prop", "after a crash %s the store does not hold acknowledged (+ whole in-flight) writes" % where,
                         got={hx(k): hx(v) for k, v in vis.items()}, acked={hx(k): hx(v) for k, v in spec_a.items()},
                         with_inflight=None if spec_p is None else {hx(k): hx(v) for k, v in spec_p.items()}, replay=replay)
            return
        # point reads and the scan must show the same contents (tree re-levelling: C01 / K2)
        want = ["." if vis.get(k) is None else hx(vis[k]) for k in UNIVERSE]
        got = ["." if g == "~" else g for g in (pr["get"] or [])]
        if got != want:
            bad = [k for k, g, w in zip(UNIVERSE, got, want) if g != w]
            if len(got) == len(want) and self.k2_pair(pr, bad):
                self.known.append(("K2", "after reopen, point reads differ from the newest recovered entries; two live files both hold the key and overlap in timestamp range"))
            else:
                self.problem("prop", "after a crash %s point reads differ from the recovered entries" % where, got=got, want=want, replay=replay)
        elif pr["scan"] is not None:
            sc = {}
            for it in pr["scan"]:
                k, _, v = it.partition("=")
                sc[unhx(k)] = None if v == "~" else unhx(v)
            scl = {k: v for k, v in sc.items() if v is not None}
            if scl != vis:
                bad = [k for k in set(scl) | set(vis) if scl.get(k) != vis.get(k)]
                if self.k2_pair(pr, bad, scan=True):
                    self.known.append(("K2", "after reopen, the range scan differs from the newest recovered entries; two live files both hold the key and overlap in timestamp range"))
                else:
                    self.problem("prop", "after a crash %s the range scan differs from the recovered entries" % where,
                                 got=sorted(hx(k) for k in sc), want=sorted(hx(k) for k in vis), replay=replay)
        if mq is not None:
            t = dict(kv.split("=", 1) for kv in mq.split(" ")[1:] if "=" in kv)
            ments = parse_ents(t.get("ents", ""))
            if t.get("ok") != "1" or t.get("err") != "0":
                self.problem("corr", "model predicts a failing reopen %s: %s" % (where, mq[:80]))
            elif sorted(ent_str(e) for e in ments) != sorted(ent_str(e) for e in pr["ents"]):
                # as multisets: an entry held by two live files counts twice on both sides
                self.problem("corr", "recovered entries differ from the model's prediction %s" % where,
                             real=sorted(ent_str(e) for e in pr["ents"])[:30], model=sorted(ent_str(e) for e in ments)[:30])
            elif pr.get("seq") is not None and t.get("seq") is not None and int(t["seq"]) != pr["seq"]:
                self.problem("corr", "sequence number after the reopen differs from the model's %s" % where, real=pr["seq"], model=t["seq"])
            else:
                self.stats["probe_seq_compared"] = self.stats.get("probe_seq_compared", 0) + 1

    def k2_pair(self, pr, keys, scan=False):
        """K2's two shapes for these keys (recover.rs re-levels from key and timestamp ranges alone):
        (i) two live files that BOTH hold one of the keys and whose timestamp ranges overlap - it cannot
        order them, a read meets the versions in the wrong order;
        (ii) the newest recovered version of one of the keys sits in a level >= 1 that recovery built
        ill-formed (two of its files overlap in key range): the search inside that level is undefined
        and misses the key (C01's class: known: property=C01 K2, 'levels that are not well-formed');
        for a range scan (scan=True) ANY version of the key in such a level counts: the level's cursor is
        no longer sorted and the merge emits that version out of order"""
        names = pr["files"] or []
        ents = {n: pr["cache"].get(n, ([], None))[0] for n in names}
        for key in keys:
            hold = []
            for n in names:
                e = ents[n]
                if any(x[0] == key for x in e):
                    hold.append((min(x[1] for x in e), max(x[1] for x in e)))
            for i in range(len(hold)):
                for j in range(i + 1, len(hold)):
                    a, b = hold[i], hold[j]
                    if not (a[1] < b[0] or b[1] < a[0]):
                        return True
        by_level = {}
        for lvl, n in pr.get("lvls") or []:
            if lvl >= 1 and ents.get(n):
                ks = [x[0] for x in ents[n]]
                by_level.setdefault(lvl, []).append((min(ks), max(ks), n))
        ill = set()
        for lvl, fs in by_level.items():
            if any(a[0] <= b[1] and b[0] <= a[1] for i, a in enumerate(fs) for b in fs[i + 1:]):
                ill.add(lvl)
        if ill:
            level_of = {n: lvl for lvl, n in pr.get("lvls") or []}
            for key in keys:
                best = None
                for n in names:
                    for x in ents[n]:
                        if x[0] == key:
                            if scan and level_of.get(n) in ill:
                                return True
                            if best is None or x[1] > best[0]:
                                best = (x[1], n)
                if best is not None and level_of.get(best[1]) in ill:
                    return True
        return False

    def want_probe(self, n_points, opdesc=""):
        """thorough: every crash point of histories of moderate length; otherwise a budget of points
        per history, spread evenly; the (rare) compactions are always probed densely"""
        if not getattr(self, "probing", True):
            return False
        if getattr(self, "fault_mode", False):
            # a faulted session: the crash points before the error were probed in the main pass
            return getattr(self, "in_continuation", False) and self.rng.chance(1, 3)
        if opdesc.startswith("compact"):
            return self.tier != "quick" or self.rng.chance(1, 2)
        budget = 45 if self.tier == "quick" else 400
        if any(op[0] == "wx" for op in self.ops):
            budget = 10 if self.tier == "quick" else 40       # every image is > 1 MiB
        est = 4 * max(1, len(self.ops))
        if self.tier != "quick" and est <= budget:
            return True
        return self.rng.below(est) < budget

    def probe_points(self, evs, prefix, where, acked, inflight, opdesc, sess_idx, kill_ctx):
        """walk the events of one operation, applying them to the replayed file system; before each
        (sampled) event materialise both crash images, reopen them, compare"""
        for r, ev in enumerate(evs):
            if ev.kind is not None and self.want_probe(len(evs), opdesc):
                modes = ("a", "b", "r") if self.rng.chance(1, 4) else ("a", "b")
                if self.fs.manifest_unsynced():
                    modes += ("l",)     # a manifest edit on disk up to a line boundary inside it
                for mode in modes:
                    img = self.fs.image(mode, self.rng)
                    d = self.image_dir(img, "img")
                    nested = mode in ("a", "b") and (self.rng.chance(1, 12) if self.tier != "quick" else self.rng.chance(1, 40))
                    tr = os.path.join(self.dir, "probe.trace") if nested else None
                    pr = probe(self.exe, d, self.opts, trace=tr)
                    # 'r' (an arbitrary cut between the two models) is covered by the theorem's `cut`;
                    # the extracted model is asked for (a) and (b) only
                    mq = self.model.cmd("Q %d %s" % (prefix[r], mode)) if mode in ("a", "b") else None
                    rp = {"options": self.optname, "history": ops_to_json(self.ops), "session": sess_idx, "operation": opdesc,
                          "crash_before_call": "%s(%s%s)" % (ev.sys, ev.p1, (" -> " + ev.p2) if ev.p2 else ""), "crash_model": mode}
                    self.stats["probes_" + mode] += 1
                    kp = opdesc.split(" ")[0] + ":" + ev.kind
                    self.stats["probe_points"][kp] = self.stats["probe_points"].get(kp, 0) + 1
                    self.check_probe(pr, mq, "%s before %s(%s), model (%s)" % (where, ev.sys, ev.p1, mode), acked, inflight, rp)
                    if nested and pr["open"] == "ok":
                        self.nested_probe(img, tr, prefix[r], mode, where, acked, inflight, rp)
                    if mode in ("a", "b") and pr["open"] == "ok" and not pr["bad"] and \
                            (self.rng.chance(1, 30) if self.tier == "quick" else self.rng.chance(1, 8)):
                        self.continue_from_image(img, prefix[r], mode, where, acked, inflight, pr, rp)
                if kill_ctx is not None and (self.rng.chance(1, 25) if self.tier == "quick" else self.rng.chance(1, 8)):
                    self.kill_check(ev, kill_ctx, where, acked, inflight, opdesc, sess_idx)
            self.fs.apply(ev)

    def continue_from_image(self, img, k, mode, where, acked, inflight, pr, rp):
        """the store goes on living after the crash: reopen the crash image and run more operations on it
        (writes, flushes, compactions, reopens) in lock step with the model, which continues from the same
        image; then exit, reopen, and everything acknowledged before AND after the crash must be there"""
        saved = (self.fs, self.acked, self.tree, getattr(self, "tree_levels", []), self.probing)
        nprob = len(self.problems)
        base = list(acked)
        if inflight is not None and visible(pr["ents"]) != self.spec_map(acked):
            base.append(inflight)       # the in-flight batch made it (check_probe has verified it is one of the two)
        self.model.cmd("SAVE")
        try:
            if self.model.cmd("LOAD %d %s" % (k, mode)) != "OK":
                return
            self.fs, self.acked, self.probing = img.clone(), base, False
            d = self.image_dir(img, "cont")
            cops = gen_history(self.rng.fork(), self.rng.choice([4, 8, 14]))
            self.stats["continuations"] = self.stats.get("continuations", 0) + 1
            for ci, sess in enumerate(split_sessions(cops)):
                self.play_session(d, 1000 + ci, sess)
            pr2 = probe(self.exe, d, self.opts)
            self.model.cmd("PEND O")
            mq = self.model.cmd("Q 0 a")
            self.check_probe(pr2, mq, "%s; reopened, continued with %d operations, exit" % (where, len(cops)), list(self.acked), None,
                             dict(rp, continued_with=ops_to_json(cops)))
        except Problem:
            pass
        finally:
            for pb in self.problems[nprob:]:
                pb["what"] = "[continuing after a crash %s] %s" % (where, pb["what"])
                if "replay" in pb and isinstance(pb["replay"], dict):
                    pb["replay"] = dict(rp, then=pb["replay"].get("operation", pb["replay"].get("op")))
            self.fs, self.acked, self.tree, self.tree_levels, self.probing = saved
            self.model.cmd("RESTORE")

    def nested_probe(self, img, trace, k1, mode1, where, acked, inflight, rp):
        """crash during the recovery of a crash image, then reopen again"""
        root_abs = os.path.join(self.dir, "img", "db")
        evs, _ = F.parse_trace(trace, root_abs, "db")
        open_evs = []
        for ev in evs:
            if ev.marker and ev.marker.startswith("@@ O"):
                break
            if ev.kind is not None:
                open_evs.append(ev)
        if not open_evs:
            return
        kept, prefix = self.canon_events(open_evs)
        r2 = self.rng.below(len(open_evs))
        mode2 = "a" if self.rng.chance(1, 2) else "b"
        fs2 = img.clone()
        for ev in open_evs[:r2]:
            fs2.apply(ev)
        d = self.image_dir(fs2.image(mode2), "img2")
        pr = probe(self.exe, d, self.opts)
        mq = self.model.cmd("QQ %d %s %d %s" % (k1, mode1, prefix[r2], mode2))
        self.stats["nested"] += 1
        rp2 = dict(rp, then_crash_in_recovery_before="%s(%s)" % (open_evs[r2].sys, open_evs[r2].p1), second_crash_model=mode2)
        self.check_probe(pr, mq, "%s, then in recovery before %s(%s) (%s)" % (where, open_evs[r2].sys, open_evs[r2].p1, mode2), acked, inflight, rp2)

    def other_thread_first(self, ev, sess_idx, any_time=False):
        """strace applies `when=N` to every thread separately: would another thread's N-th call of
        this syscall on this path be hit too (before this one, or at all)?"""
        n = 0
        for e2 in self.all_events.get(sess_idx, []):
            if e2 is ev:
                if not any_time:
                    return False
                continue
            if e2.pid != ev.pid and e2.sys == ev.sys and ev.p1 in (e2.p1, e2.p2):
                n += 1
                if n >= ev.pk:
                    return True
        return False

    def kill_check(self, ev, ctx, where, acked, inflight, opdesc, sess_idx):
        """a real SIGKILL on entry to this very call: the directory left behind must be the replayed
        image (model a), and it must reopen"""
        start_fs, script = ctx
        if self.other_thread_first(ev, sess_idx):
            return
        d = self.image_dir(start_fs, "kill")
        run_session(self.exe, d, self.opts, script, inject=(ev, "signal=SIGKILL"), timeout=60)
        self.stats["kills"] += 1
        want = self.fs.image("a").listing()
        got = F.real_listing(os.path.join(d, "db"))
        if want != got:
            wf, gf = dict(want[1]), dict(got[1])
            diff = [p for p in sorted(set(wf) | set(gf)) if wf.get(p) != gf.get(p)]
            self.problem("corr", "the directory left by a real SIGKILL differs from the replayed image %s" % where,
                         dirs_replayed=want[0], dirs_real=got[0], files_differ=diff[:10])
        pr = probe(self.exe, d, self.opts)
        rp = {"options": self.optname, "history": ops_to_json(self.ops), "session": sess_idx, "operation": opdesc,
              "real_sigkill_on_entry_to": "%s #%d on %s" % (ev.sys, ev.pk, ev.p1)}
        self.check_probe(pr, None, "%s (real SIGKILL) before %s(%s)" % (where, ev.sys, ev.p1), acked, inflight, rp)

    # ------------------------------------------------------------ the run
    def run(self):
        try:
            self._run()
        except Problem:
            pass
        except ModelTimeout as mt:
            # the model could not decide: at least a correspondence problem; and the real store is still
            # judged directly - what this history acknowledged must be readable after a reopen
            self.problem("corr", "the model could not decide `%s` within the limit" % str(mt)[:120])
            try:
                self.direct_oracle()
            except (Problem, ModelTimeout):
                pass
        finally:
            self.model.close()
            shutil.rmtree(self.dir, ignore_errors=True)

    def direct_oracle(self):
        """without the model: the directory the last recorded session of the real store left must reopen
        and read what that run acknowledged (python reference only)"""
        top = getattr(self, "top", None)
        if not top or top["so"] is None:
            return
        acked = list(top["acked0"])
        for n, (kind, payload) in enumerate(top["items"], start=1):
            if kind == "w" and top["so"].res.get(n) == "ok":
                acked.append(list(payload))
        pr = probe(self.exe, top["real"], self.opts)
        self.stats["direct_oracle_after_model_timeout"] = self.stats.get("direct_oracle_after_model_timeout", 0) + 1
        self.check_probe(pr, None, "after session %d exited (model timed out; direct oracle)" % top["si"], acked, None,
                         {"options": self.optname, "history": ops_to_json(self.ops), "session": top["si"]})

    def _run(self):
        sessions = split_sessions(self.ops)
        real = os.path.join(self.dir, "real")
        os.makedirs(real)
        self.fault_plan = []
        self.probing = True
        for si, sess in enumerate(sessions):
            self.play_session(real, si, sess)
        # ---- injected I/O errors
        self.fault_runs(self.fault_plan)

    def play_session(self, real, si, sess, fault=None):
        """one session of the real store in directory `real` (recorded under strace) and, in lock step,
        the same operations on the model; crash points probed while self.probing.
        fault = (op number, recorded event, errno, the main pass' session index): the same session with
        an I/O error injected into that call; the model takes the error too and BOTH go on"""
        root_abs = os.path.join(real, "db")
        fault_plan = self.fault_plan if self.probing and fault is None else []
        script, items = session_script(sess)
        start_fs = self.fs.clone()
        if si < 1000:
            self.top = {"real": real, "si": si, "acked0": list(self.acked), "items": items, "so": None}
        trace = os.path.join(self.dir, "s%d.trace" % si)
        if fault is None:
            so = SessionOut(run_session(self.exe, real, self.opts, script, trace=trace))
            if self.probing:
                self.model.cmd("SNAP s%d" % si)
                self.session_ops = getattr(self, "session_ops", {})
                self.session_ops[si] = sess
        else:
            so = SessionOut(run_session(self.exe, real, self.opts, script, trace=trace,
                                        inject_all=(fault[1].sys, "error=" + fault[2], fault[1].tk), timeout=90))
        self.stats["sessions"] += 1
        if si < 1000:
            self.top["so"] = so
        evs, _ = F.parse_trace(trace, root_abs, "db")
        os.unlink(trace)
        if fault is not None:
            inj = [e for e in evs if e.injected]
            if len(inj) != 1 or inj[0].sys != fault[1].sys or inj[0].p1 != fault[1].p1 or so.hang:
                # the injection hit another thread's call as well (or instead): nothing to judge
                self.stats["fault_lockstep_discarded"] = self.stats.get("fault_lockstep_discarded", 0) + 1
                raise StopLockstep()
        self.all_events = getattr(self, "all_events", {})
        self.all_events[si] = evs
        # segment the events by the markers
        segs, cur, cur_key = {}, [], "open"
        for ev in evs:
            if ev.marker:
                t = ev.marker.split(" ")
                if t[1] == "O":
                    segs["open"] = cur
                    cur, cur_key = [], None
                elif t[1] == "S":
                    if cur:
                        segs.setdefault("stray", []).extend(cur)
                    cur, cur_key = [], int(t[2])
                elif t[1] == "A":
                    segs[int(t[2])] = cur
                    cur, cur_key = [], None
                continue
            if ev.kind is not None:
                cur.append(ev)
        if cur:
            segs.setdefault("stray", []).extend(cur)
        if segs.get("stray"):
            self.problem("corr", "store calls outside any operation", calls=[repr(e) for e in segs["stray"][:5]])
        if so.open != "ok" or so.hang:
            self.problem("prop", "open failed in a fault-free history: %s" % so.open, replay={"options": self.optname, "history": ops_to_json(self.ops), "session": si})
            raise Problem()
        kill_ctx = (start_fs, script) if self.probing and fault is None else None
        self.pendc = getattr(self, "pendc", {})
        # ---- open
        oevs = segs.get("open", [])
        self.stats["events"] += len(oevs)
        m = self.model.cmd("PEND O")
        kept, prefix = self.canon_events(oevs)
        self.compare_trace(kept, [c for c in m[6:].split(" | ")[0].split(" ; ") if c], "open (session %d)" % si)
        self.probe_points(oevs, prefix, "during open of session %d" % si, list(self.acked), None, "open", si, kill_ctx)
        fault_plan += self.plan_faults(si, "open", oevs, prefix)
        g = self.model.cmd("GO")
        if not g.startswith("DONE ok=1"):
            self.problem("corr", "model open failed: " + g)
            raise Problem()
        # ---- operations
        try:
            for n, (kind, payload) in enumerate(items, start=1):
                res = so.res.get(n)
                oe = segs.get(n, [])
                self.stats["events"] += len(oe)
                if res is None:
                    self.problem("prop", "operation did not return: %s" % kind, replay={"options": self.optname, "history": ops_to_json(self.ops), "session": si, "op": n})
                    raise Problem()
                if kind == "dump":
                    files, seq = parse_dump(so.info.get(n, []), res, self.cache)
                    self.tree = [nm for _, nm in files]
                    self.tree_levels = files
                    self.sync_files(g, files, seq, "session %d op %d" % (si, n))
                    if oe:
                        self.problem("corr", "dump issued store calls", calls=[repr(e) for e in oe[:3]])
                    continue
                if kind == "getall":
                    continue
                self.stats["ops"] += 1
                if kind == "w":
                    m = self.model.cmd("PEND W " + ",".join("%s=%s" % (hx(k), "~" if v is None else hx(mv(v))) for k, v in payload))
                    if fault is not None:
                        if n == fault[0]:
                            self.cur_payload = payload
                            g = self.faulted_op(fault, oe, res, "write", si, n)
                            if res == "ok":
                                self.acked.append(list(payload))
                            continue
                        if n > fault[0] and m == "CALLS ":
                            # the model refuses the write: the log failed earlier in this session
                            self.stats["fault_lockstep_refusals"] = self.stats.get("fault_lockstep_refusals", 0) + 1
                            if res == "ok":
                                self.problem("prop", "a write was acknowledged after the log had failed (the frame cannot be trusted to be in the log)",
                                             replay=self.fault_rp(fault, si, n))
                                raise Problem()
                            if [e for e in oe if F.canon_call(e) is not None]:
                                self.problem("corr", "a refused write issued store calls", calls=[repr(e) for e in oe[:3]])
                            g = self.model.cmd("GO")
                            continue
                    if res != "ok":
                        if fault is not None:
                            self.problem("prop", "after an injected error a later write failed although its log is intact: %s" % res, replay=self.fault_rp(fault, si, n))
                        else:
                            self.outside("write failed in a fault-free history: %s" % res, si, n)
                        raise Problem()
                    self.stats["writes"] += 1
                    self.model_accepts("write", "session %d op %d" % (si, n), si, n)
                    kept, prefix = self.canon_events(oe)
                    self.compare_trace(kept, [c for c in m[6:].split(" ; ") if c], "write (session %d op %d)" % (si, n))
                    self.probe_points(oe, prefix, "during write %d of session %d" % (n, si), list(self.acked), payload, "write " + script[n - 1], si, kill_ctx)
                    fault_plan += self.plan_faults(si, n, oe, prefix)
                    g = self.model_go("session %d op %d" % (si, n))
                    self.acked.append(list(payload))
                    if isinstance(payload, WX):
                        logs = [len(nd.data) for p_, nd in self.fs.files.items() if p_.startswith("log.")]
                        self.stats["biglog_writes"] = self.stats.get("biglog_writes", 0) + 1
                        if logs != [payload.end]:
                            self.problem("corr", "big-log history: the log is not as long as the framing arithmetic says", want=payload.end, got=logs)
                        elif payload.end % BLOCK in (0,) + tuple(BLOCK - i for i in range(1, 21)):
                            self.stats["biglog_frame_ends_near_boundary"] = self.stats.get("biglog_frame_ends_near_boundary", 0) + 1
                elif kind == "flush":
                    m = self.model.cmd("PEND F")
                    if m.startswith("ERROR outside"):
                        raise StopLockstep(resume=n)        # a flush while the log has failed: the model does not follow
                    if fault is not None:
                        if n == fault[0]:
                            g = self.faulted_op(fault, oe, res, "flush", si, n)
                            continue
                        if n > fault[0] and m.startswith("CALLS  | FLAG 0"):
                            if res.startswith("ok"):
                                self.problem("prop", "a flush succeeded after the memtable thread had died", replay=self.fault_rp(fault, si, n))
                                raise Problem()
                            g = self.model.cmd("GO")
                            continue
                    if not res.startswith("ok"):
                        if fault is not None:
                            self.problem("prop", "after an injected error a later flush failed although nothing it needs had failed: %s" % res, replay=self.fault_rp(fault, si, n))
                        else:
                            self.outside("flush failed in a fault-free history: %s" % res, si, n)
                        raise Problem()
                    self.stats["flushes"] += 1
                    self.model_accepts("flush", "session %d op %d" % (si, n), si, n)
                    kept, prefix = self.canon_events(oe)
                    self.compare_trace(kept, [c for c in m[6:].split(" | ")[0].split(" ; ") if c], "flush (session %d op %d)" % (si, n))
                    self.probe_points(oe, prefix, "during flush %d of session %d" % (n, si), list(self.acked), None, "flush", si, kill_ctx)
                    fault_plan += self.plan_faults(si, n, oe, prefix)
                    g = self.model_go("session %d op %d" % (si, n))
                elif kind == "compact":
                    t = res.split(" ")
                    if fault is not None and n == fault[0]:
                        # the compaction the error is injected into: its inputs and outputs are those of the main pass
                        m = self.model.cmd(self.pendc[(fault[3], n)])
                        g = self.faulted_op(fault, oe, res, "compact", si, n)
                        continue
                    if t[0] == "none":
                        if oe:
                            self.problem("corr", "a compaction step that found nothing issued store calls")
                        continue
                    if t[0] != "ok" and fault is not None and res != "PANIC":
                        if "mani=0" in self.model.cmd("FLAGS"):
                            raise StopLockstep(resume=n)        # a poisoned manifest refuses the edit: the model does not follow
                        self.problem("prop", "after an injected error a later compaction failed: %s" % res, replay=self.fault_rp(fault, si, n))
                        raise Problem()
                    if t[0] != "ok":
                        # K2 (C01): after a reopen recover.rs can build a level whose files overlap; the selector's
                        # assertion (find_best_compaction) then panics and leaves the tree's mutex poisoned.  Only
                        # that shape is the known class: a PANIC while the last dumped tree has an ill-formed level.
                        # Anything else is a fault-free operation that failed: a violation.
                        if res == "PANIC" and (self.tree_ill_formed() or getattr(self, "k2_poisoned", False)):
                            self.known.append(("K2", "a compaction step panics on a reopened tree with an ill-formed level"))
                            self.stats["k2_selector_failures"] = self.stats.get("k2_selector_failures", 0) + 1
                            self.k2_poisoned = True
                        else:
                            self.problem("prop", "compaction failed in a fault-free history: %s" % res,
                                         replay={"options": self.optname, "history": ops_to_json(self.ops), "session": si, "op": n})
                            raise Problem()
                        if oe:
                            raise Problem()
                        continue
                    inputs = t[6].split(",")
                    if len(inputs) == 1:
                        self.stats["moves"] += 1
                        if oe:
                            self.problem("corr", "a trivial move issued store calls", calls=[repr(e) for e in oe[:3]])
                        continue
                    self.stats["compactions"] += 1
                    # the outputs: what the next dump shows that was not there, plus inputs that stayed
                    nfiles, _ = parse_dump(so.info.get(n + 1, []), so.res.get(n + 1, ""), self.cache)
                    after = [nm for _, nm in nfiles]
                    before = set(self.tree)
                    outs = [nm for nm in after if nm not in before or nm in inputs]
                    in_e = set(ent_str(e) for nm in inputs for e in self.cache.get(nm, ([], None))[0])
                    out_e = set(ent_str(e) for nm in outs for e in self.cache.get(nm, ([], None))[0])
                    if in_e != out_e:
                        self.stats["gc"] += 1
                    ids = []
                    for nm in inputs:
                        if nm not in self.bind:
                            self.problem("corr", "compaction input unknown to the model", name=nm)
                            raise Problem()
                        ids.append(int(self.bind[nm]))
                    # the directory name is the sum of the inputs (order-free); the inputs are retired in the order
                    # of the old version's levels: give the model the order the renames to trash/ were issued in,
                    # so that a crash image taken between two of them is the same directory on both sides
                    retired = [e_.p1[4:-4] for e_ in oe if e_.kind == "rename" and (e_.p1 or "").startswith("sst/") and (e_.p2 or "").startswith("trash/")]
                    rank = {nm: i for i, nm in enumerate(retired)}
                    order = sorted(range(len(ids)), key=lambda i: (rank.get(inputs[i], len(rank)), ids[i]))
                    # outputs in the order the multi-builder cut them: ascending first key
                    outs.sort(key=lambda nm: self.cache[nm][0][0][0] if self.cache[nm][0] else b"")
                    pc = "PEND C %s %s | %s" % ("gc" if int(t[2]) == 15 else "merge", ",".join(str(ids[i]) for i in order),
                                                " ; ".join(",".join(ent_str(e) for e in self.cache[nm][0]) for nm in outs))
                    self.pendc[(si, n)] = pc
                    m = self.model.cmd(pc)
                    if m.startswith("ERROR outside"):
                        # the model's manifest is poisoned, the store's compaction went through
                        self.problem("prop", "a compaction edited a manifest that an earlier error had poisoned: %s" % res[:60], replay=self.fault_rp(fault, si, n) if fault else None)
                        raise Problem()
                    if not self.model_accepts("compact", "session %d op %d" % (si, n), si, n):
                        raise Problem()
                    if in_e != out_e:
                        self.stats["gc_steps_accepted"] = self.stats.get("gc_steps_accepted", 0) + 1
                    kept, prefix = self.canon_events(oe)
                    self.compare_trace(kept, [c for c in m[6:].split(" ; ") if c], "compaction (session %d op %d)" % (si, n))
                    self.probe_points(oe, prefix, "during compaction %d of session %d" % (n, si), list(self.acked), None, "compact " + res[:60], si, kill_ctx)
                    fault_plan += self.plan_faults(si, n, oe, prefix)
                    g = self.model_go("session %d op %d" % (si, n))
        except StopLockstep as st:
            if fault is None or st.resume is None:
                raise
            self.oracle_rest(real, so, segs, items, st.resume, fault, si)
            raise StopLockstep()
        self.model.cmd("EXIT")
        # the process exited: everything written is there
        if self.probing and fault is None:
            self.session_scripts = getattr(self, "session_scripts", []) + [(start_fs, script, items)]

    def oracle_probe(self, pr, inflight, where, rp):
        """a crash image of a session that went on past an error, judged against the specification alone:
        it holds the acknowledged writes, with or without the write whose own fdatasync failed, with or
        without the batch in flight - each whole"""
        bases = [list(self.acked)]
        und = getattr(self, "undecided", None)
        if und is not None:
            w = list(self.acked)
            w.insert(und[0], und[1])
            bases.append(w)
        cands = []
        for b in bases:
            cands.append(b)
            if inflight is not None:
                cands.append(b + [inflight])
        self.stats["fault_oracle_probes"] = self.stats.get("fault_oracle_probes", 0) + 1
        if pr["open"] != "ok":
            self.problem("prop", "reopen after a crash %s failed: %s" % (where, pr["open"]), replay=rp)
            return
        vis = visible(pr["ents"])
        match = next((c for c in cands if self.spec_map(c) == vis), None)
        if match is None:
            self.problem("prop", "after a crash %s the store does not hold the acknowledged writes (+ the write whose fdatasync failed, + the batch in flight, each whole)" % where,
                         got={hx(k): hx(v)[:40] for k, v in vis.items()}, acked={hx(k): hx(v)[:40] for k, v in self.spec_map(self.acked).items()}, replay=rp)
            return
        self.check_probe(pr, None, where, match, None, rp)

    def oracle_rest(self, real, so, segs, items, start, fault, si):
        """the rest of a faulted session the model does not follow: crash images all along it and the
        directory it leaves must hold what THIS run acknowledged"""
        self.stats["fault_oracle_continuations"] = self.stats.get("fault_oracle_continuations", 0) + 1
        rp0 = self.fault_rp(fault, si, fault[0])
        # a budget of crash points per continued session, spread over what is left of it
        big = any(op[0] == "wx" for op in self.ops)
        cap = (3 if big else 10) if self.tier == "quick" else (10 if big else 60)
        total = sum(1 for m in range(start, len(items) + 1) for e in segs.get(m, []) if e.kind is not None and not e.failed)
        points = 0
        for n in range(start, len(items) + 1):
            kind, payload = items[n - 1]
            res = so.res.get(n)
            if res is None:
                self.problem("prop", "after an injected error an operation did not return: %s" % kind, replay=dict(rp0, op=n))
                return
            if res == "PANIC" and kind != "compact":
                self.problem("prop", "after an injected error a later %s panicked" % kind, replay=dict(rp0, op=n))
                return
            if kind == "dump":
                files, _ = parse_dump(so.info.get(n, []), res, self.cache)
                self.tree, self.tree_levels = [nm for _, nm in files], files
            inflight = list(payload) if kind == "w" else None
            for ev in segs.get(n, []):
                if ev.kind is not None and not ev.failed and points < cap and self.rng.below(max(1, total)) < 2 * cap:
                    points += 1
                    modes = ("a", "b") + (("l",) if self.fs.manifest_unsynced() else ())
                    for mode in modes:
                        pr = probe(self.exe, self.image_dir(self.fs.image(mode, self.rng), "img"), self.opts)
                        self.oracle_probe(pr, inflight, "in a session that went on past an injected error, during %s %d before %s(%s), model (%s)" % (kind, n, ev.sys, ev.p1, mode),
                                          dict(rp0, op=n, crash_before_call="%s(%s)" % (ev.sys, ev.p1), crash_model=mode))
                self.fs.apply(ev)
            if kind == "w" and res == "ok":
                self.acked.append(list(payload))
                self.stats["fault_oracle_acked_after"] = self.stats.get("fault_oracle_acked_after", 0) + 1
        pr = probe(self.exe, real, self.opts)
        self.oracle_probe(pr, None, "after the session that went on past an injected error exited", rp0)

    def fault_rp(self, fault, si, n):
        ev = fault[1]
        return {"options": self.optname, "history": ops_to_json(self.ops), "session": fault[3], "op": n,
                "injected": "%s at %s #%d (thread-wide) on %s%s, operation %s" % (fault[2], ev.sys, ev.tk, ev.p1, (" -> " + ev.p2) if ev.p2 else "", fault[0])}

    def faulted_op(self, fault, oe, res, kind, si, n):
        """the operation the error is injected into (its PEND is the model's pending operation): the calls
        up to and after the failing one must be the model's, the error must come back exactly when the
        model says so, and the model goes on when no file recovery reads was changed"""
        hit = [r for r, e in enumerate(oe) if e.injected]
        kept, prefix = self.canon_events(oe)
        if len(hit) != 1 or prefix[hit[0] + 1] != prefix[hit[0]] + 1:
            self.stats["fault_lockstep_discarded"] = self.stats.get("fault_lockstep_discarded", 0) + 1
            raise StopLockstep()
        k = prefix[hit[0]]
        fc = self.model.cmd("FCALLS %d" % k)
        self.compare_trace(kept, [c for c in fc[6:].split(" ; ") if c], "%s with an injected error (session %d op %d)" % (kind, si, n))
        g = self.model.cmd("GOF %d" % k)
        t = dict(kv.split("=", 1) for kv in g.split(" ")[1:] if "=" in kv)
        surfaced = res.startswith("err") or res == "PANIC"
        self.stats["fault_lockstep_runs"] = self.stats.get("fault_lockstep_runs", 0) + 1
        if res == "PANIC":
            self.problem("prop", "an injected %s made the %s panic" % (fault[2], kind), replay=self.fault_rp(fault, si, n))
            raise Problem()
        if (t.get("err") == "1") != surfaced:
            self.problem("prop" if t.get("err") == "1" else "corr",
                         "the model %s the injected error to be returned by the %s, the store answered %s" % ("expects" if t.get("err") == "1" else "does not expect", kind, res[:40]),
                         replay=self.fault_rp(fault, si, n))
            raise Problem()
        for ev in oe:
            self.fs.apply(ev)
        if t.get("env") != "1":
            self.stats["fault_lockstep_left_envelope"] = self.stats.get("fault_lockstep_left_envelope", 0) + 1
            if kind == "write" and surfaced and fault[1].kind == "sync":
                # the write whose own fdatasync failed: its frame is in the file, durable or not
                self.undecided = (len(self.acked), list(self.cur_payload))
            raise StopLockstep(resume=n + 1)
        self.stats["fault_lockstep_continued"] = self.stats.get("fault_lockstep_continued", 0) + 1
        self.in_continuation = True
        return g

    def lockstep_eligible(self, si, opn, ev):
        """a full trace (no -P) addresses a call by (thread, syscall, count): only the main thread's calls,
        and only when no other thread makes as many calls of that syscall in the session"""
        if opn == "open" or si not in getattr(self, "session_ops", {}) or ev.kind is None:
            return False
        evs_all = self.all_events.get(si, [])
        main = next((e.pid for e in evs_all if e.marker), None)
        if ev.pid != main:
            return False
        other = {}
        for e in evs_all:
            if e.pid != main and e.sys == ev.sys:
                other[e.pid] = other.get(e.pid, 0) + 1
        return not any(c >= ev.tk for c in other.values())

    def fault_lockstep(self, si, opn, ev, errno):
        """the session with the error injected, fully traced, the model in lock step THROUGH the error:
        later operations are compared call by call, crash points after the error are probed against the
        model, and at the end the directory must reopen to what was acknowledged in this run"""
        if not self.lockstep_eligible(si, opn, ev):
            return
        start_fs, script, items = self.session_scripts[si]
        saved = (self.fs, self.acked, self.tree, getattr(self, "tree_levels", []), self.probing, getattr(self, "k2_poisoned", False))
        nprob = len(self.problems)
        self.model.cmd("SAVE")
        try:
            if self.model.cmd("GOTO s%d" % si) != "OK":
                return
            self.fs, self.acked, self.in_continuation, self.fault_mode = start_fs.clone(), self.acked_before_session(si), False, True
            self.undecided = None
            d = self.image_dir(start_fs, "flk")
            self.stats["fault_lockstep_attempts"] = self.stats.get("fault_lockstep_attempts", 0) + 1
            self.play_session(d, 2000 + si, self.session_ops[si], fault=(opn, ev, errno, si))
            # the process exited: reopen; the model's directory is the same one
            pr = probe(self.exe, d, self.opts)
            self.model.cmd("PEND O")
            mq = self.model.cmd("Q 0 a")
            self.check_probe(pr, mq, "after a session that went on past an injected %s" % errno, list(self.acked), None, self.fault_rp((opn, ev, errno, si), si, opn))
            self.stats["fault_lockstep_completed"] = self.stats.get("fault_lockstep_completed", 0) + 1
        except (Problem, StopLockstep):
            pass
        finally:
            for pb in self.problems[nprob:]:
                pb["what"] = "[session continued past an injected %s at %s(%s)] %s" % (errno, ev.sys, ev.p1, pb["what"])
                if isinstance(pb.get("replay"), dict) and "injected" not in pb["replay"]:
                    pb["replay"] = dict(pb["replay"], **self.fault_rp((opn, ev, errno, si), si, opn))
            self.fs, self.acked, self.tree, self.tree_levels, self.probing, self.k2_poisoned = saved
            self.in_continuation = self.fault_mode = False
            self.model.cmd("RESTORE")

    def plan_faults(self, si, opn, evs, prefix):
        """candidate fault points of the pending operation; for a sample of them ask the model (whose
        pending operation is this one) whether the injected error is returned"""
        out = []
        if not self.probing:
            return out
        est = 4 * max(1, len(self.ops))
        budget = 8 if self.tier == "quick" else 80
        for r, ev in enumerate(evs):
            pred = None
            if prefix[r + 1] == prefix[r] + 1 and self.rng.below(est) < budget:
                a = self.model.cmd("FQ %d" % prefix[r])
                if a.startswith("FAULT err="):
                    pred = a[10] == "1"
            out.append((si, opn, ev, pred))
        return out

    def model_accepts(self, kind, where, si, n):
        """every step must be one the theorems' transition system takes (ProofsLts.accepted, evaluated by
        the extracted acceptedb): a write names each key once; a compaction's inputs are live, its outputs
        hold only entries of its inputs and no key reads differently afterwards"""
        a = self.model.cmd("ACC")
        self.stats["steps_accepted_evaluated"] = self.stats.get("steps_accepted_evaluated", 0) + 1
        if a == "ACC 1":
            return True
        self.stats["accepted_rejections"] = self.stats.get("accepted_rejections", 0) + 1
        if kind != "compact":
            self.problem("corr", "the model rejects a %s as a step (%s): %s" % (kind, where, a))
        elif self.tree_ill_formed() or getattr(self, "k2_poisoned", False):
            self.known.append(("K2", "a compaction over a tree with an ill-formed level changes what a key reads as"))
        else:
            self.problem("prop", "a compaction changed what some key reads as, or produced entries its inputs do not hold (%s)" % where,
                         replay={"options": self.optname, "history": ops_to_json(self.ops), "session": si, "op": n})
        return False

    def model_go(self, where):
        g = self.model.cmd("GO")
        if not g.startswith("DONE ok=1"):
            self.problem("corr", "the model's operation did not complete (%s): %s" % (where, g[:80]))
        return g

    def sync_files(self, g, files, seq, where):
        """after a dump: bind the real names to the model's ids by content, compare the live set"""
        t = dict(kv.split("=", 1) for kv in g.split(" ")[1:] if "=" in kv)
        mfiles = [x for x in t.get("files", "").split(",") if x]
        mset = set()
        for x in mfiles:
            mset.add(",".join(sorted(ent_str(e) for e in parse_ents(self.model.cmd("ENT " + x)))))
        rset = set()
        for _, nm in files:
            ents, bad = self.cache.get(nm, ([], "MISSING"))
            rset.add(",".join(sorted(ent_str(e) for e in ents)))
            if nm not in self.bind:
                for x in mfiles:
                    if x not in self.rbind and sorted(ent_str(e) for e in parse_ents(self.model.cmd("ENT " + x))) == sorted(ent_str(e) for e in ents):
                        self.bind[nm], self.rbind[x] = x, nm
                        break
        if mset != rset:
            self.problem("corr", "live sst set differs from the model's (%s)" % where, real=sorted(rset)[:8], model=sorted(mset)[:8])
        if seq is not None and t.get("seq") is not None and int(t["seq"]) != seq:
            self.problem("corr", "sequence number differs from the model's (%s)" % where, real=seq, model=t["seq"])

    # ------------------------------------------------------------ faults
    def fault_runs(self, plan):
        for ff in self.forced_faults:
            for si, opn, ev, pred in plan:
                if si == ff["session"] and ev.sys == ff["sys"] and ev.p1 == ff["path"] and ev.pk == ff["nth"]:
                    self.fault_one(si, opn, ev, ff.get("errno", "EIO"), pred)
                    break
            else:
                self.problem("corr", "corpus fault not found in the recorded calls", fault=ff)
        if not plan:
            return
        n = 2 if self.tier == "quick" else min(len(plan), 40)
        picks = []
        with_pred = [c for c in plan if c[3] is not None]
        for _ in range(3 * n):
            pool = with_pred if with_pred and self.rng.chance(2, 3) else plan
            c = pool[self.rng.below(len(pool))]
            if not self.other_thread_first(c[2], c[0], any_time=True) and len(picks) < n:
                picks.append(c)
        for si, opn, ev, pred in picks:
            errno = "EIO" if self.rng.chance(1, 2) else "ENOSPC"
            self.fault_one(si, opn, ev, errno, pred)
        # ---- sessions that go on past the error with the model in lock step
        elig = [c for c in plan if self.lockstep_eligible(c[0], c[1], c[2])]
        n = min(len(elig), 2 if self.tier == "quick" else 30)
        for _ in range(n):
            si, opn, ev, pred = elig.pop(self.rng.below(len(elig)))
            self.fault_lockstep(si, opn, ev, "EIO" if self.rng.chance(1, 2) else "ENOSPC")

    def fault_one(self, si, opn, ev, errno, pred=None):
        """re-run session si from its starting directory with one injected error; the operation it
        hits must report it; afterwards the directory must reopen with acknowledged (+ unacknowledged
        but started) writes"""
        start_fs, script, items = self.session_scripts[si]
        d = self.image_dir(start_fs, "fault")
        so = SessionOut(run_session(self.exe, d, self.opts, script, inject=(ev, "error=" + errno), timeout=90))
        self.stats["faults"] += 1
        c = F.canon_call(ev)
        dropped_by_design = c is not None and c[0] == "rename" and c[1].startswith("sst:") and c[2].startswith("trashsst:")
        rp = {"options": self.optname, "history": ops_to_json(self.ops), "session": si,
              "injected": "%s at %s #%d on %s%s" % (errno, ev.sys, ev.pk, ev.p1, (" -> " + ev.p2) if ev.p2 else "")}
        if so.hang:
            self.problem("prop", "the store hung after an injected %s" % errno, replay=rp)
            return
        if opn == "open":
            surfaced = so.open is not None and so.open != "ok"
            hit = so.open
        else:
            hit = so.res.get(opn)
            surfaced = hit is not None and (hit.startswith("err") or hit == "PANIC")
        if pred is not None:
            self.stats["faults_vs_model"] = self.stats.get("faults_vs_model", 0) + 1
            if pred != surfaced:
                self.problem("corr", "the model %s that the injected error is returned, the store %s" % ("predicts" if pred else "denies", "returned it" if surfaced else "did not"), fault=rp["injected"])
        if dropped_by_design:
            self.stats["faults_dropped_ok"] += 1
        elif not surfaced:
            self.problem("prop", "an injected %s was not returned by the operation it hit (result: %s)" % (errno, hit), replay=rp)
        else:
            self.stats["faults_surfaced"] += 1
            if hit == "PANIC":
                self.problem("prop", "an injected %s made the operation panic instead of returning an error" % errno, replay=rp)
        # ---- the session goes on after the error: what each later operation must answer
        if opn != "open" and not getattr(self, "k2_poisoned", False):
            self.judge_after_fault(so, items, opn, ev, dropped_by_design, errno, rp)
        # ---- what was acknowledged in THIS run (sessions before si are as recorded)
        prior = []
        for sj in range(si):
            prior += [p for k, p in self.session_scripts[sj][2] if k == "w"]
        acked, failed, undecided = list(prior), [], None
        for n, (kind, payload) in enumerate(items, start=1):
            if kind != "w":
                continue
            r = so.res.get(n)
            if r == "ok":
                acked.append(payload)
            elif n in so.started:
                # a write that returned an error must not be there after a reopen - except the one whose
                # OWN fdatasync was the injected call: its frame reached the file, durable or not
                if n == opn and ev.kind == "sync" and (ev.p1 or "").startswith("log."):
                    undecided = (len(acked), payload)
                else:
                    failed.append(payload)
        pr = probe(self.exe, d, self.opts)
        self.stats["probes"] += 1
        if pr["open"] != "ok":
            self.problem("prop", "reopen after an injected %s failed: %s" % (errno, pr["open"]), replay=rp)
            return
        vis = visible(pr["ents"])
        cands = [acked]
        if undecided is not None:
            w = list(acked)
            w.insert(undecided[0], undecided[1])
            cands.append(w)
            self.stats["faults_undecided_write"] = self.stats.get("faults_undecided_write", 0) + 1
        if not any(self.spec_map(w) == vis for w in cands):
            self.problem("prop", "after an injected %s and a reopen the store does not hold exactly the acknowledged writes (+ the write whose own fdatasync failed, wholly or not at all)" % errno,
                         got={hx(k): hx(v)[:40] for k, v in vis.items()}, acked={hx(k): hx(v)[:40] for k, v in self.spec_map(acked).items()}, replay=rp)
            return
        # nothing else: no recovered batch (entries of one timestamp) is a write that returned an error
        groups = {}
        for k, ts, v in pr["ents"]:
            groups.setdefault(ts, {})[k] = v
        legit = [dict(b) for b in acked] + ([dict(undecided[1])] if undecided else [])
        # (a garbage collection can have dropped part of an acknowledged batch: a recovered group that is
        # part of a legitimate batch is that batch's remainder, whatever failed write it happens to equal)
        def remainder_of_legit(g):
            return any(all(k in L and L[k] == v for k, v in g.items()) for L in legit)
        for b in failed:
            if dict(b) in groups.values() and not remainder_of_legit(dict(b)):
                self.problem("prop", "after an injected %s and a reopen the store holds a write that had returned an error" % errno,
                             batch={hx(k): (None if v is None else hx(v)[:40]) for k, v in b}, replay=rp)
                return
        self.stats["faults_failed_writes_absent"] = self.stats.get("faults_failed_writes_absent", 0) + len(failed)

    def judge_after_fault(self, so, items, opn, ev, dropped_by_design, errno, rp):
        """after the operation that was hit: a poisoned log refuses writes until the next rollover, a dead
        memtable thread refuses flushes, a poisoned manifest refuses edits; everything else must go on
        working, and the running store must read exactly what it acknowledged"""
        on_mani = (ev.p1 or "").startswith("mani/") or (ev.p2 or "").startswith("mani/")
        log_dead = thread_dead = mani_dead = False
        kind_hit = items[opn - 1][0]
        if not dropped_by_design:
            if kind_hit == "w":
                log_dead = True
            elif kind_hit == "flush":
                thread_dead = True
                mani_dead = on_mani
            elif kind_hit == "compact":
                mani_dead = on_mani
        acked_here = []
        for n, (kind, payload) in enumerate(items, start=1):
            res = so.res.get(n)
            if res is None:
                break
            if kind == "w" and res == "ok":
                acked_here.append(n)
            if n <= opn:
                continue
            ok = res == "ok" or res.startswith("ok") or res == "none"
            if res == "PANIC":
                self.problem("prop", "after an injected %s a later %s panicked" % (errno, kind), op=n, replay=rp)
                return
            if kind == "w":
                if ok == log_dead:
                    self.problem("prop", "after an injected %s a later write returned %s although the log %s" % (errno, res, "had failed" if log_dead else "was intact"), op=n, replay=rp)
                    return
            elif kind == "flush":
                want_err = thread_dead or log_dead or mani_dead
                if ok == want_err:
                    self.problem("prop", "after an injected %s a later flush returned %s (expected %s: thread_dead=%s log_failed=%s manifest_poisoned=%s)" %
                                 (errno, res, "an error" if want_err else "ok", thread_dead, log_dead, mani_dead), op=n, replay=rp)
                    return
                if not thread_dead:
                    if want_err:
                        thread_dead = True
                    log_dead = False            # the rollover gave the store a new log before anything failed
                self.stats["flushes_judged_after_fault"] = self.stats.get("flushes_judged_after_fault", 0) + 1
            elif kind == "compact":
                if ok and mani_dead and res != "none" and len(res.split(" ")) > 6 and "," in res.split(" ")[6]:
                    self.problem("prop", "after an injected %s a compaction edited a poisoned manifest: %s" % (errno, res[:60]), op=n, replay=rp)
                    return
            elif kind == "getall" and res.startswith("GET"):
                seen = ["." if g == "~" else g for g in res.split(" ")[1:]]
                spec = self.spec_map(self.acked_before_session(rp["session"]) + [items[m - 1][1] for m in acked_here])
                want = ["." if spec.get(k) is None else hx(spec[k]) for k in UNIVERSE]
                if seen != want:
                    cache = {}
                    files, _ = parse_dump(so.info.get(n + 1, []), so.res.get(n + 1, ""), cache)
                    bad = [k for k, g, w in zip(UNIVERSE, seen, want) if g != w]
                    if len(seen) == len(want) and self.k2_pair({"files": [nm for _, nm in files], "cache": cache}, bad):
                        self.known.append(("K2", "reads of the running store differ from its acknowledged writes; two live files both hold the key and overlap in timestamp range"))
                    else:
                        self.problem("prop", "after an injected %s the running store does not read what it acknowledged" % errno, got=seen, want=want, replay=rp)
                        return
                else:
                    self.stats["reads_judged_after_fault"] = self.stats.get("reads_judged_after_fault", 0) + 1

    def acked_before_session(self, si):
        out = []
        for sj in range(si):
            out += [p for k, p in self.session_scripts[sj][2] if k == "w"]
        return out


def ops_to_json(ops):
    out = []
    for op in ops:
        if op[0] == "w":
            out.append(["w", [[k.hex(), None if v is None else v.hex()] for k, v in op[1]]])
        elif op[0] == "wx":
            out.append(["wx", [[k.hex(), None if v is None else v.hex()] for k, v in op[1]], op[2]])
        else:
            out.append(list(op))
    return out


def ops_from_json(js):
    out = []
    for op in js:
        if op[0] == "w":
            out.append(("w", [(bytes.fromhex(k), None if v is None else bytes.fromhex(v)) for k, v in op[1]]))
        elif op[0] == "wx":
            out.append(("wx", [(bytes.fromhex(k), None if v is None else bytes.fromhex(v)) for k, v in op[1]], op[2]))
        else:
            out.append(tuple(op))
    return out


class Summary:
    def __init__(self, h):
        self.problems, self.known, self.stats = h.problems, h.known, h.stats
        self.outside_notes = getattr(h, "outside_notes", [])


class Stuck:
    """stands for a history whose worker did not deliver: a correspondence problem, never silence"""

    def __init__(self, what):
        self.problems, self.known, self.outside_notes = [{"kind": "corr", "what": what}], [], []
        self.stats = {"flushes": 0, "probes": 0}


def _job(args):
    exe, mx, optname, opts, ops, tag, tier, seed, forced = args
    h = History(exe, mx, optname, opts, ops, tag, tier, vlib.Rng(seed), forced)
    h.run()
    return Summary(h)


def build():
    okx, outx = vlib.coq_make(["theories/Crash/Extract.vo"])
    okm, outm, mx = vlib.ocaml_build("crash", "mx_crash")
    okh, outh, (exe,) = vlib.cargo_build(["c02"])
    if not (okx and okm):
        raise RuntimeError("model build failed:\n" + outx[-1500:] + outm[-1500:])
    if not okh:
        raise RuntimeError("harness build failed (does /repo still compile?):\n" + outh[-3000:])
    return exe, mx


def torn_log_probe(exe, work):
    """beyond the property's quantifier (a crash INSIDE a write call): a log whose last record is
    torn.  The store refuses to open with an error (it used to panic: F8); recorded, not judged."""
    d = os.path.join(work, "torn")
    shutil.rmtree(d, ignore_errors=True)
    os.makedirs(d)
    run_session(exe, d, [], ["put 6b31 7631", "put 6b32 7632"])
    logs = [f for f in os.listdir(os.path.join(d, "db")) if f.startswith("log.")]
    out = "no-log"
    if logs:
        p = os.path.join(d, "db", logs[0])
        with open(p, "r+b") as fh:
            fh.truncate(max(0, os.path.getsize(p) - 5))
        so = SessionOut(run_session(exe, d, [], ["getall 6b31,6b32"]))
        out = so.open
    shutil.rmtree(d, ignore_errors=True)
    return out


def small_buffer_probe(exe, work):
    """outside the model's assumption (informational, not judged): with a log write buffer smaller than a
    frame the header and the body of one append are separate write() calls; what does a crash between
    them do to the next open?"""
    d = os.path.join(work, "smallbuf")
    shutil.rmtree(d, ignore_errors=True)
    os.makedirs(d)
    opts = ["--log-write-buffer", "16"]
    tr = os.path.join(d, "t.trace")
    run_session(exe, d, opts, ["put 6b31 %s" % ("76" * 40), "put 6b32 %s" % ("77" * 40)], trace=tr)
    evs, _ = F.parse_trace(tr, os.path.join(d, "db"), "db")
    fs, per_put, cur, img = F.PyFS(), [], None, None
    for ev in evs:
        if ev.marker:
            t = ev.marker.split(" ")
            if t[1] == "S":
                cur = 0
            elif t[1] == "A" and cur is not None:
                per_put.append(cur)
                cur = None
            continue
        if ev.kind is None:
            continue
        if ev.kind == "write" and (ev.p1 or "").startswith("log.") and cur is not None:
            if len(per_put) == 1 and cur == 1 and img is None:
                img = fs.image("a")         # the second put's header is written, its body is not
            cur += 1
        fs.apply(ev)
    res = "not reached"
    if img is not None:
        d2 = os.path.join(work, "smallbuf_img")
        shutil.rmtree(d2, ignore_errors=True)
        os.makedirs(d2)
        img.materialise(os.path.join(d2, "db"))
        res = SessionOut(run_session(exe, d2, opts, ["getall 6b31,6b32"])).open
        shutil.rmtree(d2, ignore_errors=True)
    shutil.rmtree(d, ignore_errors=True)
    return "with --log-write-buffer 16 the puts issued %s write() calls to the log; process death between the two writes of the second put: reopen -> %s" % (per_put, res)


def run(chk):
    ok_proof, info = vlib.proof_stage(chk, PROPS, MODULE, const_areas=("Crash", "Lsm"), pins_rel="pins/C02.v")
    exe, mx = build()
    _, head = vlib.sh(["git", "-C", vlib.REPO, "rev-parse", "--short", "HEAD"])
    _, dirty = vlib.sh(["git", "-C", vlib.REPO, "status", "--porcelain", "--", "lsmtk", "sst", "mani"])
    rng = vlib.Rng(chk.seed * 1000003 + 2)
    n_hist = 30 if chk.tier == "quick" else 160
    jobs, names = [], []
    corpus_dir = os.path.join(vlib.VERIF, "corpus", "C02")
    if os.path.isdir(corpus_dir):
        for fn in sorted(os.listdir(corpus_dir)):
            if fn.endswith(".json"):
                c = json.load(open(os.path.join(corpus_dir, fn)))
                optname = c.get("options", "small-files")
                ops = ops_from_json(c["history"])
                jobs.append((exe, mx, optname, dict(OPTION_SETS)[optname], ops, "c%d" % len(jobs), c.get("tier", "quick"), chk.seed * 7919 + len(jobs), c.get("faults")))
                names.append(("corpus_" + fn[:-5], optname, ops))
    for i in range(n_hist):
        optname, opts = OPTION_SETS[i % len(OPTION_SETS)]
        ops = gen_history(rng.fork(), rng.choice([12, 20, 30, 90, 180] if chk.tier == "quick" else [16, 30, 45, 120, 300]))
        jobs.append((exe, mx, optname, opts, ops, "h%d" % i, chk.tier, rng.u64(), None))
        names.append(("h%d" % i, optname, ops))
    # big-log family: a frame ending 1 byte short of a 1 MiB boundary (one padding byte), and other distances
    rs = [1] + [rng.choice([0] + list(range(2, 21))) for _ in range(2)] if chk.tier == "quick" else list(range(0, 21)) + [1, 19, 20]
    for j, r in enumerate(rs):
        ops = gen_biglog(rng.fork(), r, blocks=2 if (chk.tier != "quick" and j >= 21) else 1)
        js = rng.u64()
        if ops is not None:
            jobs.append((exe, mx, "defaults", [], ops, "big%d" % j, chk.tier, js, None))
            names.append(("biglog_r%d_%d" % (r, j), "defaults", ops))
    # every history has a deadline and so has the whole run: a stuck worker cannot hold it
    t0 = time.monotonic()
    total = 540.0 if chk.tier == "quick" else 5 * 3600.0
    per = 300.0 if chk.tier == "quick" else 3600.0
    pool = multiprocessing.Pool(min(len(jobs), max(2, vlib.NCPU - 2)))
    try:
        handles = [pool.apply_async(_job, (j,)) for j in jobs]
        results = []
        for j, hd in zip(jobs, handles):
            left = max(1.0, min(per + (time.monotonic() - t0), total) - (time.monotonic() - t0))
            try:
                results.append(hd.get(timeout=left))
            except multiprocessing.TimeoutError:
                results.append(Stuck("history %s did not finish within the limit (%d s into the run)" % (j[5], time.monotonic() - t0)))
            except Exception as ex:
                results.append(Stuck("history %s: the worker failed: %r" % (j[5], ex)))
    finally:
        pool.terminate()
        pool.join()
    torn = torn_log_probe(exe, chk.work)
    smallbuf = small_buffer_probe(exe, chk.work)

    known = {k[1]: k[2] for k in vlib.known_findings("C02") if k[0] == "known"}
    stats = {}
    reported, corr_only, nontrivial = 0, [], set()
    for (name, optname, ops), r in zip(names, results):
        for k, v in r.stats.items():
            if isinstance(v, dict):
                d = stats.setdefault(k, {})
                for kk, vv in v.items():
                    d[kk] = d.get(kk, 0) + vv
            else:
                stats[k] = stats.get(k, 0) + v
        for nt in r.outside_notes[:1]:
            if len(chk.notes) < 4:
                chk.notes.append("outside C02 (fault-free failure, reported to C01/C20): " + nt + " in " + name)
        if r.stats["flushes"] >= 1 and r.stats["probes"] >= 4:
            nontrivial.add(json.dumps(ops_to_json(ops))[:3000])
        for cls, what in r.known:
            if cls in known:
                chk.known(cls, known[cls])
            else:
                r.problems.append({"kind": "prop", "what": "unlisted known-class event " + cls + ": " + what})
        props = [p for p in r.problems if p["kind"] == "prop"]
        corrs = [p for p in r.problems if p["kind"] == "corr"]
        for q in corrs:
            if ("could not decide" in q["what"] or "did not finish" in q["what"] or "worker failed" in q["what"]) and len(chk.notes) < 8:
                chk.notes.append("deadline: %s (%s, %d ops)" % (q["what"][:200], name, len(ops)))
                print("   NOTE deadline: %s (%s, %d ops)" % (q["what"][:200], name, len(ops)))
        if props:
            if reported < 3:
                p = props[0]
                chk.violation("c02_%s.json" % name, {"kind": "property", "what": p["what"], "problem": p, "options": optname,
                                                     "history": ops_to_json(ops), "more_problems": [q["what"] for q in props[1:6]],
                                                     "replay_cmd": "./bin/check C02 --replay <this file>"})
            reported += 1
        elif corrs:
            corr_only.append({"history": name, "options": optname, "problems": corrs[:4], "ops": ops_to_json(ops)[:60]})
    # ---- stage open-fault (checks/c02_fault.py): EIO at every system call of KeyValueStore::open
    okl, outl, (lsm_exe,) = vlib.cargo_build(["lsm"])
    if not okl:
        raise RuntimeError("harness build failed (lsm):\n" + outl[-2000:])
    with multiprocessing.Pool(max(2, vlib.NCPU - 2)) as fpool:
        of_cov, of_bad = c02_fault.run_stage(chk, lsm_exe, lambda f, a: fpool.map(f, a, chunksize=1))
    for b in of_bad:
        if reported < 3:
            chk.violation("c02_%s.json" % b["name"], {"kind": "property", "what": b["problems"][0]["what"] + " - " + b["problems"][0]["fault"], "problem": b,
                                                      "replay_cmd": "./bin/check C02 --replay <this file>"})
            reported += 1
    chk.coverage.update({
        "open_fault_stage": of_cov,
        "evaluations": stats.get("probes", 0) + of_cov["faulted_opens"], "distinct_nontrivial": len(nontrivial),
        "rule": "one evaluation = one crash image (or one directory left by an injected fault / a real SIGKILL) reopened by a fresh process of the real store and read back (point reads of a key universe, full range scan, every live sst entry by entry); histories = random single-stepped puts/deletes/batches over an adversarial key universe, flushes, compaction steps, reopens, from one SplitMix64 seed, under 4 option sets (tiny files, few files per compaction, manifest rollover at every edit, defaults); quick tier samples the crash points of every operation (about 1 in 3..5) under both crash models, thorough takes every one; non-trivial = a history with at least one flush and four reopened images; distinct = distinct op lists",
        "samples": [ops_to_json(names[-1][2])[:10]],
        "input_distribution": stats,
        "histories": len(results),
        "repo_head_at_build": head.strip(), "repo_uncommitted_at_build": [ln.strip() for ln in dirty.splitlines() if ln.strip()],
        "traces_validated_against_impl": stats.get("ops", 0) + stats.get("sessions", 0),
        "correspondence": "per operation: the strace-recorded mutating calls (create/write/fsync/link/rename/unlink/mkdir/rmdir) vs the calls of the extracted model, names unified; per crash point: entries recovered by the real store vs the model's prediction vs the acknowledgement record",
        "disagreements_impl_vs_model": len(corr_only), "disagreements_impl_vs_spec": reported,
        "small_write_buffer_probe_outside_model": smallbuf,
        "torn_log_probe_outside_quantifier": "open of a store whose log was cut inside a record: %s (F8 repaired: an error, not a panic)" % torn,
        "trusted_base": [
            "Coq 8.16.1 kernel (coqc, full .vo build)",
            "extraction via ExtrOcamlBasic + ocaml/crash/mx_crash.ml",
            "harness/src/bin/c02.rs and the cfg(blue_verif) single-step hooks of lsmtk; strace (recording, SIGKILL and errno injection)",
            "checks/c02_fs.py: strace parser and inode-level replay of the recorded calls into crash images (validated on every run against directories left by real SIGKILLs)",
            "OS semantics as modelled: completed calls atomic and ordered; directory operations durable on return; file data durable up to the last successful fsync/fdatasync; loss at write()-call granularity",
            "manifest internals (rollover, backups) per C13; byte formats per C10/C12; setsum collisions excluded",
        ],
    })
    chk.assumptions = ["single-stepped execution: no operation runs concurrently with another (C06/C07/C20 treat concurrency)",
                       "a log append is ONE write(): true while LogOptions.write_buffer holds a whole frame (default 2 MiB against frames of at most 1 MiB; the histories use the default and 4096); below that header and body are separate calls and a crash between them tears the record (probe recorded)",
                       "the unit of loss is a whole write() call; torn writes are C09's subject (F8 probe recorded)",
                       "every step of every history is evaluated against the theorems' `accepted` (extracted acceptedb): write batches name each key once; a compaction - merging or garbage-collecting - has live inputs, outputs that hold only entries of the inputs, and leaves what every key reads as unchanged (that it does so on the real tree is C05's theorem; here it is checked step by step, rejections counted in accepted_rejections)",
                       "after a surfaced I/O error the model goes on in lock step when the error left every file recovery reads unchanged (same_relb: the write() of a log append, the first call of a flush, a compaction before its first hard link) and for the refusals that follow (writes on a failed log, flushes of a dead memtable thread); past other errors (a failed fdatasync of the log or of the manifest, a flush past its rollover, a compaction past its first link) the running store is judged against the specification only; a fully traced faulted session can only address calls of the main thread (strace counts injections per thread), so errors inside the memtable thread are judged without the model too"]
    if torn == "PANIC":
        chk.notes.append("F8 regression: open of a torn log panics again")
    if reported == 0 and (corr_only or not ok_proof):
        chk.violation("c02_unproved.json", {"kind": "no-failing-input-found", "broken": info.get("broken", []),
                                            "correspondence": corr_only[:3]}, no_input=True)


def replay(path):
    obj = json.load(open(path))
    print(json.dumps({k: obj[k] for k in obj if k != "history"}, indent=1)[:4000])
    if obj.get("problem", {}).get("stage") == "open-fault":
        okl, outl, (lsm_exe,) = vlib.cargo_build(["lsm"])
        r = c02_fault.run_case((lsm_exe, os.path.join(vlib.WORK, "C02-replay"), 0, 1, obj["problem"]["script"]))
        print("problems now:", json.dumps(r["problems"][:6], indent=1)[:4000])
        return 1 if r["problems"] else 0
    if "history" not in obj:
        return 1
    exe, mx = build()
    ops = ops_from_json(obj["history"])
    optname = obj.get("options", "small-files")
    h = History(exe, mx, optname, dict(OPTION_SETS)[optname], ops, "replay", "thorough", vlib.Rng(1))
    h.run()
    props = [p for p in h.problems if p["kind"] == "prop"]
    print("problems now:", json.dumps(props[:5], indent=1, default=str)[:4000])
    print("correspondence:", json.dumps([p for p in h.problems if p["kind"] == "corr"][:3], indent=1, default=str)[:2000])
    return 1 if props else 0
