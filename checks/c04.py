"""C04 — one setsum covers all data: manifest, files and contents always balance.

Decided by: theorems of coq/theories/Books/Props_C04.v over an executable model (Books/Model.v) of
the setsum bookkeeping of lsmtk (apply_manifest_ingest / apply_manifest_compaction / recover_one /
compaction_finish / from_manifest / the memtable checksum check) and of the offline verifier
(verify_one, verify_gc, ManifestVerifier::verify, chaining through the verify manifest's 'O'),
tied to the code by replaying single-stepped histories of the real KeyValueStore in lock step on
the extracted model after EVERY manifest transaction, by the direct oracle (the property computed
independently in Python from the real manifest fragments and the real files' entries), by the real
LsmVerifier run on the live directory, and by tamper / malformed-input campaigns on copies of real
directories (real verifier vs model vs what the property demands)."""
import collections
import json
import os
import re

import c04_crash as C
import c04_lib as L
import c04_race as RC
import c04_run as R
import c04_tamper as T
import vlib

META = {
    "category": "proof",
    "text": "Coq theorems (Books/Props_C04.v, closed under the global context) over an executable model of lsmtk's manifest transactions and offline verifier, for ALL histories (flush, merging compaction, GC, trivial move, reopen with log recovery; any entries, any cut of the outputs into files, a manifest rollover after any edit): the manifest lists exactly the tree's files, recorded O = sum of the listed setsums = C14-setsum of all entries stored, every file name = setsum recomputed from its entries, every transaction I = O + D with D = sum(removed) - sum(added) and I_n = O_(n-1) across fragments and roll-ups; none of the store's own balance checks/asserts can fire; LsmVerifier (verify_one chained over fragments incl. the GC replay verify_gc) and ManifestVerifier accept every such history; in any balanced log a change of one of I/O/D/an added/a removed digest of one transaction (or of a roll-up's O) is rejected with an error, also stated on the hex STRINGS the manifest holds: one character at any of the 64 positions of any recorded digest replaced by a hex digit of another value parses to a different canonical setsum and the pass is rejected; every accepted history of the C01 model (Lsm/History.v, incl. ingests, GCs and reopens), mapped by Books/Bridge.v, runs in the Books model and its books balance (C04_lsm_histories_balance, hypotheses = the boolean bridge_okb); altering one entry of one output changes its setsum OUTSIDE the known class setsum-framing-collision (sst::Setsum frames a put without length prefixes, so different entries can have one frame and then one setsum for any hash: C04_entry_tamper_framing_collision_refuted) under the stated hypothesis that the hash is injective and non-zero on the frames involved, so the store refuses the compaction and the verifier the log; an in-place change of an added sst's entries is rejected since the verifier recomputes every added sst's setsum (fix 671f80f); what the verifier does not look at is stated (I, D and added digests of a roll-up; the two newest fragments of a pass). Tied to the code by lock-step replay of real single-stepped histories on the extracted model after every transaction, an independent Python recomputation of the property from the real fragments and files, the real verifier on live directories, tamper/malformed campaigns on copies, SIGKILL crash points (oracle only), and a concurrent stage (real compaction threads racing with ingesting threads; the recorded manifest history audited by the oracle and the extracted verifier) that validates the model's atomic-commit assumption.",
    "note": "Trusted: Coq kernel; extraction (ExtrOcamlBasic) + ocaml/books driver (SHA3-256 digests and the collector's answers are tables filled by the check; u64 parsing of 'L' is in the driver); harness c04 + lsmtk hooks (cfg blue_verif single-step/dump); Python hashlib SHA3-256; checks/c04_*.py. Modelled, not verified here: the merging cursor as a sort of distinct (key,timestamp) pairs (C11), the collector as an arbitrary function (C05), the multi-builder's cuts and mani's rollover rule as per-step inputs (C10/C13), level placement (the tree is a multiset of files), the file system: trash/unlink/backoff protocol of the verifier is C08's subject (files are looked up by name). The theorems assume no setsum collision between different files (checked per step: `accepted`). Not checked by the verifier, and stated as a theorem: I and D of a roll-up edit. Fixed findings: F17 (bc4e529), F18 (48c731b), C12's WriteBatch setsum (573d7cf), in-place entry tamper unverified (671f80f). Known class: setsum-framing-collision (format change needed). The model's verifier takes parsed edits: a manifest line that fails its crc32c is refused by the reader (C13's theorem) and the campaign checks that both real verifiers turn that into a rejection.",
}

PROPS = "theories/Books/Props_C04.v"
MODULE = "Books.Props_C04"

UNIVERSE = [b"", b"a", b"a\x00", b"ab", b"abc", b"b", b"ba", b"\xff", b"k1", b"k2", b"k3", b"k4", b"k5", b"k6", b"k7", b"k8"]
OPTION_SETS = [
    ("tiny-files", ["--sst-target-file-size", "150", "--sst-minimum-file-size", "60", "--sst-target-block-size", "64"]),
    ("small-files", ["--sst-target-file-size", "400", "--sst-minimum-file-size", "200", "--sst-target-block-size", "128"]),
    ("few-files-per-compaction", ["--sst-target-file-size", "300", "--sst-minimum-file-size", "100", "--sst-target-block-size", "96", "--max-compaction-files", "4"]),
    ("eager-rollover", ["--sst-target-file-size", "200", "--sst-minimum-file-size", "80", "--sst-target-block-size", "64", "--mani-log-rollover-ratio", "1"]),
    # the manifest rolls over on open only: long live fragments, in which a name removed by an old
    # fragment is re-created and removed again while the verifier is still behind
    ("rollover-on-open-only", ["--sst-target-file-size", "120", "--sst-minimum-file-size", "50", "--sst-target-block-size", "64", "--mani-log-rollover-ratio", "1000000"]),
]
BASE_OPTS = ["--memtable-size-bytes", "100000000", "--l0-write-stall-threshold-files", "100000",
             "--l0-write-stall-threshold-bytes", "100000000000"]


def gen_history(rng, n_ops, universe):
    ops = []
    hot = [rng.choice(universe) for _ in range(4)]
    for _ in range(n_ops):
        r = rng.below(100)
        if r < 46:
            k = rng.choice(hot) if rng.chance(1, 2) else rng.choice(universe)
            ops.append(("w", [(k, None if rng.chance(1, 4) else rng.bytes(rng.choice([0, 1, 3, 8, 20, 60])))]))
        elif r < 54:
            keys = [rng.choice(universe) for _ in range(rng.range(2, 5))]
            ops.append(("w", [(k, None if rng.chance(1, 4) else rng.bytes(rng.choice([0, 2, 10, 40]))) for k in keys]))
        elif r < 68:
            ops.append(("flush",))
        elif r < 72:
            # several small L0 files before the selector runs: merging compactions out of level 0
            for _ in range(rng.range(3, 6)):
                for _ in range(rng.range(1, 4)):
                    k = rng.choice(hot) if rng.chance(2, 3) else rng.choice(universe)
                    ops.append(("w", [(k, None if rng.chance(1, 4) else rng.bytes(rng.choice([0, 1, 8, 30])))]))
                ops.append(("flush",))
        elif r < 86:
            ops.append(("compact", rng.choice([1, 2, 4, 16, 40, 80])))
        elif r < 91:
            ops.append(("reopen",))
        elif r < 93:
            # a restart that finds two logs (death during a flush after the new memtable took writes)
            keys = [rng.choice(universe) for _ in range(rng.range(1, 3))]
            ops.append(("reopen2", [(k, None if rng.chance(1, 4) else rng.bytes(rng.choice([0, 2, 9]))) for k in dict.fromkeys(keys)]))
        else:
            ops.append(("verify",))
    return ops


def gen_recreate(rng, universe):
    """directed: a name (an external sst X, ingested through LsmTree::ingest) is collected, and after
    two reopens ingested and collected AGAIN while its second life is recorded in the live manifest
    only; verifier passes in between and after two more reopens (the trash entry of the second
    removal must survive the pass that judges the first).  Noise around every stage."""
    ops = []
    k = rng.choice(universe[1:])
    xs = [(k, rng.choice([1, 2]), rng.bytes(rng.choice([0, 1, 5])))]
    if rng.chance(1, 3):
        xs.append((k + b"x", 1, rng.bytes(2)))

    def noise(n):
        for _ in range(n):
            r = rng.below(10)
            if r < 6:
                kk = k if rng.chance(1, 2) else rng.choice(universe)
                ops.append(("w", [(kk, None if rng.chance(1, 5) else rng.bytes(rng.choice([0, 1, 8])))]))
            elif r < 8:
                ops.append(("flush",))
            else:
                ops.append(("compact", rng.choice([2, 40])))

    def life():
        ops.append(("ingest", list(xs)))
        noise(rng.range(0, 4))
        ops.append(("w", [(e[0], rng.bytes(3)) for e in xs]))      # newer versions: X becomes garbage
        ops.append(("flush",))
        ops.append(("compact", 80))
        noise(rng.range(0, 3))
        ops.append(("flush",))
        ops.append(("compact", 80))

    noise(rng.range(0, 5))
    life()
    if rng.chance(1, 3):
        ops.append(("verify",))
    ops.append(("reopen",))
    noise(rng.range(0, 3))
    ops.append(("reopen",))
    life()
    ops.append(("verify",))
    noise(rng.range(0, 3))
    ops.append(("reopen",))
    ops.append(("reopen",))
    ops.append(("verify",))
    ops.append(("reopen",))
    ops.append(("verify",))
    return ops


def ops_to_json(ops):
    out = []
    for op in ops:
        if op[0] in ("w", "reopen2"):
            out.append([op[0], [[k.hex(), None if v is None else v.hex()] for k, v in op[1]]])
        elif op[0] == "ingest":
            out.append(["ingest", [[k.hex(), ts, None if v is None else v.hex()] for k, ts, v in op[1]]])
        else:
            out.append(list(op))
    return out


def ops_from_json(js):
    out = []
    for op in js:
        if op[0] in ("w", "reopen2"):
            out.append((op[0], [(bytes.fromhex(k), None if v is None else bytes.fromhex(v)) for k, v in op[1]]))
        elif op[0] == "ingest":
            out.append(("ingest", [(bytes.fromhex(k), ts, None if v is None else bytes.fromhex(v)) for k, ts, v in op[1]]))
        else:
            out.append(tuple(op))
    return out


class Summary:
    pass


def run_history(c04_exe, mx_exe, optname, versions, ops, tag, tamper_budget, tamper_seed, exhaustive, num_levels):
    opts = BASE_OPTS + dict(OPTION_SETS)[optname] + ["--gc-policy", "versions=%d" % versions]
    run = R.Run(c04_exe, mx_exe, opts, tag, versions, num_levels)
    tstats = collections.Counter()
    tproblems = []
    tknown = {}
    import time
    t0 = time.time()
    try:
        for op in ops:
            if run.dead:
                break
            if op[0] == "w":
                run.write(op[1])
            elif op[0] == "flush":
                run.flush()
            elif op[0] == "ingest":
                run.ingest(op[1])
            elif op[0] == "compact":
                for _ in range(op[1]):
                    if not run.compact():
                        break
            elif op[0] == "reopen":
                run.reopen()
            elif op[0] == "reopen2":
                run.reopen_after_flush_crash(op[1])
            elif op[0] == "verify":
                run.verify()
        if not run.dead and not run.problems:
            # two more sessions so that the fragments written so far become the verifier's to judge
            run.reopen()
            if not run.dead:
                run.reopen()
            run.stats["t_history"] = round(time.time() - t0, 2)
            t1 = time.time()
            if not run.dead and tamper_budget:
                camp = T.Campaign(run, vlib.Rng(tamper_seed), tstats)
                camp.go(tamper_budget, exhaustive)
                tproblems = camp.problems
                tknown = dict(camp.known)
                run.stats["t_tamper"] = round(time.time() - t1, 2)
            if not run.dead:
                run.verify(2)
            if not run.dead:
                # everything once more, nothing cached: every fragment, every file of sst/ and trash/
                ins, _ = run.sync("end of history", full=True)
                run.compare_model(ins, "end of history")
    finally:
        run.finish()
        run.cleanup()
    s = Summary()
    s.problems = run.problems + tproblems
    s.stats, s.tstats, s.events, s.outside = run.stats, dict(tstats), run.events[-12:], run.outside
    s.known = tknown
    return s


def _job(args):
    try:
        return run_history(*args)
    except Exception as ex:      # machinery failure: reported, never swallowed
        s = Summary()
        s.problems = [{"kind": "machinery", "what": "exception in the check: %r" % (ex,)}]
        s.stats, s.tstats, s.events, s.outside = {}, {}, [], None
        s.known = {}
        return s


def run_many(jobs):
    import multiprocessing
    with multiprocessing.Pool(min(len(jobs), max(2, vlib.NCPU - 2))) as pool:
        return pool.map(_job, jobs, chunksize=1)


# ---------------------------------------------------------------- the log's running setsum (flush path)
def log_cases(rng, n):
    cases = []
    for _ in range(n):
        batches = []
        ts = 1
        for _ in range(rng.range(1, 4)):
            b = []
            big = rng.chance(1, 3)
            for _ in range(rng.range(1, 40 if big else 6)):
                k = rng.choice(UNIVERSE[1:])
                if rng.chance(1, 5):
                    b.append("%s:%d:~" % (k.hex(), ts))
                else:
                    b.append("%s:%d:%d" % (k.hex(), ts, rng.choice([0, 1, 17, 32767, 32768, 32769]) if big else rng.choice([0, 1, 5, 100])))
                ts += 1
            batches.append(",".join(b))
        cases.append(";".join(batches))
    return cases


def eval_log_case(tool, spec, work):
    out = tool.cmd("logsum %s %s" % (os.path.join(work, "c04.log"), spec))[0]
    t = out.split(" ")
    if t[0] != "LOGSUM" or t[1] == "err":
        return None, out
    d = dict(x.split("=", 1) for x in t[1:])
    ents = []
    for e in [x for x in d["accepted"].split(",") if x]:
        k, ts, v = e.split(":")
        ts = int(ts)
        ents.append((bytes.fromhex(k), ts, None if v == "~" else bytes([ts % 251]) * int(v)))
    mine = L.ss_hex(L.ss_of_entries(ents))
    ok = d["seal"] == d["file"] == mine
    return ok, {"spec": spec[:300], "seal": d["seal"], "file": d["file"], "python": mine, "refused": d["refused"]}


def source_literals():
    """the framing bytes of sst/src/setsum.rs are retyped in Books/Model.v: cross-check the text"""
    src = open(os.path.join(vlib.REPO, "sst", "src", "setsum.rs")).read()
    put = re.search(r"fn put\(.*?insert_vectored\(&\[&\[(\d+)\]", src, re.S)
    dele = re.search(r"fn del\(.*?insert_vectored\(&\[&\[(\d+)\]", src, re.S)
    return (put and put.group(1) == "8") and (dele and dele.group(1) == "9")


def run(chk):
    ok_proof, info = vlib.proof_stage(chk, PROPS, MODULE, const_areas=("Books", "Setsum", "Lsm"), pins_rel="pins/C04.v")
    rc, out = vlib.sh(["python3", os.path.join(vlib.VERIF, "tools", "constants.py"), "Setsum", "Books", "--json"])
    consts = json.loads(out.strip().splitlines()[-1])
    L.PRIMES = consts["Setsum"]["SETSUM_PRIMES"]
    num_levels = consts["Books"]["BOOKS_NUM_LEVELS"]
    if not source_literals():
        info["broken"].append("sst/src/setsum.rs no longer frames put/del with the literals 8/9 the model retypes")
        ok_proof = False

    okx, outx = vlib.coq_make(["theories/Books/Extract.vo"])
    okm, outm, mx = vlib.ocaml_build("books", "mx_books")
    okh, outh, (c04_exe,) = vlib.cargo_build(["c04"])
    if not (okx and okm):
        raise RuntimeError("model build failed:\n" + outx[-1500:] + outm[-1500:])
    if not okh:
        raise RuntimeError("harness build failed (does /repo still compile?):\n" + outh[-3000:])

    quick = chk.tier == "quick"
    rng = vlib.Rng(chk.seed * 1000003 + 4)

    # ---- phase A: the log's running setsum (what the flush compares the sst against)
    tool = L.Tool(c04_exe)
    log_bad, n_log = [], 0
    corpus_dir = os.path.join(vlib.VERIF, "corpus", "C04")
    corpus = []
    if os.path.isdir(corpus_dir):
        for fn in sorted(os.listdir(corpus_dir)):
            if fn.endswith(".json"):
                corpus.append((fn, json.load(open(os.path.join(corpus_dir, fn)))))
    specs = [("corpus:" + fn, c["logsum"]) for fn, c in corpus if "logsum" in c]
    specs += [("gen", s) for s in log_cases(rng.fork(), 40 if quick else 1500)]
    # the framing collision (known finding): two different puts with one frame, built by the real builder
    known_text = {k[1]: k[2] for k in vlib.known_findings("C04") if k[0] == "known"}
    known_hits = collections.Counter()
    for fn, c in corpus:
        if "framing_pair" in c:
            names = []
            for e in c["framing_pair"]:
                ent = (bytes.fromhex(e[0]), int(e[1]), None if e[2] is None else bytes.fromhex(e[2]))
                b = tool.cmd("build %s %s" % (os.path.join(chk.work, "framing.sst"), L.ent_tok(ent)))[0].split(" ")
                names.append((b[1] if b[0] == "BUILT" else "?", L.ss_hex(L.ss_of_entries([ent])), L.item_of(ent).hex()))
            n_log += 1
            if names[0][0] != names[0][1] or names[1][0] != names[1][1]:
                log_bad.append({"tag": "corpus:" + fn, "what": "SstBuilder's setsum differs from the Python computation", "names": names})
            elif names[0][0] == names[1][0]:
                known_hits["setsum-framing-collision"] += 1      # two different entries, one file name
    refused_seen = 0
    for tag, spec in specs:
        ok, d = eval_log_case(tool, spec, chk.work)
        n_log += 1
        if ok is None:
            log_bad.append({"tag": tag, "what": "logsum failed", "out": d})
        else:
            refused_seen += int(d["refused"])
            if not ok:
                log_bad.append(dict(d, tag=tag, what="LogBuilder::seal's setsum / log_to_setsum / setsum of the accepted entries differ"))
    tool.close()

    # ---- phase B: histories
    n_hist = 60 if quick else 480
    jobs, names = [], []
    for fn, c in corpus:
        if "history" in c:
            ops = ops_from_json(c["history"])
            jobs.append((c04_exe, mx, c.get("options", "tiny-files"), c.get("versions", 1), ops, "c%d" % len(jobs), c.get("tamper_budget", 6), c.get("tamper_seed", 7), False, num_levels))
            names.append(("corpus_" + fn[:-5], c.get("options", "tiny-files"), c.get("versions", 1), ops, c.get("tamper_budget", 6), c.get("tamper_seed", 7), False))
    for i in range(n_hist):
        optname = OPTION_SETS[i % len(OPTION_SETS)][0]
        versions = rng.choice([1, 1, 2, 3])
        universe = UNIVERSE[:rng.choice([6, 10, 16])]
        if i % 5 == 4:
            # directed re-creation histories; the manifest rolls over on open only, so that the second
            # life of the name is recorded in the live manifest when the verifier judges the first
            optname = "rollover-on-open-only"
            versions = 1      # the first life of the name has to end in a collection
            ops = gen_recreate(rng.fork(), universe)
        else:
            ops = gen_history(rng.fork(), rng.choice([60, 120, 240]), universe)
        exhaustive = (not quick) and i % 40 == 0
        tseed = rng.u64()
        jobs.append((c04_exe, mx, optname, versions, ops, "h%d" % i, 12 if quick else 24, tseed, exhaustive, num_levels))
        names.append(("h%d" % i, optname, versions, ops, 12 if quick else 24, tseed, exhaustive))
    results = run_many(jobs)

    # ---- phase C: crash points (oracle only)
    n_crash = 80 if quick else 1200
    cjobs = []
    for i in range(n_crash):
        opts = BASE_OPTS + OPTION_SETS[i % len(OPTION_SETS)][1] + ["--gc-policy", "versions=%d" % rng.choice([1, 2])]
        cjobs.append((c04_exe, opts, rng.u64(), "x%d" % i))
    cstats = collections.Counter()
    crash_bad = []
    for (pr, st), job in zip(C.run_many(cjobs, vlib.NCPU), cjobs):
        cstats.update(st)
        for p in pr:
            if p["kind"] == "machinery":
                raise RuntimeError("check machinery failed: %s" % json.dumps(p)[:500])
            crash_bad.append({"name": "crash", "options": job[1], "problem": p})

    # ---- phase D: the concurrent stage (real compaction threads racing with ingesting threads)
    race_stats = collections.Counter()
    race_bad = []
    race_rounds = []
    # (ingest threads, ssts per thread, keys per sst, compaction threads): many ingesting threads keep
    # the commit lock busy when the compaction thread reaches its commit; two compaction threads
    # race with each other as well
    shapes_q = [(8, 30, 24, 1), (3, 40, 16, 2)]
    shapes_t = shapes_q + [(4, 60, 24, 2), (2, 100, 8, 1), (4, 30, 48, 1), (3, 80, 4, 2), (4, 60, 24, 1), (6, 30, 16, 2),
                           (4, 60, 12, 2), (8, 40, 8, 1), (4, 80, 16, 1), (4, 40, 16, 3)]
    for ri, (nt, per, keys, nc) in enumerate(shapes_q if quick else shapes_t):
        params = {"ingest_threads": nt, "ssts_per_thread": per, "keys_per_sst": keys, "compaction_threads": nc, "seed": rng.u64() % (1 << 62)}
        ropts = [] if ri % 3 != 2 else OPTION_SETS[ri % len(OPTION_SETS)][1]
        pr, st, lines = RC.one_round(c04_exe, mx, params, ropts, "race%d" % ri)
        race_rounds.append(dict(params, options=ropts, **{k: st.get(k) for k in ("transactions", "compactions", "fragments")}))
        race_stats.update(st)
        for p in pr:
            if p["kind"] == "machinery":
                raise RuntimeError("check machinery failed: %s" % json.dumps(p)[:500])
        if pr:
            race_bad.append({"name": "race", "params": params, "options": ropts, "problems": pr[:10], "n_problems": len(pr), "race_lines": lines})

    steps, tstats = collections.Counter(), collections.Counter()
    prop_bad, corr_bad, mach_bad, outside = [], [], [], 0
    outside_reasons = collections.Counter()
    shapes = set()
    for (name, optname, versions, ops, tbudget, tseed, texh), r in zip(names, results):
        steps.update(r.stats)
        tstats.update(r.tstats)
        known_hits.update(r.known)
        if r.outside:
            outside += 1
            outside_reasons[re.sub(r"[0-9a-f]{16,}", "..", r.outside)[:120]] += 1
        replay = {"name": name, "options": optname, "versions": versions, "tamper_budget": tbudget, "tamper_seed": tseed, "tamper_exhaustive": texh,
                  "history": ops_to_json(ops), "events_tail": [list(e) for e in r.events]}
        for p in r.problems:
            if p["kind"] == "outside":
                continue
            entry = dict(replay, problem=p)
            if p["kind"] in ("property", "error"):
                prop_bad.append(entry)
            elif p["kind"] == "machinery":
                mach_bad.append(entry)
            else:
                corr_bad.append(entry)
        if r.stats.get("flush", 0) >= 2 and (r.stats.get("compact", 0) + r.stats.get("gc", 0)) >= 1:
            shapes.add(json.dumps(ops_to_json(ops))[:3000])

    chk.coverage.update({
        "evaluations": len(results) + n_log + tstats.get("cases", 0) + n_crash + len(race_rounds),
        "distinct_nontrivial": len(shapes) + tstats.get("cases", 0) + cstats.get("killed", 0) + len(race_rounds),
        "rule": "histories: random single-stepped sessions of the real KeyValueStore (puts/deletes/batches over an adversarial key universe, flush, bursts of real selector compactions, reopen, verifier passes on the live directory) under 4 option sets (tiny files, eager manifest rollover, few files per compaction) x GC policy versions=1..3, every manifest transaction compared with the model and with the Python oracle; non-trivial = >=2 flushes and >=1 merging compaction or GC; tamper cases: one digit of one digest / one entry of one output (rebuilt by the real builder) / in-place edits / malformed strings on a copy of the real directory, counted individually; log cases: WriteBatches with refused puts; crash cases: a real session killed by SIGKILL on entering the N-th write/fdatasync/fsync/rename/linkat/unlink (strace injection), the directory inspected before and after the next open (oracle only), counted when the kill happened; concurrent rounds: real compaction_thread()s racing with 2-4 threads that ingest overlapping external ssts (the commit of a compaction is not atomic in the real store), the recorded manifest history audited by the oracle and by the extracted verifier (every GC replayed)",
        "samples": [ops_to_json(names[-1][3])[:10]],
        "input_distribution": {"store_steps": dict(steps), "tamper_cases": dict(tstats), "crash_cases": dict(cstats), "concurrent_rounds": race_rounds, "concurrent_totals": dict(race_stats), "log_cases": n_log, "log_puts_refused": refused_seen,
                               "option_sets": [o[0] for o in OPTION_SETS], "histories_outside_model": outside, "outside_reasons": dict(outside_reasons)},
        "traces_validated_against_impl": len(results),
        "disagreements_impl_vs_model": len(corr_bad), "disagreements_impl_vs_spec": len(prop_bad) + len(log_bad) + len(crash_bad) + len(race_bad),
        "corpus_cases": len(corpus),
        "trusted_base": [
            "Coq 8.16.1 kernel (coqc, full .vo build); vm_compute only in the non-vacuity examples",
            "tools/constants.py (setsum primes, NUM_LEVELS re-extracted from /repo); literals 8/9 of sst/src/setsum.rs cross-checked by regex",
            "extraction via ExtrOcamlBasic (no Extract Constant of ours) + ocaml/books/mx_books.ml (hash and collector tables, u64 parse of 'L')",
            "harness/src/bin/c04.rs and the cfg(blue_verif) hooks in lsmtk (single-step, dump); real mani::ManifestIterator, sst readers, LsmVerifier, ManifestVerifier, SstBuilder, LogBuilder",
            "checks/c04*.py: Python hashlib SHA3-256 + integer arithmetic as the independent setsum; crc32c re-framing of patched manifest lines; Python reading of `versions = n` for the collector table",
            "not modelled: the verifier's trash/unlink/backoff protocol (C08), selector, recovery's level assignment, concurrency",
        ],
    })
    chk.assumptions = ["H (SHA3-256) is an arbitrary function returning 32 bytes; the entry-tamper theorems assume it separates the entries involved (explicit hypothesis hash_separates)",
                       "no setsum collision between different files of one history (checked per step)",
                       "a manifest transaction [snapshot the tree; record I/O/D; write the edit; install the version] is atomic in the model (I is read at the commit point); validated against real racing threads by the concurrent stage",
                       "single-stepped execution in the lock-step histories; crash points are covered by the oracle on real runs only (the model has no crash step; C02 owns crash-safety)",
                       "the collector is an arbitrary function of the merged input (C05 says which)"]
    if mach_bad:
        raise RuntimeError("check machinery failed: %s" % json.dumps(mach_bad[0]["problem"])[:500])
    for cls, n in sorted(known_hits.items()):
        if cls in known_text:
            for _ in range(n):
                chk.known(cls, known_text[cls][:300])
        else:
            # a class the check attributes inputs to must be listed in known_findings.txt
            prop_bad.append({"name": "unlisted_known_class", "options": "", "versions": 0, "history": [], "events_tail": [],
                             "problem": {"kind": "property", "what": "inputs fail inside class %s, which known_findings.txt does not list" % cls, "hits": n}})
    if prop_bad or log_bad or crash_bad or race_bad:
        for i, b in enumerate(race_bad[:2]):
            # a race cannot be replayed: the file carries the recorded manifest history and listing
            chk.violation("c04_race_%d.json" % i, dict(b, kind="property", replay_cmd="./bin/check C04 --replay <this file>  (re-audits the recorded history)"))
        for i, b in enumerate(crash_bad[:2]):
            chk.violation("c04_crash_%d.json" % i, dict(b, kind="property", replay_cmd="./bin/check C04 --replay <this file>"))
        for i, b in enumerate(prop_bad[:3]):
            chk.violation("c04_%s_%d.json" % (b["name"], i), dict(b, kind="property",
                          replay_cmd="./bin/check C04 --replay <this file>"))
        for i, b in enumerate(log_bad[:2]):
            chk.violation("c04_log_%d.json" % i, dict(b, kind="property", replay_cmd="echo 'logsum /tmp/x.log <spec>' | work/target/release/c04 tool"))
    elif corr_bad or not ok_proof:
        chk.violation("c04_unproved.json", {"kind": "no-failing-input-found", "broken": info.get("broken", []),
                                            "correspondence": corr_bad[:3]}, no_input=True)


def replay(path):
    obj = json.load(open(path))
    print(json.dumps({k: obj[k] for k in obj if k not in ("history", "race_lines")}, indent=1)[:4000])
    chk = vlib.Check("C04", "quick", 1)
    rc, out = vlib.sh(["python3", os.path.join(vlib.VERIF, "tools", "constants.py"), "Setsum", "Books", "--json"])
    consts = json.loads(out.strip().splitlines()[-1])
    L.PRIMES = consts["Setsum"]["SETSUM_PRIMES"]
    okm, outm, mx = vlib.ocaml_build("books", "mx_books")
    okh, outh, (c04_exe,) = vlib.cargo_build(["c04"])
    if obj.get("name") == "race":
        pr, st = RC.audit(obj["race_lines"], mx)
        print("re-audit of the recorded history:", st)
        print(json.dumps(pr[:10], indent=1)[:4000])
        return 1 if pr else 0
    if obj.get("name") == "crash":
        pr, st = C.crash_case(c04_exe, obj["options"], obj["problem"]["replay"]["seed"], "replay")
        print("now:", json.dumps(pr, indent=1)[:3000], st)
        return 1 if pr else 0
    if "history" not in obj:
        if "spec" in obj:
            tool = L.Tool(c04_exe)
            ok, d = eval_log_case(tool, obj["spec"], chk.work)
            print("now:", ok, d)
            return 0 if ok else 1
        return 1
    r = run_history(c04_exe, mx, obj.get("options", "tiny-files"), obj.get("versions", 1), ops_from_json(obj["history"]), "replay",
                    obj.get("tamper_budget", 10), obj.get("tamper_seed", 7), obj.get("tamper_exhaustive", False), consts["Books"]["BOOKS_NUM_LEVELS"])
    bad = [p for p in r.problems if p["kind"] != "outside"]
    print("problems now:", json.dumps(bad[:10], indent=1)[:4000])
    return 1 if bad else 0
