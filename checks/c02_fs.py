"""C02 support: strace record -> events, a small inode-level file system that replays them into
crash images, and the canonical form of the store's mutating calls (the vocabulary of Crash/Model.v)."""
import os
import re
import shutil

TRACE_SET = ("write,writev,pwrite64,fsync,fdatasync,link,linkat,rename,renameat,renameat2,unlink,unlinkat,"
             "mkdir,mkdirat,rmdir,openat,creat,ftruncate,truncate")

DIRS = {"": 0, "verify": 1, "sst": 2, "compaction": 3, "trash": 4, "ingest": 5, "tmp": 6, "mani": 7}


PUREHEX = re.compile(r"^(?:\\x[0-9a-f]{2})*$")
FASTWRITE = re.compile(r'^write\((\d+<[^>]*>), "((?:\\x[0-9a-f]{2})*)", (\d+)\)\s+=\s+(-?\d+)(.*)$')


def unesc(s):
    """strace -xx string literal body -> bytes"""
    if len(s) > 256 and PUREHEX.match(s):
        return bytes.fromhex(s.replace("\\x", ""))
    out = bytearray()
    i = 0
    while i < len(s):
        if s[i] == "\\" and i + 3 < len(s) + 0 and s[i + 1] == "x":
            out.append(int(s[i + 2:i + 4], 16))
            i += 4
        elif s[i] == "\\" and i + 1 < len(s):
            c = s[i + 1]
            out.append({"n": 10, "t": 9, "r": 13, "\\": 92, '"': 34, "0": 0}.get(c, ord(c)))
            i += 2
        else:
            out.append(ord(s[i]))
            i += 1
    return bytes(out)


def split_args(s):
    """top-level comma split of a syscall argument string"""
    args, depth, cur, inq = [], 0, [], False
    i = 0
    while i < len(s):
        c = s[i]
        if inq:
            cur.append(c)
            if c == "\\":
                cur.append(s[i + 1])
                i += 1
            elif c == '"':
                inq = False
        elif c == '"':
            inq = True
            cur.append(c)
        elif c in "([{<":
            depth += 1
            cur.append(c)
        elif c in ")]}>":
            depth -= 1
            cur.append(c)
        elif c == "," and depth == 0:
            args.append("".join(cur).strip())
            cur = []
        else:
            cur.append(c)
        i += 1
    if cur:
        args.append("".join(cur).strip())
    return args


def lit(a):
    """first string literal in an argument -> bytes (None if none)"""
    m = re.search(r'"((?:[^"\\]|\\.)*)"', a)
    return unesc(m.group(1)) if m else None


def fdpath(a):
    """`4<\\x2f..>` -> path string (None if no annotation)"""
    m = re.match(r"\s*-?\d+<(.*)>\s*$", a)
    if not m:
        return None
    return unesc(m.group(1)).decode("utf-8", "replace")


LINE = re.compile(r"^(\d+)\s+(.*)$")
CALL = re.compile(r"^([a-z_0-9]+)\((.*)\)\s+=\s+(-?\d+|\?)(.*)$", re.S)
UNFIN = re.compile(r"^([a-z_0-9]+)\((.*)<unfinished \.\.\.>$", re.S)
RESUMED = re.compile(r"^<\.\.\. ([a-z_0-9]+) resumed>(.*)\)\s+=\s+(-?\d+|\?)(.*)$", re.S)


class Ev:
    __slots__ = ("sys", "nth", "kind", "p1", "p2", "data", "failed", "pid", "marker", "flags", "pk", "tk", "injected")

    def __repr__(self):
        return "Ev(%s#%d %s %s %s%s)" % (self.sys, self.nth, self.kind, self.p1, self.p2 or "", " FAILED" if self.failed else "")


def parse_trace(path, root_abs, root_rel):
    """-> list of Ev in order of syscall ENTRY.  kind is None for calls outside the store directory
    or non-mutating ones.  Paths are relative to the store root ('' = the root itself).
    `pk` = how many calls of this syscall name THIS THREAD has made so far that touch path p1
    (this one included): strace counts `inject=..:when=N` per tracee and, with `-P path`, only over
    the calls touching that path, so (sys, p1, pk) addresses exactly this call in a re-run.
    `tk` = how many calls of this syscall name THIS THREAD has made so far, whatever they touch: the
    address of the call for an injection without -P (a full trace of the faulted run).
    `injected` = strace marked the call (INJECTED)."""
    pending = {}
    counts = {}
    pcounts = {}
    tcounts = {}

    def newev(name, pid):
        ev = Ev()
        ev.sys, ev.pid, ev.kind, ev.p1, ev.p2, ev.data, ev.failed, ev.marker, ev.flags, ev.pk = name, pid, None, None, None, None, False, None, None, 0
        counts[name] = counts.get(name, 0) + 1
        ev.nth = counts[name]
        tcounts[(pid, name)] = tcounts.get((pid, name), 0) + 1
        ev.tk = tcounts[(pid, name)]
        ev.injected = False
        return ev
    evs = []
    killed = False

    def rel(p):
        if p is None:
            return None
        if p.endswith(" (deleted)"):
            return None
        if p.startswith(root_abs + "/"):
            return p[len(root_abs) + 1:]
        if p == root_abs:
            return ""
        if p.startswith(root_rel + "/"):
            return p[len(root_rel) + 1:]
        if p == root_rel:
            return ""
        return None

    def finish(ev, name, args, ret, tail):
        ev.failed = ret.startswith("-") or ret == "?"
        ev.injected = "(INJECTED)" in (tail or "")
        a = split_args(args)
        try:
            if name in ("mkdir", "mkdirat"):
                p = lit(a[-2] if name == "mkdirat" else a[0])
                ev.p1 = rel(p.decode("utf-8", "replace"))
                ev.kind = "mkdir" if ev.p1 is not None else None
            elif name == "rmdir":
                ev.p1 = rel(lit(a[0]).decode("utf-8", "replace"))
                ev.kind = "rmdir" if ev.p1 is not None else None
            elif name in ("openat", "creat"):
                flags = a[2] if name == "openat" else "O_CREAT|O_WRONLY|O_TRUNC"
                p = lit(a[1] if name == "openat" else a[0]).decode("utf-8", "replace")
                ev.p1 = rel(p)
                ev.flags = flags
                if ev.p1 is not None and "O_CREAT" in flags:
                    ev.kind = "open"
            elif name in ("write", "writev", "pwrite64"):
                p = fdpath(a[0])
                if name == "writev":
                    data = b"".join(unesc(m) for m in re.findall(r'iov_base="((?:[^"\\]|\\.)*)"', args))
                else:
                    data = lit(a[1]) or b""
                if a[0].strip().startswith("1<") or a[0].strip() == "1":
                    if data.startswith(b"@@ "):
                        ev.marker = data.decode("utf-8", "replace").rstrip("\n")
                ev.p1 = rel(p)
                ev.data = data
                if ev.p1 is not None:
                    ev.kind = "write"
                    if not ev.failed and int(ret) != len(data):
                        ev.kind = "shortwrite"
            elif name in ("fsync", "fdatasync"):
                ev.p1 = rel(fdpath(a[0]))
                ev.kind = "sync" if ev.p1 is not None else None
            elif name in ("link", "linkat"):
                ps = [lit(x) for x in a if lit(x) is not None]
                ev.p1, ev.p2 = rel(ps[0].decode("utf-8", "replace")), rel(ps[1].decode("utf-8", "replace"))
                ev.kind = "link" if ev.p1 is not None and ev.p2 is not None else None
            elif name in ("rename", "renameat", "renameat2"):
                ps = [lit(x) for x in a if lit(x) is not None]
                ev.p1, ev.p2 = rel(ps[0].decode("utf-8", "replace")), rel(ps[1].decode("utf-8", "replace"))
                ev.kind = "rename" if ev.p1 is not None and ev.p2 is not None else None
            elif name in ("unlink", "unlinkat"):
                ps = [lit(x) for x in a if lit(x) is not None]
                q = ps[0].decode("utf-8", "replace")
                if name == "unlinkat" and not q.startswith("/") and fdpath(a[0]) is not None:
                    q = os.path.join(fdpath(a[0]), q)      # remove_dir_all unlinks relative to a directory fd
                ev.p1 = rel(q)
                if ev.p1 is not None:
                    ev.kind = "rmdir" if "AT_REMOVEDIR" in args else "unlink"
            elif name in ("ftruncate", "truncate"):
                ev.p1 = rel(fdpath(a[0])) if name == "ftruncate" else rel(lit(a[0]).decode("utf-8", "replace"))
                ev.kind = "truncate" if ev.p1 is not None else None
        except (IndexError, AttributeError, ValueError):
            ev.kind = "unparsed"
        for q in set(x for x in (ev.p1, ev.p2) if x is not None):
            key = (ev.pid, name, q)
            pcounts[key] = pcounts.get(key, 0) + 1
        ev.pk = pcounts.get((ev.pid, name, ev.p1), 0)

    with open(path, errors="replace") as fh:
        for raw in fh:
            m = LINE.match(raw.rstrip("\n"))
            if not m:
                continue
            pid, rest = int(m.group(1)), m.group(2)
            if rest.startswith("+++ killed") or rest.startswith("--- SIGKILL"):
                killed = True
                continue
            if rest.startswith("+++") or rest.startswith("---"):
                continue
            mu = UNFIN.match(rest)
            if mu:
                name = mu.group(1)
                ev = newev(name, pid)
                evs.append(ev)
                pending[pid] = (ev, mu.group(2))
                continue
            mr = RESUMED.match(rest)
            if mr:
                if pid in pending:
                    ev, head = pending.pop(pid)
                    finish(ev, mr.group(1), head + mr.group(2), mr.group(3), mr.group(4))
                continue
            if len(rest) > 4096 and rest.startswith("write("):
                mf = FASTWRITE.match(rest)
                if mf:
                    ev = newev("write", pid)
                    evs.append(ev)
                    ev.failed = mf.group(4).startswith("-")
                    ev.injected = "(INJECTED)" in rest[-80:]
                    ev.data = bytes.fromhex(mf.group(2).replace("\\x", ""))
                    ev.p1 = rel(fdpath(mf.group(1)))
                    if ev.p1 is not None:
                        ev.kind = "write" if ev.failed or int(mf.group(4)) == len(ev.data) else "shortwrite"
                        key = (pid, "write", ev.p1)
                        pcounts[key] = pcounts.get(key, 0) + 1
                        ev.pk = pcounts[key]
                    continue
            mc = CALL.match(rest)
            if mc:
                name = mc.group(1)
                ev = newev(name, pid)
                evs.append(ev)
                finish(ev, name, mc.group(2), mc.group(3), mc.group(4))
    # calls cut off by a kill never completed: they did not happen
    for pid, (ev, _) in pending.items():
        ev.kind = None
        ev.failed = True
    return evs, killed


# ---------------------------------------------------------------- inode-level file system
class Inode:
    __slots__ = ("data", "synced", "marks")

    def __init__(self, data=b"", synced=0, marks=None):
        self.data = bytearray(data)
        self.synced = synced
        self.marks = list(marks or [])      # file length after each write() call


class PyFS:
    def __init__(self):
        self.files = {}     # path -> Inode (hard links share the object)
        self.dirs = set()

    def clone(self):
        c = PyFS()
        memo = {}
        for p, nd in self.files.items():
            if id(nd) not in memo:
                memo[id(nd)] = Inode(bytes(nd.data), nd.synced, nd.marks)
            c.files[p] = memo[id(nd)]
        c.dirs = set(self.dirs)
        return c

    def apply(self, ev):
        """one completed, successful, mutating call"""
        k = ev.kind
        if ev.failed or k is None:
            return
        if k == "mkdir":
            self.dirs.add(ev.p1)
        elif k == "rmdir":
            self.dirs.discard(ev.p1)
        elif k == "open":
            if ev.p1 not in self.files:
                self.files[ev.p1] = Inode()
            elif "O_TRUNC" in (ev.flags or ""):
                nd = self.files[ev.p1]
                nd.data = bytearray()
                nd.synced = 0
        elif k in ("write", "shortwrite"):
            nd = self.files.get(ev.p1)
            if nd is not None:
                nd.data += ev.data
                nd.marks.append(len(nd.data))
        elif k == "sync":
            nd = self.files.get(ev.p1)
            if nd is not None:
                nd.synced = len(nd.data)
        elif k == "link":
            if ev.p1 in self.files:
                self.files[ev.p2] = self.files[ev.p1]
        elif k == "rename":
            if ev.p1 in self.files:
                self.files[ev.p2] = self.files.pop(ev.p1)
            elif ev.p1 in self.dirs:
                self.dirs.discard(ev.p1)
                self.dirs.add(ev.p2)
        elif k == "unlink":
            self.files.pop(ev.p1, None)
        elif k == "truncate":
            pass

    def image(self, mode, rng=None):
        """the state after the machine went down: mode 'a' keeps everything, mode 'b' cuts every
        inode to its last synced length, mode 'r' cuts every inode independently after some whole
        write() call at or beyond its synced length; afterwards everything is durable"""
        c = self.clone()
        seen = set()
        for p in sorted(c.files):
            nd = c.files[p]
            if id(nd) in seen:
                continue
            seen.add(id(nd))
            if mode == "b":
                del nd.data[nd.synced:]
            elif mode == "r":
                cuts = [nd.synced] + [m for m in nd.marks if m > nd.synced]
                del nd.data[cuts[rng.below(len(cuts))]:]
            elif mode == "l":
                # power loss that keeps part of an unsynced manifest write: cut after a whole LINE inside
                # the unsynced tail of a manifest fragment; everything else as in mode 'b'
                if p.startswith("mani/MANIFEST"):
                    tail = bytes(nd.data[nd.synced:])
                    cuts = [nd.synced + i + 1 for i, c in enumerate(tail) if c == 10 and nd.synced + i + 1 < len(nd.data)]
                    del nd.data[(cuts[rng.below(len(cuts))] if cuts else nd.synced):]
                else:
                    del nd.data[nd.synced:]
            nd.synced = len(nd.data)
            nd.marks = [m for m in nd.marks if m <= len(nd.data)]
        return c

    def materialise(self, root):
        shutil.rmtree(root, ignore_errors=True)
        if "" not in self.dirs:
            return              # not even the root directory exists yet
        for d in sorted(self.dirs, key=len):
            os.makedirs(os.path.join(root, d) if d else root, exist_ok=True)
        first = {}
        for p in sorted(self.files):
            nd = self.files[p]
            full = os.path.join(root, p)
            os.makedirs(os.path.dirname(full), exist_ok=True)
            if id(nd) in first:
                os.link(first[id(nd)], full)
            else:
                with open(full, "wb") as fh:
                    fh.write(bytes(nd.data))
                first[id(nd)] = full

    def manifest_unsynced(self):
        """does some manifest fragment hold unsynced bytes spanning more than one line?"""
        for p, nd in self.files.items():
            if p.startswith("mani/MANIFEST") and bytes(nd.data[nd.synced:]).count(b"\n") >= 2:
                return True
        return False

    def listing(self):
        """canonical description (for comparing with a real directory)"""
        groups = {}
        for p, nd in self.files.items():
            groups.setdefault(id(nd), []).append(p)
        return sorted(self.dirs), sorted((p, bytes(nd.data).hex()) for p, nd in self.files.items() if not p.endswith("LOCKFILE"))


def real_listing(root):
    dirs, files = [], []
    if not os.path.isdir(root):
        return dirs, files
    for dp, dn, fn in os.walk(root):
        r = os.path.relpath(dp, root)
        dirs.append("" if r == "." else r)
        for f in fn:
            if f == "LOCKFILE":
                continue
            with open(os.path.join(dp, f), "rb") as fh:
                files.append((os.path.normpath(os.path.join(r, f)) if r != "." else f, fh.read().hex()))
    return sorted(dirs), sorted(files)


# ---------------------------------------------------------------- canonical calls
def canon_name(p):
    """store-relative path -> model name, or None for what the model leaves to C13 (manifest
    fragments, LOCKFILE) / does not know"""
    if p in DIRS:
        return "dir:%d" % DIRS[p]
    if p == "mani/MANIFEST":
        return "mani"
    if p.startswith("mani/"):
        return None
    m = re.match(r"^log\.(\d+)$", p)
    if m:
        return "log:" + m.group(1)
    m = re.match(r"^sst/([0-9a-f]{64})\.sst$", p)
    if m:
        return "sst:" + m.group(1)
    m = re.match(r"^tmp/([0-9a-f]{64})\.sst$", p)
    if m:
        return "tmp:" + m.group(1)
    m = re.match(r"^tmp/log\.(\d+)\.sst$", p)
    if m:
        return "tmplog:" + m.group(1)
    m = re.match(r"^compaction/([0-9a-f]{64})$", p)
    if m:
        return "compdir:" + m.group(1)
    m = re.match(r"^compaction/([0-9a-f]{64})/(\d+)\.sst$", p)
    if m:
        return "comp:%s:%s" % (m.group(1), m.group(2))
    m = re.match(r"^trash/log\.(\d+)$", p)
    if m:
        return "trashlog:" + m.group(1)
    m = re.match(r"^trash/([0-9a-f]{64})\.sst$", p)
    if m:
        return "trashsst:" + m.group(1)
    return "?" + p


def canon_call(ev):
    """Ev -> (kind, name[, name2]) in the model's vocabulary; None = dropped (C13-internal or not a
    mutating call of the store); ('?', ...) = something the model does not know"""
    k = ev.kind
    if k is None:
        return None
    n1 = canon_name(ev.p1) if ev.p1 is not None else None
    n2 = canon_name(ev.p2) if ev.p2 is not None else None
    if k == "open":
        fl = ev.flags or ""
        if n1 is None:
            return None
        if "O_EXCL" in fl:
            return ("create", n1)
        if "O_APPEND" in fl:
            return ("openappend", n1)
        return ("?open", n1)
    if k in ("mkdir", "rmdir", "unlink", "sync"):
        return None if n1 is None else (k, n1)
    if k in ("write", "shortwrite"):
        return None if n1 is None else (k, n1)
    if k in ("link", "rename"):
        if n1 is None or n2 is None:
            return None
        return (k, n1, n2)
    return ("?" + k, n1)
