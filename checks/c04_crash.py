"""Crash points of the C04 check (oracle only, no model): a session of the real store runs under
strace and is killed with SIGKILL on entering the N-th system call of a chosen kind (write,
fdatasync, fsync, rename, linkat, unlink) while it flushes and compacts.  The directory left
behind must already balance (every complete edit I = O + D, chained; recorded O = sum of the
listed ssts; every listed sst present and its name = setsum recomputed from its entries); the next
open must succeed, the books must balance again after recovery, and the real verifier must not
report a corruption on the fragments the store wrote (a backoff after a crash is the trash
protocol's business, C08)."""
import os
import shutil
import subprocess

import c04_lib as L
import c04_run as R
import c04_tamper as T

SYSCALLS = [("write", 400), ("fdatasync", 60), ("fsync", 40), ("rename", 60), ("linkat", 40), ("unlink", 40)]


class Obs:
    """the part of c04_run.Run that inspects a directory and evaluates the oracle"""
    inspect = R.Run.inspect
    sync = R.Run.sync
    oracle = R.Run.oracle
    problem = R.Run.problem

    def __init__(self, exe, root):
        self.root, self.tool = root, L.Tool(exe)
        self.problems, self.events = [], []
        self.stats = {"txns_checked": 0, "files_recomputed": 0}
        self.frags, self.checked, self.verified_files, self.files = {}, {}, set(), {}
        self.cur_id = 1


def script(rng, universe, n):
    ops = []
    dirty = False      # a flush of an empty memtable is not a step of the store (the hook would wait forever)
    for _ in range(n):
        r = rng.below(100)
        if r < 55:
            k = rng.choice(universe)
            if rng.chance(1, 4):
                ops.append("del %s" % L.hx(k))
            else:
                ops.append("put %s %s" % (L.hx(k), L.hx(rng.bytes(rng.choice([0, 1, 8, 30, 60])))))
            dirty = True
        elif r < 75:
            if dirty:
                ops.append("flush")
            dirty = False
        else:
            ops += ["compact"] * rng.choice([1, 3, 10, 40])
    return ops


def run_session(exe, root, opts, ops, strace=None):
    cmd = [exe, "session", root] + opts
    if strace:
        name, when = strace
        cmd = ["strace", "-f", "-o", "/dev/null", "-e", "trace=" + name, "-e", "inject=%s:signal=SIGKILL:when=%d" % (name, when)] + cmd
    # a session can stop answering (after a panic of the selector, C01's K2, the next flush waits on
    # a poisoned mutex): that is an observation, the books on disk are inspected all the same
    # own process group: on a timeout strace AND the store it traces are killed (a surviving store
    # would go on changing the directory under the inspection)
    p = subprocess.Popen(cmd, stdin=subprocess.PIPE, stdout=subprocess.PIPE, stderr=subprocess.DEVNULL, start_new_session=True)
    try:
        out, _ = p.communicate(("\n".join(ops) + "\n").encode(), timeout=40)
        rc = p.returncode
    except subprocess.TimeoutExpired:
        try:
            os.killpg(p.pid, 9)
        except OSError:
            pass
        out, _ = p.communicate()
        out, rc = (out or b"") + b"\nHANG\n", -99
    out = out.decode("utf-8", "replace").split("\n")
    return rc, [ln for ln in out if ln]


def torn_append_cases(exe, root, opts, stats, where):
    """a torn append: the live MANIFEST cut at every LINE boundary inside its last transaction (the
    separator and any number of the transaction's lines missing).  What the real ManifestIterator
    then yields must be a balanced state (an unseparated tail is an edit that did not happen: the
    manifest must not list an sst whose setsum is not in O), and the store must open on it."""
    problems = []
    path = os.path.join(root, "mani", "MANIFEST")
    edits, tail = T.split_edits(open(path, "rb").read())
    if len(edits) < 2 or tail:
        stats["torn_skipped"] = stats.get("torn_skipped", 0) + 1
        return problems
    last = edits[-1]
    if any(T.line_body(ln).startswith("-") for ln in last):
        # the inputs of a committed compaction are in the trash already: cutting its edit off a
        # quiescent directory is not a state a torn append can leave
        stats["torn_skipped"] = stats.get("torn_skipped", 0) + 1
        return problems
    prefix = T.join_edits(edits[:-1])
    for k in range(1, len(last) + 1):
        cp = root + ".torn"
        shutil.rmtree(cp, ignore_errors=True)
        shutil.copytree(root, cp)
        obs = None
        try:
            with open(os.path.join(cp, "mani", "MANIFEST"), "wb") as fh:
                fh.write(prefix + b"".join(last[:k]))
            stats["torn_cases"] = stats.get("torn_cases", 0) + 1
            w = "torn append (%d of %d lines of the last transaction, no separator) %s" % (k, len(last), where)
            obs = Obs(exe, cp)
            obs.sync(w, full=True)
            rc, out = run_session(exe, cp, opts, ["state"])
            if not out or out[0] != "OPEN ok":
                obs.problem("property", what="the store does not open on a manifest with a torn last append", open_line=(out or ["?"])[0], where=w)
            else:
                obs.sync("reopen after " + w, full=True)
            problems += obs.problems
        finally:
            if obs:
                obs.tool.close()
            shutil.rmtree(cp, ignore_errors=True)
    return problems


def count_syscalls(exe, root, opts, ops):
    cp = root + ".count"
    shutil.rmtree(cp, ignore_errors=True)
    shutil.copytree(root, cp)
    cfile = root + ".strace"
    try:
        cmd = ["strace", "-f", "-c", "-o", cfile, "-e", "trace=" + ",".join(n for n, _ in SYSCALLS), exe, "session", cp] + opts
        p = subprocess.Popen(cmd, stdin=subprocess.PIPE, stdout=subprocess.DEVNULL, stderr=subprocess.DEVNULL, start_new_session=True)
        try:
            p.communicate(("\n".join(ops) + "\n").encode(), timeout=40)
        except subprocess.TimeoutExpired:
            try:
                os.killpg(p.pid, 9)
            except OSError:
                pass
            p.communicate()
            return None
        counts = {}
        if not os.path.exists(cfile):
            return {}
        for ln in open(cfile):
            t = ln.split()
            if len(t) >= 4 and t[-1] in dict(SYSCALLS) and t[3].isdigit():
                counts[t[-1]] = int(t[3])
        return counts
    finally:
        shutil.rmtree(cp, ignore_errors=True)
        if os.path.exists(cfile):
            os.remove(cfile)


def crash_case(exe, opts, seed, tag):
    import vlib
    rng = vlib.Rng(seed)
    root = L.fresh_root(tag)
    universe = [b"a", b"ab", b"b", b"k1", b"k2", b"k3", b"k4", b"\xff"][:rng.choice([4, 8])]
    problems, stats = [], {"crash_runs": 1, "killed": 0, "finished": 0, "reopened": 0, "verify_ok": 0, "verify_backoff": 0}
    obs = None
    try:
        # a prefix without faults
        rc, out = run_session(exe, root, opts, script(rng.fork(), universe, rng.choice([10, 40, 80])))
        if not out or out[0] != "OPEN ok":
            return [{"kind": "error", "what": "prefix session did not open", "out": out[:2]}], stats
        # the session that dies: count its system calls on a copy first, then pick the one to die in
        ops = script(rng.fork(), universe, rng.choice([10, 30, 60]))
        counts = count_syscalls(exe, root, opts, ops)
        if counts is None:
            stats["skipped_session_hangs"] = 1      # see run_session
            return [], stats
        avail = [(n, c) for n, c in counts.items() if c > 0]
        if not avail:
            return [{"kind": "machinery", "what": "strace counted no system calls"}], stats
        name, top = rng.choice(sorted(avail))
        when = 1 + rng.below(top)
        rc, out = run_session(exe, root, opts, ops, strace=(name, when))
        if rc == -99:
            stats["session_hangs"] = 1
        killed = rc not in (0, -99)
        stats["killed" if killed else "finished"] += 1
        stats["kill_" + name] = stats.get("kill_" + name, 0) + (1 if killed else 0)
        where = "after SIGKILL on entering %s #%d" % (name, when)
        replay = {"crash": [name, when], "seed": seed, "ops_tail": ops[-8:], "session_out_tail": out[-4:]}
        obs = Obs(exe, root)
        obs.sync(where, full=True)
        # the next open must succeed and leave balanced books
        rc, out = run_session(exe, root, opts, ["state", "put 7a 01", "flush", "compact", "compact"])
        if not out or out[0] != "OPEN ok":
            obs.problem("property", what="the store does not open after a crash", open_line=(out or ["?"])[0], where=where)
        else:
            stats["reopened"] += 1
            # a panic of the selector's assertions (C01's K2) poisons the compaction mutex: every
            # later step of that session panics on the PoisonError; neither is C04's business
            selector = False
            bad = []
            for ln in out[1:]:
                if ln.startswith("PANIC"):
                    if "assertion_failed:_this_level" in ln or "ssts[" in ln:
                        selector = True
                    elif selector and "PoisonError" in ln:
                        pass
                    else:
                        bad.append(ln)
                elif "err" in ln.split(" ")[1:2]:
                    bad.append(ln)
            if selector:
                stats["selector_panics_after_crash"] = 1
            if bad:
                obs.problem("property", what="the session after the crash reported an error or panicked", out=bad[:4], where=where)
            obs.sync("reopen " + where, full=True)
            # a flush, then its edit torn off the manifest line by line
            rc2, out2 = run_session(exe, root, opts, ["put 7b 01", "flush"])
            if out2 and out2[0] == "OPEN ok" and rc2 == 0:
                obs.problems += torn_append_cases(exe, root, opts, stats, where)
                obs.sync("after the torn-append copies " + where, full=True)
            # two more sessions, then the verifier
            run_session(exe, root, opts, ["state"])
            run_session(exe, root, opts, ["state"])
            v = obs.tool.cmd("verify %s 2 %s" % (root, " ".join(opts)), multi=True)
            for ln in v:
                if ln == "PASS ok":
                    stats["verify_ok"] += 1
                elif "backoff" in ln:
                    stats["verify_backoff"] += 1
                else:
                    obs.problem("property", what="the verifier reports %s on a history with one crash" % ln, where=where)
        for p in obs.problems:
            p["replay"] = replay
        problems = obs.problems
        stats["txns_checked"] = obs.stats["txns_checked"]
        stats["files_recomputed"] = obs.stats["files_recomputed"]
    finally:
        if obs:
            obs.tool.close()
        shutil.rmtree(root, ignore_errors=True)
    return problems, stats


def _job(args):
    try:
        return crash_case(*args)
    except Exception as ex:
        import traceback
        return [{"kind": "machinery", "what": "exception in the crash campaign: %r" % (ex,), "traceback": traceback.format_exc()[-1500:]}], {}


def run_many(jobs, ncpu):
    import multiprocessing
    with multiprocessing.Pool(min(len(jobs), max(2, ncpu - 2))) as pool:
        return pool.map(_job, jobs, chunksize=1)
