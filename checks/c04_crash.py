"""Crash points of the C04 check (oracle only, no model): a session of the real store runs under
strace and is killed with SIGKILL on entering the N-th system call of a chosen kind (write,
fdatasync, fsync, rename, linkat, unlink) while it flushes and compacts.  The directory left
behind must already balance (every complete edit I = O + D, chained; recorded O = sum of the
listed ssts; every listed sst present and its name = setsum recomputed from its entries); the next
open must succeed, the books must balance again after recovery, and the real verifier must not
report a corruption on the fragments the store wrote (a backoff after a crash is the trash
protocol's business, C08)."""
import os
import shutil
import subprocess

import c04_lib as L
import c04_run as R

SYSCALLS = [("write", 400), ("fdatasync", 60), ("fsync", 40), ("rename", 60), ("linkat", 40), ("unlink", 40)]


class Obs:
    """the part of c04_run.Run that inspects a directory and evaluates the oracle"""
    inspect = R.Run.inspect
    sync = R.Run.sync
    oracle = R.Run.oracle
    problem = R.Run.problem

    def __init__(self, exe, root):
        self.root, self.tool = root, L.Tool(exe)
        self.problems, self.events = [], []
        self.stats = {"txns_checked": 0, "files_recomputed": 0}
        self.frags, self.checked, self.verified_files, self.files = {}, {}, set(), {}
        self.cur_id = 1


def script(rng, universe, n):
    ops = []
    dirty = False      # a flush of an empty memtable is not a step of the store (the hook would wait forever)
    for _ in range(n):
        r = rng.below(100)
        if r < 55:
            k = rng.choice(universe)
            if rng.chance(1, 4):
                ops.append("del %s" % L.hx(k))
            else:
                ops.append("put %s %s" % (L.hx(k), L.hx(rng.bytes(rng.choice([0, 1, 8, 30, 60])))))
            dirty = True
        elif r < 75:
            if dirty:
                ops.append("flush")
            dirty = False
        else:
            ops += ["compact"] * rng.choice([1, 3, 10, 40])
    return ops


def run_session(exe, root, opts, ops, strace=None):
    cmd = [exe, "session", root] + opts
    if strace:
        name, when = strace
        cmd = ["strace", "-f", "-o", "/dev/null", "-e", "trace=" + name, "-e", "inject=%s:signal=SIGKILL:when=%d" % (name, when)] + cmd
    # a session can stop answering (after a panic of the selector, C01's K2, the next flush waits on
    # a poisoned mutex): that is an observation, the books on disk are inspected all the same
    try:
        p = subprocess.run(cmd, input=("\n".join(ops) + "\n").encode(), stdout=subprocess.PIPE, stderr=subprocess.DEVNULL, timeout=40)
        out, rc = p.stdout, p.returncode
    except subprocess.TimeoutExpired as ex:
        out, rc = (ex.stdout or b"") + b"\nHANG\n", -99
    out = out.decode("utf-8", "replace").split("\n")
    return rc, [ln for ln in out if ln]


def count_syscalls(exe, root, opts, ops):
    cp = root + ".count"
    shutil.rmtree(cp, ignore_errors=True)
    shutil.copytree(root, cp)
    cfile = root + ".strace"
    try:
        cmd = ["strace", "-f", "-c", "-o", cfile, "-e", "trace=" + ",".join(n for n, _ in SYSCALLS), exe, "session", cp] + opts
        try:
            subprocess.run(cmd, input=("\n".join(ops) + "\n").encode(), stdout=subprocess.DEVNULL, stderr=subprocess.DEVNULL, timeout=40)
        except subprocess.TimeoutExpired:
            return None
        counts = {}
        if not os.path.exists(cfile):
            return {}
        for ln in open(cfile):
            t = ln.split()
            if len(t) >= 4 and t[-1] in dict(SYSCALLS) and t[3].isdigit():
                counts[t[-1]] = int(t[3])
        return counts
    finally:
        shutil.rmtree(cp, ignore_errors=True)
        if os.path.exists(cfile):
            os.remove(cfile)


def crash_case(exe, opts, seed, tag):
    import vlib
    rng = vlib.Rng(seed)
    root = L.fresh_root(tag)
    universe = [b"a", b"ab", b"b", b"k1", b"k2", b"k3", b"k4", b"\xff"][:rng.choice([4, 8])]
    problems, stats = [], {"crash_runs": 1, "killed": 0, "finished": 0, "reopened": 0, "verify_ok": 0, "verify_backoff": 0}
    obs = None
    try:
        # a prefix without faults
        rc, out = run_session(exe, root, opts, script(rng.fork(), universe, rng.choice([10, 40, 80])))
        if not out or out[0] != "OPEN ok":
            return [{"kind": "error", "what": "prefix session did not open", "out": out[:2]}], stats
        # the session that dies: count its system calls on a copy first, then pick the one to die in
        ops = script(rng.fork(), universe, rng.choice([10, 30, 60]))
        counts = count_syscalls(exe, root, opts, ops)
        if counts is None:
            stats["skipped_session_hangs"] = 1      # see run_session
            return [], stats
        avail = [(n, c) for n, c in counts.items() if c > 0]
        if not avail:
            return [{"kind": "machinery", "what": "strace counted no system calls"}], stats
        name, top = rng.choice(sorted(avail))
        when = 1 + rng.below(top)
        rc, out = run_session(exe, root, opts, ops, strace=(name, when))
        if rc == -99:
            stats["session_hangs"] = 1
        killed = rc not in (0, -99)
        stats["killed" if killed else "finished"] += 1
        stats["kill_" + name] = stats.get("kill_" + name, 0) + (1 if killed else 0)
        where = "after SIGKILL on entering %s #%d" % (name, when)
        replay = {"crash": [name, when], "seed": seed, "ops_tail": ops[-8:], "session_out_tail": out[-4:]}
        obs = Obs(exe, root)
        obs.sync(where, full=True)
        # the next open must succeed and leave balanced books
        rc, out = run_session(exe, root, opts, ["state", "put 7a 01", "flush", "compact", "compact"])
        if not out or out[0] != "OPEN ok":
            obs.problem("property", what="the store does not open after a crash", open_line=(out or ["?"])[0], where=where)
        else:
            stats["reopened"] += 1
            # a panic of the selector's assertions (C01's K2) poisons the compaction mutex: every
            # later step of that session panics on the PoisonError; neither is C04's business
            selector = False
            bad = []
            for ln in out[1:]:
                if ln.startswith("PANIC"):
                    if "assertion_failed:_this_level" in ln or "ssts[" in ln:
                        selector = True
                    elif selector and "PoisonError" in ln:
                        pass
                    else:
                        bad.append(ln)
                elif "err" in ln.split(" ")[1:2]:
                    bad.append(ln)
            if selector:
                stats["selector_panics_after_crash"] = 1
            if bad:
                obs.problem("property", what="the session after the crash reported an error or panicked", out=bad[:4], where=where)
            obs.sync("reopen " + where, full=True)
            # two more sessions, then the verifier
            run_session(exe, root, opts, ["state"])
            run_session(exe, root, opts, ["state"])
            v = obs.tool.cmd("verify %s 2 %s" % (root, " ".join(opts)), multi=True)
            for ln in v:
                if ln == "PASS ok":
                    stats["verify_ok"] += 1
                elif "backoff" in ln:
                    stats["verify_backoff"] += 1
                else:
                    obs.problem("property", what="the verifier reports %s on a history with one crash" % ln, where=where)
        for p in obs.problems:
            p["replay"] = replay
        problems = obs.problems
        stats["txns_checked"] = obs.stats["txns_checked"]
        stats["files_recomputed"] = obs.stats["files_recomputed"]
    finally:
        if obs:
            obs.tool.close()
        shutil.rmtree(root, ignore_errors=True)
    return problems, stats


def _job(args):
    try:
        return crash_case(*args)
    except Exception as ex:
        return [{"kind": "machinery", "what": "exception in the crash campaign: %r" % (ex,)}], {}


def run_many(jobs, ncpu):
    import multiprocessing
    with multiprocessing.Pool(min(len(jobs), max(2, ncpu - 2))) as pool:
        return pool.map(_job, jobs, chunksize=1)
