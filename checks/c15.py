"""C15 — the protobuf codec (buffertk / prototk / prototk_derive) round-trips all values and
decodes arbitrary bytes safely.

Decided by: the theorems of coq/theories/Wire/Props_C15.v over the executable model
Wire/Model.v + Wire/ModelMsg.v (field-number limits re-extracted from /repo on every run, the
WIRE_TYPE table and the wire-type numbers re-extracted into Wire/GenWT.v), tied to the code by
running the extracted model and the real crates on the same generated cases (a family of derived
message types, every scalar field type, raw varints / tags / zig-zag), plus the direct oracle: an
independent Python rendering of the protobuf wire format (encoder, varint decoder, projection of a
newer writer's value onto an older reader's type) and "no panic"."""
import json
import os
import re
import struct
import sys

import vlib

META = {
    "category": "proof",
    "text": "Coq theorems (Wire/Props_C15.v, closed under the global context) over an executable model of buffertk (varint fast/slow paths, stack packer filling a buffer of exactly pack_sz bytes), prototk (zig-zag, tags, field iterator, every field type) and a deep embedding of the message shapes prototk_derive accepts with the generic pack/unpack the macro generates: for every value of every well-formed shape pack fills exactly pack_sz bytes, the bytes equal an independent reference encoder of the protobuf wire format and unpack returns the value; unpack of arbitrary bytes is total for every shape (no panic, no out-of-bounds index or slice, no overflow, no fuel exhaustion), returns a suffix of its input and a value of the shape; unknown fields are skipped (insertion lemma, and the general theorem: an older reader decodes a newer writer's bytes to the projection of its value, at every nesting level); varint fast path = slow path = the 10-group specification, canonical form, zig-zag, tag acceptance/rejection, every scalar type; the model is tied to the code by 3-way differential runs (Rust vs extracted model vs independent Python reference) over 28 message types, boundary values, exhaustive short byte strings and 16 kinds of structure-aware mutation. Every encoded value is also streamed into writers that take 3 bytes and 1 byte per call and must deliver the packed bytes and report pack_sz.",
    "note": "Trusted: Coq kernel; tools/constants.py, tools/shapes.py (declared message shapes -> Gen/Shapes_*.v) and the WIRE_TYPE extractor in checks/c15.py; ExtrOcamlBasic extraction + ocaml/wire driver; harness c15 (the derived type family and its text form); the schema descriptions in checks/c15.py mirror the Rust declarations by hand (a mismatch shows as a disagreement, not silently); std's from_utf8 is modelled (Unicode table 3-7) and compared; recursive message types, Result<_, SError> payload text (handled crate) are not modelled.",
}

PROPS = "theories/Wire/Props_C15.v"
MODULE = "Wire.Props_C15"

SCALARS = ["int32", "int64", "uint32", "uint64", "sint32", "sint64", "fixed32", "fixed64", "sfixed32",
           "sfixed64", "float", "double", "Bool", "bytes", "bytes16", "bytes32", "bytes64", "string"]
WT = {"int32": 0, "int64": 0, "uint32": 0, "uint64": 0, "sint32": 0, "sint64": 0, "Bool": 0,
      "fixed64": 1, "sfixed64": 1, "double": 1, "fixed32": 5, "sfixed32": 5, "float": 5,
      "bytes": 2, "bytes16": 2, "bytes32": 2, "bytes64": 2, "string": 2,
      "string_path": 2}       # field type `string` with the native type PathBuf (any bytes)
RANGE = {"int32": (-2**31, 2**31 - 1), "sint32": (-2**31, 2**31 - 1), "sfixed32": (-2**31, 2**31 - 1),
         "int64": (-2**63, 2**63 - 1), "sint64": (-2**63, 2**63 - 1), "sfixed64": (-2**63, 2**63 - 1),
         "uint32": (0, 2**32 - 1), "fixed32": (0, 2**32 - 1), "float": (0, 2**32 - 1),
         "uint64": (0, 2**64 - 1), "fixed64": (0, 2**64 - 1), "double": (0, 2**64 - 1), "Bool": (0, 1)}
FIXLEN = {"bytes16": 16, "bytes32": 32, "bytes64": 64}


# ------------------------------------------------------------------ the type family (mirrors c15.rs)
def M(name):
    return ("M", name)


def S(*fs):
    return ("S", list(fs))


def E(*vs):
    return ("E", list(vs))


INNER = S((1, "p", "sint64"), (2, "p", "string"), (3, "p", "fixed32"))
TYPES = {
    "Empty": S(),
    "Ints": S((1, "p", "int32"), (2, "p", "int64"), (3, "p", "uint32"), (4, "p", "uint64"), (5, "p", "sint32"), (6, "p", "sint64")),
    "Fixeds": S((1, "p", "fixed32"), (2, "p", "fixed64"), (3, "p", "sfixed32"), (4, "p", "sfixed64"), (5, "p", "float"), (6, "p", "double"), (7, "p", "Bool")),
    "Blobs": S((1, "p", "bytes"), (2, "p", "bytes16"), (3, "p", "bytes32"), (4, "p", "string")),
    "Blob64": S((1, "p", "bytes64"), (2, "p", "uint64")),
    "Inner": INNER,
    "Nest": S((1, "p", M("Inner")), (2, "p", "uint64")),
    "Opts": S((1, "o", "int32"), (2, "o", "uint64"), (3, "o", "string"), (4, "o", M("Inner")), (5, "o", "double"), (6, "o", "bytes"), (7, "o", "float")),
    "Reps": S((1, "r", "sint64"), (2, "r", "fixed32"), (3, "r", "string"), (4, "r", M("Inner")), (5, "r", "Bool"), (6, "r", "bytes"), (7, "r", "float")),
    "BigNums": S((15, "p", "uint64"), (16, "p", "uint64"), (2047, "p", "sint32"), (2048, "p", "string"), (18999, "p", "fixed64"), (20000, "p", "Bool"), (536870911, "p", "int32")),
    "Deep": S((1, "p", M("Nest")), (2, "r", M("Nest")), (3, "o", M("Nest"))),
    "Boxed": S((1, "p", "uint64"), (2, "p", "double"), (3, "p", "sint32")),
    "Choice": E(("o", 1, "sint64"), ("o", 2, "uint64"), ("o", 3, M("Inner")), ("u", 4),
                ("n", 5, [(1, "p", "int32"), (2, "p", "bytes")]), ("o", 6, "string"), ("o", 7, "fixed32"),
                ("o", 8, "double"), ("o", 9, "float"), ("o", 10, "bytes32")),
    "HasChoice": S((1, "p", M("Choice")), (2, "o", M("Choice")), (3, "r", M("Choice")), (4, "p", "uint32")),
    "E2": E(("u", 1), ("n", 2, [(1, "o", M("Inner"))]), ("n", 3, [(1, "r", M("Inner")), (2, "r", "sint32")]),
            ("n", 4, [(1, "p", "bytes32")]), ("n", 5, [(1, "p", "bytes64")]), ("n", 6, [(1, "p", "uint64"), (2, "p", "uint64")])),
    "HasE2": S((1, "p", M("E2")), (2, "r", M("E2"))),
    "MyErr": S((1, "p", "string"), (2, "p", "uint64")),
    "Res": S((1, "p", ("R", "Inner", "MyErr")), (2, "p", "sint32")),
    "InnerV2": S((7, "p", "uint64"), (1, "p", "sint64"), (8, "p", "string"), (2, "p", "string"), (3, "p", "fixed32"), (9, "p", "fixed64"), (10, "p", "float"), (11, "o", M("Inner"))),
    "NestV2": S((5, "r", "sfixed32"), (1, "p", M("InnerV2")), (2, "p", "uint64"), (6, "r", M("InnerV2"))),
    "Wide": S((1, "p", "int32"), (2, "p", "int64"), (3, "p", "uint32"), (4, "p", "uint64"), (5, "p", "sint32"), (6, "p", "sint64"),
              (7, "p", "fixed32"), (8, "p", "fixed64"), (9, "p", "sfixed32"), (10, "p", "sfixed64"), (11, "p", "double"), (12, "p", "Bool"),
              (13, "p", "bytes"), (14, "p", "bytes32"), (15, "p", "string"), (16, "p", M("Inner")), (17, "o", M("Inner")), (18, "r", "uint64"),
              (19, "p", M("Choice")), (20, "r", M("Inner")), (21, "p", "float")),
    "Evo1": E(("u", 1), ("n", 2, [(1, "p", "uint64"), (3, "p", "string")])),
    "Evo2": E(("u", 1), ("n", 2, [(1, "p", "uint64"), (2, "p", "sint64"), (3, "p", "string"), (4, "o", M("Inner"))])),
    "HasEvo1": S((1, "p", M("Evo1")), (2, "p", "uint32")),
    "HasEvo2": S((1, "p", M("Evo2")), (2, "p", "uint32"), (3, "p", "bytes")),
    "ResTop": ("R", "Inner", "MyErr"),     # buffertk's own impls for Result, used directly
    "Paths": S((1, "p", "string_path"), (2, "p", "bytes"), (3, "o", "string_path"), (4, "r", "string_path"), (5, "r", "bytes")),
    "Borrowed": S((1, "p", "bytes"), (2, "p", "string"), (3, "o", "bytes"), (4, "r", "string")),   # &[u8] / &str natives
}
# usize fields in the Rust (Blob64.b, E2::Sizes) are u64 on this platform.
# writer type -> reader types that know a subset of its fields (same number => same type)
EVOLUTION = [("InnerV2", "Inner"), ("NestV2", "Nest"), ("Evo2", "Evo1"), ("HasEvo2", "HasEvo1"), ("Wide", "Ints"),
             ("Wide", "Empty"), ("Ints", "Empty"), ("Reps", "Empty"), ("HasChoice", "Empty"), ("Deep", "Empty"),
             ("Nest", "Empty"), ("Blobs", "Empty"), ("Fixeds", "Empty"), ("Opts", "Empty"), ("BigNums", "Empty")]
STRUCT_TYPES = [n for n, t in TYPES.items() if t[0] == "S"]


def resolve(t):
    """type reference -> description"""
    if isinstance(t, tuple) and t[0] == "M":
        return TYPES[t[1]] if isinstance(t[1], str) else t[1]
    return t


DECL = {}      # "crate::shape_X" -> description, filled from tools/shapes.py --json


def msg_of(ty):
    """for a field type that is a message: its description (S/E/R)"""
    if ty[0] == "M":
        return TYPES[ty[1]] if ty[1] in TYPES else DECL[ty[1]]
    if ty[0] == "R":
        return ty
    raise ValueError(ty)


def is_msg(ty):
    return isinstance(ty, tuple)


def schema_text(m):
    if m[0] == "S":
        return "S ( " + "".join(fld_text(f) for f in m[1]) + ") "
    if m[0] == "E":
        out = "E ( "
        for v in m[1]:
            if v[0] == "u":
                out += "u %d " % v[1]
            elif v[0] == "o":
                out += "o %d %s" % (v[1], ty_text(v[2]))
            else:
                out += "n %d ( " % v[1] + "".join(fld_text(f) for f in v[2]) + ") "
        return out + ") "
    if m[0] == "R":
        return "R " + schema_text(TYPES[m[1]]) + schema_text(TYPES[m[2]])
    raise ValueError(m)


def ty_text(ty):
    if is_msg(ty):
        return "M " + schema_text(msg_of(ty))
    return ty + " "


def fld_text(f):
    return "%d %s %s" % (f[0], f[1], ty_text(f[2]))


# --------------------------------------------------------------------------------- value text
class V:
    """enum / Result value"""
    __slots__ = ("k", "p")

    def __init__(self, k, p):
        self.k, self.p = k, p

    def __eq__(self, o):
        return isinstance(o, V) and self.k == o.k and self.p == o.p

    def __repr__(self):
        return "V(%d,%r)" % (self.k, self.p)


def val_text(v):
    if isinstance(v, bool):
        return "1 " if v else "0 "
    if isinstance(v, int):
        return "%d " % v
    if isinstance(v, (bytes, bytearray)):
        return "x" + bytes(v).hex() + " "
    if isinstance(v, list):
        return "( " + "".join(val_text(x) for x in v) + ") "
    if isinstance(v, V):
        return "#%d " % v.k + val_text(v.p)
    raise ValueError(v)


# ------------------------------------------------------ the protobuf wire format, independently
def ref_varint(n):
    assert 0 <= n < 2**64
    out = bytearray()
    while True:
        b = n & 0x7F
        n >>= 7
        if n:
            out.append(b | 0x80)
        else:
            out.append(b)
            return bytes(out)


def ref_varint_decode(buf):
    """protobuf varint, at most ten bytes, value reduced modulo 2^64 -> (value, consumed) or None"""
    v = 0
    for i in range(min(len(buf), 10)):
        v |= (buf[i] & 0x7F) << (7 * i)
        if buf[i] < 0x80:
            return v % 2**64, i + 1
    return None


def ref_zigzag(x):
    return (x << 1) if x >= 0 else ((-x) << 1) - 1


def ref_scalar(kind, v):
    if kind in ("int32", "int64"):
        return ref_varint(v % 2**64)
    if kind in ("uint32", "uint64"):
        return ref_varint(v)
    if kind in ("sint32", "sint64"):
        return ref_varint(ref_zigzag(v))
    if kind == "Bool":
        return ref_varint(1 if v else 0)
    if kind in ("fixed32", "float"):
        return struct.pack("<I", v)
    if kind in ("fixed64", "double"):
        return struct.pack("<Q", v)
    if kind == "sfixed32":
        return struct.pack("<i", v)
    if kind == "sfixed64":
        return struct.pack("<q", v)
    return ref_varint(len(v)) + bytes(v)


def ref_tag(num, wt):
    return ref_varint((num << 3) | wt)


def ref_field(num, ty, x):
    if is_msg(ty):
        body = ref_msg(msg_of(ty), x)
        return ref_tag(num, 2) + ref_varint(len(body)) + body
    return ref_tag(num, WT[ty]) + ref_scalar(ty, x)


def ref_fields(fs, vs):
    out = b""
    for (num, c, ty), v in zip(fs, vs):
        if c == "p":
            out += ref_field(num, ty, v)
        else:
            for x in v:
                out += ref_field(num, ty, x)
    return out


def ref_msg(m, v):
    if m[0] == "S":
        return ref_fields(m[1], v)
    if m[0] == "E":
        var = m[1][v.k]
        if var[0] == "u":
            return ref_tag(var[1], 2) + b"\x00"
        if var[0] == "o":
            return ref_field(var[1], var[2], v.p)
        body = ref_fields(var[2], v.p)
        return ref_tag(var[1], 2) + ref_varint(len(body)) + body
    if m[0] == "R":
        inner = TYPES[m[1 + v.k]]
        body = ref_msg(inner, v.p)
        return ref_tag(1 + v.k, 2) + ref_varint(len(body)) + body
    raise ValueError(m)


def default_scalar(kind):
    if kind in FIXLEN:
        return bytes(FIXLEN[kind])
    if kind in ("bytes", "string"):
        return b""
    return 0


def default_ty(ty):
    return default_msg(msg_of(ty)) if is_msg(ty) else default_scalar(ty)


def default_fields(fs):
    return [default_ty(ty) if c == "p" else [] for (_, c, ty) in fs]


def default_msg(m):
    if m[0] == "S":
        return default_fields(m[1])
    if m[0] == "E":
        var = m[1][0]
        if var[0] == "u":
            return V(0, [])
        if var[0] == "o":
            return V(0, default_ty(var[2]))
        return V(0, default_fields(var[2]))
    return V(0, default_msg(TYPES[m[1]]))


def project(reader, writer, v):
    """what a reader of type `reader` must see in the encoding of `v` : `writer`
    (unknown fields skipped, fields the writer lacks at their defaults)"""
    if reader[0] == "S":
        return project_fields(reader[1], writer[1], v)
    if reader[0] == "E":
        wv = writer[1][v.k]
        for k, rv in enumerate(reader[1]):
            if rv[1] == wv[1]:
                if rv[0] == "u":
                    return V(k, [])
                if rv[0] == "o":
                    return V(k, project_ty(rv[2], wv[2], v.p))
                return V(k, project_fields(rv[2], wv[2], v.p))
        raise ValueError("variant unknown to the reader")
    return V(v.k, project(TYPES[reader[1 + v.k]], TYPES[writer[1 + v.k]], v.p))


def project_ty(rty, wty, x):
    if is_msg(rty):
        return project(msg_of(rty), msg_of(wty), x)
    return x


def project_fields(rfs, wfs, vs):
    out = []
    for (num, c, ty) in rfs:
        hit = [(wf, v) for wf, v in zip(wfs, vs) if wf[0] == num]
        if not hit:
            out.append(default_ty(ty) if c == "p" else [])
            continue
        (wnum, wc, wty), v = hit[0]
        assert wc == c
        out.append(project_ty(ty, wty, v) if c == "p" else [project_ty(ty, wty, x) for x in v])
    return out


# ------------------------------------------------------------------------------------ generators
def boundary_ints(lo, hi):
    s = {lo, hi, 0, 1, -1, lo + 1, hi - 1}
    for k in range(0, 65):
        for d in (-1, 0, 1):
            s.add(2**k + d)
            s.add(-(2**k) + d)
    return sorted(x for x in s if lo <= x <= hi)


BOUNDARY = {k: boundary_ints(lo, hi) for k, (lo, hi) in RANGE.items()}
F32_SPECIAL = [0x00000000, 0x80000000, 0x3F800000, 0xBF800000, 0x7F800000, 0xFF800000, 0x7FC00000, 0xFFC00000,
               0x7F800001, 0x7FBFFFFF, 0x7FFFFFFF, 0xFFFFFFFF, 0x00000001, 0x007FFFFF, 0x00800000, 0x7F7FFFFF,
               0x80000001, 0x807FFFFF, 0xFF7FFFFF, 0x40490FDB, 0x7FC00001, 0xFF800001]
F64_SPECIAL = [0x0000000000000000, 0x8000000000000000, 0x3FF0000000000000, 0xBFF0000000000000, 0x7FF0000000000000,
               0xFFF0000000000000, 0x7FF8000000000000, 0xFFF8000000000000, 0x7FF0000000000001, 0x7FF7FFFFFFFFFFFF,
               0x7FFFFFFFFFFFFFFF, 0xFFFFFFFFFFFFFFFF, 0x0000000000000001, 0x000FFFFFFFFFFFFF, 0x0010000000000000,
               0x7FEFFFFFFFFFFFFF, 0x8000000000000001, 0xFFEFFFFFFFFFFFFF, 0x400921FB54442D18, 0x7FF8000000000001]
CODEPOINTS = [0x00, 0x01, 0x41, 0x7F, 0x80, 0xE9, 0x7FF, 0x800, 0xD7FF, 0xE000, 0xFFFD, 0xFFFF, 0x10000, 0x1F600, 0x10FFFF]
LENGTHS = [0, 0, 1, 1, 2, 3, 5, 8, 16, 31, 127, 128, 129, 300]


def gen_scalar(rng, kind, big=False):
    if kind == "float":
        return rng.choice(F32_SPECIAL) if rng.chance(2, 3) else rng.below(2**32)
    if kind == "double":
        return rng.choice(F64_SPECIAL) if rng.chance(2, 3) else rng.below(2**64)
    if kind in RANGE:
        lo, hi = RANGE[kind]
        if rng.chance(3, 4):
            return rng.choice(BOUNDARY[kind])
        return lo + rng.below(hi - lo + 1)
    if kind in FIXLEN:
        n = FIXLEN[kind]
        return bytes([rng.below(256)]) * n if rng.chance(1, 2) else rng.bytes(n)
    if kind == "bytes":
        n = rng.choice(LENGTHS) if not big else rng.choice([16383, 16384, 16385, 70000])
        return rng.bytes(n) if n < 64 else bytes([rng.below(256)]) * n
    if kind == "string_path":
        # a PathBuf: usually a UTF-8 path, sometimes not (known class pathbuf-non-utf8)
        if rng.chance(1, 5):
            return rng.choice([b"a\xff", b"\xff", b"/tmp/\xc3", b"\xed\xa0\x80", b"dir/\x80file"])
        return gen_scalar(rng, "string", False)
    if kind == "string":
        if big:
            return ("é" * rng.choice([8191, 8192, 8193])).encode()
        n = rng.choice([0, 0, 1, 1, 2, 3, 6, 40, 127, 128])
        if n >= 40:
            return (chr(rng.choice([0x41, 0x7F])) * n).encode()
        return "".join(chr(rng.choice(CODEPOINTS)) for _ in range(n)).encode("utf-8")
    raise ValueError(kind)


def gen_ty(rng, ty, depth, big=False):
    if is_msg(ty):
        return gen_msg(rng, msg_of(ty), depth + 1)
    return gen_scalar(rng, ty, big)


def gen_fields(rng, fs, depth, big=False):
    out = []
    for (_, c, ty) in fs:
        if c == "p":
            out.append(gen_ty(rng, ty, depth, big))
        elif c == "o":
            out.append([gen_ty(rng, ty, depth, big)] if rng.chance(1, 2) else [])
        else:
            n = rng.choice([0, 0, 1, 2, 3, 5]) if depth < 2 else rng.choice([0, 1, 2])
            out.append([gen_ty(rng, ty, depth, big) for _ in range(n)])
    return out


def gen_msg(rng, m, depth=0, big=False):
    if m[0] == "S":
        return gen_fields(rng, m[1], depth, big)
    if m[0] == "E":
        k = rng.below(len(m[1]))
        var = m[1][k]
        if var[0] == "u":
            return V(k, [])
        if var[0] == "o":
            return V(k, gen_ty(rng, var[2], depth, big))
        return V(k, gen_fields(rng, var[2], depth, big))
    k = rng.below(2)
    return V(k, gen_msg(rng, TYPES[m[1 + k]], depth + 1))


def split_top_fields(buf):
    """spans (start, end, number, wire type) of the top-level fields of a valid encoding"""
    out, i = [], 0
    while i < len(buf):
        d = ref_varint_decode(buf[i:])
        if d is None:
            return None
        tag, n = d
        j = i + n
        wt = tag & 7
        if wt == 0:
            d2 = ref_varint_decode(buf[j:])
            if d2 is None:
                return None
            j += d2[1]
        elif wt == 1:
            j += 8
        elif wt == 5:
            j += 4
        elif wt == 2:
            d2 = ref_varint_decode(buf[j:])
            if d2 is None:
                return None
            j += d2[1] + d2[0]
        else:
            return None
        if j > len(buf):
            return None
        out.append((i, j, tag >> 3, wt))
        i = j
    return out


def nonminimal(vbytes, extra):
    """the same varint value on more bytes (zero continuation groups)"""
    b = bytearray(vbytes)
    b[-1] |= 0x80
    for _ in range(extra - 1):
        b.append(0x80)
    b.append(0x00)
    return bytes(b)


def unknown_field(rng, known):
    """a well-formed field whose number the reader does not know, of a random wire type"""
    while True:
        num = rng.choice([rng.range(1, 40), rng.range(1, 3000), 18999, 20000, 2**29 - 1, rng.range(1, 2**29 - 1)])
        if num not in known and not (19000 <= num <= 19999):
            break
    wt = rng.choice([0, 1, 2, 5])
    # an over-long (non-canonical) spelling of the value / length varint is still a well-formed
    # field that the reader must skip without disturbing anything (seeded change C15-2)
    def spell(v):
        if len(v) < 9 and rng.chance(1, 3):
            return nonminimal(v, rng.range(1, min(3, 10 - len(v))))
        return v
    if wt == 0:
        pay = spell(ref_varint(rng.choice(BOUNDARY["uint64"])))
    elif wt == 1:
        pay = rng.bytes(8)
    elif wt == 5:
        pay = rng.bytes(4)
    else:
        body = rng.bytes(rng.choice([0, 1, 2, 7, 127, 128, 200]))
        pay = spell(ref_varint(len(body))) + body
    return ref_tag(num, wt) + pay


def mutate(rng, buf, known_nums, stats):
    """-> (mutated bytes, kind, value_preserving)"""
    b = bytearray(buf)
    spans = split_top_fields(buf)
    k = rng.below(16)
    if k == 0:
        stats["mut_truncate"] += 1
        return bytes(b[:rng.below(len(b) + 1)]), "truncate", False
    if k == 1:
        stats["mut_extend"] += 1
        return bytes(b) + rng.bytes(rng.range(1, 12)), "extend", False
    if k == 2 and b:
        stats["mut_bitflip"] += 1
        i = rng.below(len(b))
        b[i] ^= 1 << rng.below(8)
        return bytes(b), "bitflip", False
    if k == 3 and b:
        stats["mut_setbyte"] += 1
        b[rng.below(len(b))] = rng.choice([0x80, 0xFF, 0x00, 0x7F, 0x01, 0x02, 0x0A])
        return bytes(b), "setbyte", False
    if k == 4:
        stats["mut_insert"] += 1
        i = rng.below(len(b) + 1)
        b[i:i] = bytes([rng.choice([0x80, 0xFF, 0x00])])
        return bytes(b), "insert", False
    if k in (5, 6) and spans:
        # non-minimal tag or length/value varint of a top-level field
        s, e, num, wt = rng.choice(spans)
        d = ref_varint_decode(buf[s:])
        tl = d[1]
        if k == 5:
            stats["mut_nonminimal_tag"] += 1
            nm = nonminimal(buf[s:s + tl], rng.range(1, 4))
            return buf[:s] + nm + buf[s + tl:], "nonminimal-tag", False
        if wt in (0, 2):
            stats["mut_nonminimal_varint"] += 1
            d2 = ref_varint_decode(buf[s + tl:])
            vl = d2[1]
            if vl + 1 <= 10:
                nm = nonminimal(buf[s + tl:s + tl + vl], rng.range(1, min(3, 10 - vl)))
                return buf[:s + tl] + nm + buf[s + tl + vl:], "nonminimal-varint", False
    if k in (7, 8, 9) and spans is not None:
        # an unknown field at a top-level field boundary: the value must not change
        stats["mut_unknown_field"] += 1
        cuts = [0] + [e for (_, e, _, _) in spans]
        i = rng.choice(cuts)
        return buf[:i] + unknown_field(rng, known_nums) + buf[i:], "unknown-field", True
    if k == 10 and spans is not None:
        stats["mut_bad_number_or_wiretype"] += 1
        cuts = [0] + [e for (_, e, _, _) in spans]
        i = rng.choice(cuts)
        kind = rng.below(4)
        if kind == 0:
            f = ref_tag(rng.range(19000, 19999), 0) + b"\x01"
        elif kind == 1:
            f = ref_tag(0, rng.choice([0, 2])) + b"\x00"
        elif kind == 2:
            f = ref_tag(rng.range(1, 30), rng.choice([3, 4, 6, 7])) + b"\x00"
        else:
            f = ref_varint(rng.choice([2**32, 2**32 + 8, 2**35, 2**63, 2**64 - 1])) + b"\x00"
        return buf[:i] + f + buf[i:], "bad-number-or-wiretype", False
    if k == 11 and spans:
        stats["mut_duplicate_field"] += 1
        s, e, _, _ = rng.choice(spans)
        return buf + buf[s:e], "duplicate-field", False
    if k == 12 and spans and len(spans) >= 2:
        # swap two adjacent top-level fields with different numbers: same value
        i = rng.below(len(spans) - 1)
        (s1, e1, n1, _), (s2, e2, n2, _) = spans[i], spans[i + 1]
        if n1 != n2:
            stats["mut_swap_fields"] += 1
            return buf[:s1] + buf[s2:e2] + buf[s1:e1] + buf[e2:], "swap-fields", True
    if k == 13 and spans:
        # damage inside a length-delimited payload, length prefix re-fitted
        ld = [sp for sp in spans if sp[3] == 2]
        if ld:
            s, e, num, wt = rng.choice(ld)
            d = ref_varint_decode(buf[s:])
            d2 = ref_varint_decode(buf[s + d[1]:])
            body = bytearray(buf[s + d[1] + d2[1]:e])
            kind = rng.below(4)
            if kind == 0 and body:
                body[rng.below(len(body))] ^= 1 << rng.below(8)
            elif kind == 1:
                body += rng.bytes(rng.range(1, 6))
            elif kind == 2 and body:
                body = body[:rng.below(len(body))]
            else:
                i = rng.below(len(body) + 1)
                body[i:i] = unknown_field(rng, set())
            stats["mut_nested"] += 1
            return buf[:s + d[1]] + ref_varint(len(body)) + bytes(body) + buf[e:], "nested", False
    if k == 14 and spans:
        ld = [sp for sp in spans if sp[3] == 2]
        if ld:
            s, e, num, wt = rng.choice(ld)
            d = ref_varint_decode(buf[s:])
            d2 = ref_varint_decode(buf[s + d[1]:])
            newlen = max(0, d2[0] + rng.choice([-2, -1, 1, 2, 2**31, 2**63]))
            stats["mut_length"] += 1
            return buf[:s + d[1]] + ref_varint(newlen % 2**64) + buf[s + d[1] + d2[1]:], "length", False
    stats["mut_random"] += 1
    return rng.bytes(rng.range(0, 20)), "random", False


def known_numbers(m):
    if m[0] == "S":
        return {f[0] for f in m[1]}
    return set(range(1, 40))


# ------------------------------------------------------------------------------------- the cases
class Case:
    __slots__ = ("impl", "model", "expect", "tag", "needs_rt", "known")

    def __init__(self, impl, model, expect, tag, needs_rt=False):
        self.impl, self.model, self.expect, self.tag, self.needs_rt = impl, model, expect, tag, needs_rt
        self.known = None


def has_non_utf8_path(m, v):
    """the class pathbuf-non-utf8: some PathBuf under `string` whose bytes are not UTF-8"""
    def bad(b):
        try:
            bytes(b).decode("utf-8")
            return False
        except UnicodeDecodeError:
            return True

    def ty(t, x):
        if is_msg(t):
            return has_non_utf8_path(msg_of(t), x)
        return t == "string_path" and bad(x)

    def flds(fs, vs):
        return any(ty(t, v_) if c == "p" else any(ty(t, x) for x in v_) for (_, c, t), v_ in zip(fs, vs))

    if m[0] == "S":
        return flds(m[1], v)
    if m[0] == "E":
        var = m[1][v.k]
        return False if var[0] == "u" else ty(var[2], v.p) if var[0] == "o" else flds(var[2], v.p)
    return has_non_utf8_path(TYPES[m[1 + v.k]], v.p)


def enc_case(name, v, tag):
    m = TYPES[name]
    body = ref_msg(m, v)
    vt = val_text(v)
    if has_non_utf8_path(m, v):
        # inside the known class: the bytes are still the standard ones, unpacking them is an error
        c = Case("enc %s %s" % (name, vt), "enc %s; %s" % (schema_text(m), vt),
                 "%s sz=%d rt=err string-encoding" % (body.hex(), len(body)), tag + "-pathbuf-non-utf8")
        c.known = "pathbuf-non-utf8"
        return c
    exp = "%s sz=%d rt=ok %srest=" % (body.hex(), len(body), vt)
    return Case("enc %s %s" % (name, vt), "enc %s; %s" % (schema_text(m), vt), exp, tag)


def dec_case(name, buf, tag, expect=None):
    m = TYPES[name]
    return Case("dec %s %s" % (name, buf.hex()), "dec %s; %s" % (schema_text(m), buf.hex()), expect, tag)


def ok_text(v, rest=b""):
    return "ok %srest=%s" % (val_text(v), rest.hex())


def varint_cases(rng, thorough, stats):
    out = []
    pats = [0x00, 0x01, 0x02, 0x7F, 0x80, 0x81, 0xFF, 0xFE, 0x40]

    def add(buf, tag):
        d = ref_varint_decode(buf)
        exp = "err varint-overflow" if d is None else "ok %d rest=%s" % (d[0], buf[d[1]:].hex())
        out.append(Case("v64d " + buf.hex(), "v64d " + buf.hex(), exp, tag))
        stats["v64d"] += 1

    for b in range(256):
        add(bytes([b]), "v64-1byte")
        add(bytes([b]) + bytes(9), "v64-1byte-fast")
        add(bytes([0xFF] * 9 + [b]), "v64-10th")
        add(bytes([0x80] * 9 + [b]) + b"\xaa", "v64-10th-fast")
    add(b"", "v64-empty")
    # every length 1..12, slow (bare) and fast (padded to >= 10 bytes) for the same prefix
    for ln in range(1, 13):
        for _ in range(60 if not thorough else 1500):
            body = bytes(rng.choice(pats) | 0x80 for _ in range(ln - 1)) + bytes([rng.choice(pats) & 0x7F if rng.chance(4, 5) else rng.choice(pats)])
            add(body, "v64-len%d" % ln)
            add(body + rng.bytes(rng.range(0, 3)), "v64-len%d-tail" % ln)
            add(body + rng.bytes(10), "v64-len%d-fast" % ln)
    if thorough:
        for a in range(256):
            for b in range(256):
                add(bytes([a, b]), "v64-2byte")
                add(bytes([a, b]) + bytes([0x80] * 8), "v64-2byte-fast")
    # encoder: every power-of-two boundary
    for x in BOUNDARY["uint64"]:
        e = ref_varint(x)
        out.append(Case("v64e %d" % x, "v64e %d" % x, "%s sz=%d" % (e.hex(), len(e)), "v64e"))
        stats["v64e"] += 1
        add(e, "v64-roundtrip")
        add(e + bytes(10), "v64-roundtrip-fast")
    for x in BOUNDARY["int64"]:
        out.append(Case("zz %d" % x, "zz %d" % x, "%d" % ref_zigzag(x), "zigzag"))
        z = ref_zigzag(x)
        out.append(Case("uzz %d" % z, "uzz %d" % z, "%d" % x, "unzigzag"))
        stats["zigzag"] += 2
    return out


def tag_cases(rng, stats):
    out = []
    nums = [1, 2, 15, 16, 2047, 2048, 18999, 20000, 262143, 262144, 2**25 - 1, 2**25, 2**29 - 1]
    for n in nums:
        for wt in (0, 1, 2, 5):
            e = ref_tag(n, wt)
            out.append(Case("tage %d %d" % (n, wt), "tage %d %d" % (n, wt), "%s sz=%d" % (e.hex(), len(e)), "tage"))
            out.append(Case("tagd " + e.hex() + "ab", "tagd " + e.hex() + "ab", "ok %d %d rest=ab" % (n, wt), "tagd"))
            stats["tag"] += 2
    for raw, exp in [(0, "invalid-field-number"), (7, "invalid-field-number"), (19000 << 3, "invalid-field-number"),
                     (19999 << 3 | 2, "invalid-field-number"), (8 | 3, "unhandled-wire-type"), (8 | 4, "unhandled-wire-type"),
                     (8 | 6, "unhandled-wire-type"), (8 | 7, "unhandled-wire-type"), (3, "invalid-field-number"),
                     (2**32, "tag-too-large"), (2**32 + 8, "tag-too-large"), (2**64 - 1, "tag-too-large"), (2**32 - 1, "unhandled-wire-type"),
                     (2**32 - 8, "ok"), (18999 << 3, "ok"), (20000 << 3 | 5, "ok")]:
        e = ref_varint(raw)
        x = "err " + exp if exp != "ok" else "ok %d %d rest=" % (raw >> 3, raw & 7)
        out.append(Case("tagd " + e.hex(), "tagd " + e.hex(), x, "tagd-edge"))
        stats["tag"] += 1
    for _ in range(300):
        b = rng.bytes(rng.range(0, 12))
        out.append(Case("tagd " + b.hex(), "tagd " + b.hex(), None, "tagd-random"))
        stats["tag"] += 1
    return out


def scalar_cases(rng, thorough, stats):
    out = []
    for kind in SCALARS:
        vals = []
        if kind == "float":
            vals = list(F32_SPECIAL)
        elif kind == "double":
            vals = list(F64_SPECIAL)
        elif kind in RANGE:
            vals = list(BOUNDARY[kind])
        vals += [gen_scalar(rng, kind) for _ in range(40 if not thorough else 400)]
        if kind in ("bytes", "string"):
            vals += [gen_scalar(rng, kind, big=True) for _ in range(2)]
        for v in vals:
            e = ref_scalar(kind, v)
            vt = val_text(v)
            out.append(Case("sc %s %s" % (kind, vt), "sc %s %s" % (kind, vt), "%s sz=%d rt=ok %srest=" % (e.hex(), len(e), vt), "sc-" + kind))
            stats["sc"] += 1
            # the same bytes with a tail, truncated, and damaged
            for _ in range(2):
                b = bytearray(e + rng.bytes(rng.range(0, 3)))
                c = rng.below(4)
                if c == 0:
                    b = b[:rng.below(len(b) + 1)]
                elif c == 1 and b:
                    b[rng.below(len(b))] ^= 1 << rng.below(8)
                elif c == 2 and b:
                    b[rng.below(min(len(b), 3))] = rng.choice([0x80, 0xFF, 0x7F, 0x00, 16, 17, 32, 33, 64, 65])
                if len(b) < 400:
                    out.append(Case("scd %s %s" % (kind, bytes(b).hex()), "scd %s %s" % (kind, bytes(b).hex()), None, "scd-" + kind))
                    stats["scd"] += 1
        # foreign varints: values of the wider types decoded as the narrower ones
        if WT[kind] == 0:
            for x in BOUNDARY["uint64"]:
                e = ref_varint(x)
                out.append(Case("scd %s %s" % (kind, e.hex()), "scd %s %s" % (kind, e.hex()), None, "scd-foreign-" + kind))
                stats["scd"] += 1
    # invalid UTF-8 of every shape
    bad = [b"\x80", b"\xc0\x80", b"\xc1\xbf", b"\xe0\x80\x80", b"\xe0\x9f\xbf", b"\xed\xa0\x80", b"\xed\xbf\xbf", b"\xf0\x80\x80\x80",
           b"\xf0\x8f\xbf\xbf", b"\xf4\x90\x80\x80", b"\xf5\x80\x80\x80", b"\xff", b"\xc2", b"\xe1\x80", b"\xf1\x80\x80", b"a\xc2", b"\xc2\x41",
           b"\xe1\x41\x80", b"\xe1\x80\x41", b"\xf1\x80\x80\x41", b"\xf8\x88\x80\x80\x80", b"\xfe", b"\xef\xbf\xbf", b"\xf4\x8f\xbf\xbf", b"\xee\x80\x80"]
    for s in bad:
        e = ref_varint(len(s)) + s
        out.append(Case("scd string " + e.hex(), "scd string " + e.hex(), None, "scd-utf8"))
        stats["scd"] += 1
    for _ in range(300 if not thorough else 20000):
        s = bytes(rng.choice([0x41, 0x7F, 0x80, 0x8F, 0x90, 0x9F, 0xA0, 0xBF, 0xC0, 0xC1, 0xC2, 0xDF, 0xE0, 0xE1, 0xEC, 0xED, 0xEE, 0xEF, 0xF0, 0xF1, 0xF3, 0xF4, 0xF5, 0xFF]) for _ in range(rng.range(1, 5)))
        e = ref_varint(len(s)) + s
        try:
            s.decode("utf-8")
            exp = "ok x%s rest=" % s.hex()
        except UnicodeDecodeError:
            exp = "err string-encoding"
        out.append(Case("scd string " + e.hex(), "scd string " + e.hex(), exp, "scd-utf8"))
        stats["scd"] += 1
    return out


def message_cases(rng, n_values, n_mut, stats):
    out = []
    names = list(TYPES.keys())
    # boundary sweeps: every power-of-two boundary in every integer field, every float special value
    for name in ("Ints", "Fixeds", "Wide", "Opts", "Reps"):
        m = TYPES[name]
        for i, (num, c, ty) in enumerate(m[1]):
            if is_msg(ty) or ty not in RANGE:
                continue
            vals = BOUNDARY[ty] if ty not in ("float", "double") else (F32_SPECIAL if ty == "float" else F64_SPECIAL)
            base = default_fields(m[1])
            for x in vals:
                v = list(base)
                v[i] = x if c == "p" else [x]
                out.append(enc_case(name, v, "enc-boundary-" + name))
                stats["enc_boundary"] += 1
    for k in range(n_values):
        name = names[k % len(names)]
        m = TYPES[name]
        v = gen_msg(rng, m, big=(k % 997 == 996))
        out.append(enc_case(name, v, "enc-" + name))
        stats["enc"] += 1
        body = ref_msg(m, v)
        if len(body) > 4000:
            continue
        known = known_numbers(m)
        if m[0] == "S" and m[1] and k % 3 == 0:
            # a later occurrence of a field: last one wins (plain, optional), or is appended (repeated)
            i = rng.below(len(m[1]))
            num, c, ty = m[1][i]
            x = gen_ty(rng, ty, 1)
            v2 = list(v)
            v2[i] = x if c == "p" else [x] if c == "o" else list(v[i]) + [x]
            out.append(dec_case(name, body + ref_field(num, ty, x), "dec-later-occurrence-" + name,
                                None if has_non_utf8_path(m, v2) or has_non_utf8_path(m, v) else ok_text(v2)))
            stats["dec_later_occurrence"] += 1
        for _ in range(n_mut):
            b, kind, preserving = mutate(rng, body, known, stats)
            exp = None
            if preserving and m[0] == "S" and not has_non_utf8_path(m, v):
                exp = ok_text(v)
                stats["dec_value_preserving"] += 1
            reader = name
            if not preserving and rng.chance(1, 6):
                reader = rng.choice(names)      # the bytes of one type read as another
                stats["dec_cross_type"] += 1
            out.append(dec_case(reader, b, "dec-%s-%s" % (kind, reader), exp))
            stats["dec"] += 1
    # schema evolution: a newer writer, an older reader
    for k in range(max(30, n_values // 6)):
        w, r = EVOLUTION[k % len(EVOLUTION)]
        v = gen_msg(rng, TYPES[w])
        body = ref_msg(TYPES[w], v)
        try:
            exp = ok_text(project(TYPES[r], TYPES[w], v))
        except ValueError:
            exp = None
        out.append(dec_case(r, body, "evolve-%s-as-%s" % (w, r), exp))
        stats["dec_evolution"] += 1
    return out


def exhaustive_cases(rng, thorough, stats):
    out = []
    names = list(TYPES.keys())
    for name in names:
        out.append(dec_case(name, b"", "exh0-" + name))
        for a in range(256):
            out.append(dec_case(name, bytes([a]), "exh1-" + name))
            stats["dec_exhaustive"] += 1
    two = ["Wide", "HasChoice"] if not thorough else names
    for name in two:
        step = 1 if thorough or name == "Wide" else 3
        for a in range(0, 256, step):
            for b in range(256):
                out.append(dec_case(name, bytes([a, b]), "exh2-" + name))
                stats["dec_exhaustive"] += 1
    if thorough:
        # three bytes: a tag, then every two-byte continuation, for the types with nested shapes
        for name in ("HasChoice", "Res", "Choice", "E2", "Deep"):
            for a in (0x08, 0x0A, 0x0D, 0x09, 0x12, 0x1A, 0x22, 0x2A, 0x10):
                for b in range(256):
                    for c in range(0, 256, 5):
                        out.append(dec_case(name, bytes([a, b, c]), "exh3-" + name))
                        stats["dec_exhaustive"] += 1
    return out


def opaque_cases(rng, n, stats):
    """Result<Inner, SError>: not modelled; direct oracle only (round trip in the harness, no panic)"""
    out = []
    codes = ["success", "string-encoding", "buffer-too-short", "varint-overflow", "wrong-length", "invalid-field-number", "unknown-discriminant"]
    for k in range(n):
        if rng.chance(1, 2):
            v = [V(0, gen_msg(rng, INNER))]
        else:
            v = [V(1, rng.choice(codes).encode())]
        out.append(Case("enc ResS " + val_text(v), None, None, "opaque-enc", needs_rt=True))
        stats["opaque"] += 1
    return out


def decl_desc(js):
    """JSON shape of tools/shapes.py -> the description format of this module"""
    def ty(t):
        return t if isinstance(t, str) else ("M", t[1]) if t[0] == "M" else ("R", t[1], t[2])

    def flds(fs):
        return [(f[0], f[1], ty(f[2])) for f in fs]

    if js[0] == "S":
        return ("S", flds(js[1]))
    vs = []
    for v in js[1]:
        vs.append(("u", v[1]) if v[0] == "u" else ("o", v[1], ty(v[2])) if v[0] == "o" else ("n", v[1], flds(v[2])))
    return ("E", vs)


def desc_problems(m):
    """the side conditions of the theorems (msg_wf), on the description: duplicate / invalid field numbers"""
    out = []

    def nums_ok(nums, where):
        if len(set(nums)) != len(nums):
            out.append("%s: duplicate field number in %s" % (where, sorted(nums)))
        for n in nums:
            if n < 1 or n > 2**29 - 1 or 19000 <= n <= 19999:
                out.append("%s: invalid field number %d" % (where, n))

    def go(m, where):
        if m[0] == "S":
            nums_ok([f[0] for f in m[1]], where)
            for f in m[1]:
                if is_msg(f[2]) and f[2][0] == "M":
                    pass
        elif m[0] == "E":
            nums_ok([v[1] for v in m[1]], where)
            for v in m[1]:
                if v[0] == "n":
                    nums_ok([f[0] for f in v[2]], where + " variant %d" % v[1])
    go(m, "")
    return out


def declared_cases(rng, shapes, n_values, n_mut, stats, info):
    """values generated from the SHAPES the repository declares (tools/shapes.py), for the types the
    harness reaches: the real type decodes the reference encoding and encodes it again"""
    out = []
    DECL.clear()
    for key, t in shapes["types"].items():
        DECL[key] = decl_desc(t["shape"])
    reached = []
    for key, t in sorted(shapes["types"].items()):
        r = reachable(key, t)
        probs = desc_problems(DECL[key])
        if probs:
            info["shape_problems"][key] = probs
        if r is None:
            continue
        rname = "sst::%s" % r[1] if r[0] == "sst" else "prototk::%s::%s" % (r[1], r[2])
        reached.append(rname)
        m = DECL[key]
        st = schema_text(m)
        known = known_numbers(m)
        for k in range(n_values):
            v = gen_msg(rng, m)
            body = ref_msg(m, v)
            if len(body) > 3000:
                continue
            exp = "ok %s rest=" % body.hex()
            out.append(Case("repack %s %s" % (rname, body.hex()), "repack %s; %s" % (st, body.hex()), exp, "decl-roundtrip-" + rname))
            stats["decl_roundtrip"] += 1
            if m[0] == "E":
                tail = rng.bytes(rng.range(1, 4))
                out.append(Case("repack %s %s" % (rname, (body + tail).hex()), "repack %s; %s" % (st, (body + tail).hex()),
                                "ok %s rest=%s" % (body.hex(), tail.hex()), "decl-rest-" + rname))
                stats["decl_roundtrip"] += 1
            for _ in range(n_mut):
                b, kind, preserving = mutate(rng, body, known, stats)
                if len(b) > 4000:
                    continue
                if preserving and m[0] == "S":
                    out.append(Case("repack %s %s" % (rname, b.hex()), "repack %s; %s" % (st, b.hex()), exp, "decl-%s-%s" % (kind, rname)))
                    stats["decl_value_preserving"] += 1
                elif t["default_like_model"]:
                    out.append(Case("repack %s %s" % (rname, b.hex()), "repack %s; %s" % (st, b.hex()), None, "decl-%s-%s" % (kind, rname)))
                    stats["decl_mutated"] += 1
                else:
                    # the type's own Default impl is not the model's: only "no panic" is checked
                    out.append(Case("repack %s %s" % (rname, b.hex()), None, None, "decl-nopanic-%s-%s" % (kind, rname)))
                    stats["decl_mutated_nopanic"] += 1
    info["reached"] = reached
    return out


def corpus_cases():
    d = os.path.join(vlib.VERIF, "corpus", "C15")
    out = []
    if os.path.isdir(d):
        for fn in sorted(os.listdir(d)):
            if fn.endswith(".json"):
                with open(os.path.join(d, fn)) as fh:
                    c = json.load(fh)
                cs = Case(c["impl"], c.get("model"), c.get("expect"), "corpus:" + fn)
                cs.known = c.get("known")
                out.append(cs)
    return out


def run_lines(exe, lines, workdir, tag):
    p = os.path.join(workdir, tag + ".in")
    with open(p, "w") as fh:
        fh.write("\n".join(lines) + "\n")
    # the extracted model recurses on list structure: give it the whole stack (a 100 KB string
    # overflowed the default 8 MB and killed the driver - a machinery error, not a verdict)
    rc, out = vlib.sh("ulimit -s unlimited 2>/dev/null || ulimit -s 1000000; %s < %s" % (exe, p), timeout=3000)
    res = out.split("\n")
    if res and res[-1] == "":
        res.pop()
    return rc, res


WT_IMPL_RE = re.compile(r"impl(?:<[^>]*>)?\s+FieldType<[^>]*>\s+for\s+(\w+)(?:<[^>]*>)?\s*\{\s*const\s+WIRE_TYPE\s*:\s*WireType\s*=\s*WireType::(\w+)\s*;")


def gen_wire_types():
    """re-extract the WIRE_TYPE of every field type and the numbers of WireType::{new, tag_bits}
    from the source into coq/theories/Wire/GenWT.v (rewritten only when its text changes)"""
    with open(os.path.join(vlib.REPO, "prototk/src/field_types.rs")) as fh:
        ft = fh.read()
    with open(os.path.join(vlib.REPO, "prototk/src/lib.rs")) as fh:
        lib = fh.read()
    table = dict(WT_IMPL_RE.findall(ft))
    bits = dict(re.findall(r"WireType::(\w+)\s*=>\s*(\d+)\s*,", lib))
    news = dict((b, a) for a, b in re.findall(r"(\d+)\s*=>\s*Ok\(WireType::(\w+)\)", lib))
    ctor = {"Varint": "WVarint", "SixtyFour": "WSixtyFour", "LengthDelimited": "WLengthDelimited", "ThirtyTwo": "WThirtyTwo"}
    coqname = {"int32": "Int32", "int64": "Int64", "uint32": "UInt32", "uint64": "UInt64", "sint32": "SInt32", "sint64": "SInt64",
               "fixed32": "Fixed32", "fixed64": "Fixed64", "sfixed32": "SFixed32", "sfixed64": "SFixed64", "float": "Float",
               "double": "Double", "Bool": "Bool_", "bytes": "Bytes", "bytes16": "Bytes16", "bytes32": "Bytes32", "bytes64": "Bytes64",
               "string": "String_"}
    problems = []
    lines = ["(* GENERATED by checks/c15.py from /repo's working tree on every run. DO NOT EDIT. *)",
             "(* prototk/src/field_types.rs :: `const WIRE_TYPE` of every field type; prototk/src/lib.rs :: WireType::{new, tag_bits} *)",
             "From Coq Require Import NArith List.", "From Blue Require Import Wire.Model.", "Import ListNotations.", "Open Scope N_scope.", ""]
    rows = []
    for k in SCALARS:
        if k not in table or table[k] not in ctor:
            problems.append("no WIRE_TYPE found for field type %s" % k)
            continue
        rows.append("(%s, %s)" % (coqname[k], ctor[table[k]]))
    # PathBuf under `string` is the field type `string` with another native type: the same WIRE_TYPE
    if table.get("string") in ctor:
        rows.append("(StringPath, %s)" % ctor[table["string"]])
    if table.get("message") != "LengthDelimited":
        problems.append("message WIRE_TYPE is %r" % table.get("message"))
    lines.append("Definition SRC_WIRE_OF : list (scalar * wiretype) := [%s]." % "; ".join(rows))
    brow, nrow = [], []
    for r, c in ctor.items():
        if r not in bits or r not in news:
            problems.append("WireType::%s not found in tag_bits/new" % r)
            continue
        brow.append("(%s, %s)" % (c, bits[r]))
        nrow.append("(%s, %s)" % (news[r], c))
    lines.append("Definition SRC_TAG_BITS : list (wiretype * N) := [%s]." % "; ".join(brow))
    lines.append("Definition SRC_WT_NEW : list (N * wiretype) := [%s]." % "; ".join(sorted(nrow)))
    text = "\n".join(lines) + "\n"
    p = os.path.join(vlib.THEORIES, "Wire", "GenWT.v")
    old = open(p).read() if os.path.exists(p) else None
    if old != text:
        with open(p, "w") as fh:
            fh.write(text)
    return problems


HARNESS_GEN = os.path.join(vlib.VERIF, "harness", "src", "c15_gen")
SHAPE_PREFIX_RE = re.compile(r"^shape_(tests_[a-z_0-9]+?)_([A-Z][A-Za-z0-9_]*)$")


def run_shapes():
    """tools/shapes.py --json: the declared message shapes (also regenerates Gen/Shapes_*.v)"""
    rc, out = vlib.sh([sys.executable, os.path.join(vlib.VERIF, "tools", "shapes.py"), "--json"])
    if rc != 0:
        return None, out[-1500:]
    for ln in reversed(out.strip().splitlines()):
        if ln.startswith("{"):
            return json.loads(ln), ""
    return None, "no JSON in the translator's output"


def reachable(key, info):
    """how the harness reaches a declared type: ('sst', Type) through sst::verif_repack, ('pt', stem, Type)
    through the included copy of prototk's test declarations, or None"""
    crate, coq = key.split("::")
    if crate == "sst" and info["path"].startswith("sst/src/"):
        return ("sst", info["rust"])
    if crate == "prototk" and info["path"].startswith("prototk/tests/"):
        return ("pt", os.path.basename(info["path"])[:-3], info["rust"])
    return None


def gen_harness_arms(shapes):
    """harness/src/c15_gen/: the declarations of prototk's test files (verbatim but for the `extern
    crate` lines, which are only legal at a crate root) and one dispatch arm per expressible type"""
    os.makedirs(HARNESS_GEN, exist_ok=True)
    files = {}
    by_stem = {}
    for key, info in sorted(shapes["types"].items()):
        r = reachable(key, info)
        if r and r[0] == "pt":
            by_stem.setdefault(r[1], []).append(r[2])
    arms = ["// GENERATED by checks/c15.py from /repo's working tree on every run. DO NOT EDIT.",
            "// prototk's test declarations, included so that the real derive macro expands them here"]
    tests_dir = os.path.join(vlib.REPO, "prototk", "tests")
    for stem in sorted(by_stem):
        with open(os.path.join(tests_dir, stem + ".rs")) as fh:
            src = fh.read()
        src = re.sub(r"(?m)^\s*(#\[macro_use\]\s*)?extern\s+crate\s+[A-Za-z_0-9]+\s*;\s*$", "", src)
        src = re.sub(r"(?m)^\s*#\[macro_use\]\s*$", "", src)
        if not re.search(r"(?m)^\s*use\s+prototk_derive::Message\s*;", src):
            src = "use prototk_derive::Message;\n" + src
        files["pt_%s.rs" % stem] = "// GENERATED copy of prototk/tests/%s.rs (extern crate lines removed). DO NOT EDIT.\n" % stem + src
        arms.append("#[allow(warnings)]\nmod pt_%s {\n    include!(\"pt_%s.rs\");\n    pub fn repack(name: &str, buf: &[u8]) -> Option<Result<(Vec<u8>, usize), String>> {\n        match name {" % (stem, stem))
        for t in sorted(set(by_stem[stem])):
            arms.append("            \"%s\" => Some(crate::repack_as::<%s>(buf))," % (t, t))
        arms.append("            _ => None,\n        }\n    }\n}")
    arms.append("pub fn gen_repack(file: &str, name: &str, buf: &[u8]) -> Option<Result<(Vec<u8>, usize), String>> {\n    match file {")
    for stem in sorted(by_stem):
        arms.append("        \"%s\" => pt_%s::repack(name, buf)," % (stem, stem))
    arms.append("        _ => None,\n    }\n}")
    files["arms.rs"] = "\n".join(arms) + "\n"
    for fn, text in files.items():
        p = os.path.join(HARNESS_GEN, fn)
        old = open(p).read() if os.path.exists(p) else None
        if old != text:
            with open(p, "w") as fh:
                fh.write(text)
    for fn in os.listdir(HARNESS_GEN):
        if fn not in files:
            os.remove(os.path.join(HARNESS_GEN, fn))


def classify(line):
    if line is None:
        return "none"
    if line.startswith("PANIC"):
        return "PANIC"
    m = re.search(r"(?:^| rt=)(ok|err [a-z-]+)", line)
    return m.group(1) if m else "other"


def run(chk):
    wt_problems = gen_wire_types()
    shapes, shapes_err = run_shapes()
    if shapes is not None:
        gen_harness_arms(shapes)
    ok_proof, info = vlib.proof_stage(chk, PROPS, MODULE, const_areas=("Wire",), pins_rel="pins/C15.v")
    for p in wt_problems:
        info["broken"].append("wire-type extractor: " + p)
        ok_proof = False
    if shapes is None:
        info["broken"].append("shape translator (tools/shapes.py) failed: " + shapes_err)
        ok_proof = False
        shapes = {"types": {}, "inexpressible": {}, "notes": [], "crates": {}}

    okx, outx = vlib.coq_make(["theories/Wire/Extract.vo"])
    okm, outm, mx = vlib.ocaml_build("wire", "mx_wire")
    okh, outh, (hxbin,) = vlib.cargo_build(["c15"])
    if not (okx and okm):
        raise RuntimeError("model build failed:\n" + outx[-1500:] + outm[-1500:])
    if not okh:
        raise RuntimeError("harness build failed (does /repo still compile?):\n" + outh[-3000:])

    thorough = chk.tier != "quick"
    rng = vlib.Rng(chk.seed * 1000003 + 15)
    keys = ["v64d", "v64e", "zigzag", "tag", "sc", "scd", "enc", "enc_boundary", "dec", "dec_value_preserving", "dec_cross_type",
            "dec_evolution", "dec_later_occurrence", "dec_exhaustive", "opaque", "mut_truncate", "mut_extend", "mut_bitflip", "mut_setbyte", "mut_insert",
            "mut_nonminimal_tag", "mut_nonminimal_varint", "mut_unknown_field", "mut_bad_number_or_wiretype", "mut_duplicate_field",
            "mut_swap_fields", "mut_nested", "mut_length", "mut_random",
            "decl_roundtrip", "decl_value_preserving", "decl_mutated", "decl_mutated_nopanic"]
    stats = {k: 0 for k in keys}
    cases = corpus_cases()
    ncorpus = len(cases)
    cases += varint_cases(rng.fork(), thorough, stats)
    cases += tag_cases(rng.fork(), stats)
    cases += scalar_cases(rng.fork(), thorough, stats)
    mal = rng.fork()          # the malformed stream has its own generator
    cases += message_cases(mal, 7000 if not thorough else 40000, 8 if not thorough else 12, stats)
    cases += exhaustive_cases(rng.fork(), thorough, stats)
    cases += opaque_cases(rng.fork(), 200 if not thorough else 5000, stats)
    decl_info = {"shape_problems": {}, "reached": []}
    cases += declared_cases(rng.fork(), shapes, 40 if not thorough else 1500, 4 if not thorough else 8, stats, decl_info)

    rc1, impl_out = run_lines(hxbin, [c.impl for c in cases], chk.work, "impl")
    mcases = [c for c in cases if c.model is not None]
    rc2, model_out_m = run_lines(mx, [c.model for c in mcases], chk.work, "model")
    if len(impl_out) != len(cases) or len(model_out_m) != len(mcases):
        raise RuntimeError("output line count mismatch impl=%d/%d model=%d/%d" % (len(impl_out), len(cases), len(model_out_m), len(mcases)))
    model_out = {}
    for c, mo in zip(mcases, model_out_m):
        model_out[id(c)] = mo

    prop_bad, corr_bad = [], []
    outcome = {}
    distinct = set()
    sizes = {"<=2": 0, "3-16": 0, "17-128": 0, ">128": 0}
    for c, io in zip(cases, impl_out):
        mo = model_out.get(id(c))
        cls = classify(io)
        outcome[cls] = outcome.get(cls, 0) + 1
        arg = c.impl.split(" ")[-1] if c.impl.startswith(("dec", "v64d", "tagd", "scd")) else ""
        n = len(arg) // 2
        sizes["<=2" if n <= 2 else "3-16" if n <= 16 else "17-128" if n <= 128 else ">128"] += 1
        if n > 2 or c.impl.startswith(("enc", "sc ")):
            distinct.add(c.impl)
        rec = {"tag": c.tag, "impl_line": c.impl, "model_line": c.model, "impl_out": io, "model_out": mo, "spec_out": c.expect}
        if c.known and io == c.expect and mo == io:
            # the known failure, exactly as the class says (bytes standard, unpack is string-encoding)
            chk.known(c.known, "a PathBuf under field type `string` whose bytes are not UTF-8 packs but does not unpack (string-encoding)")
            continue
        if "PANIC" in io or "DIFFERS" in io:
            rec["what"] = "the implementation panicked" if "PANIC" in io else "pack into a slice / stream differs from to_vec"
            prop_bad.append(rec)
        elif c.expect is not None and io != c.expect:
            rec["what"] = "implementation output differs from the independent reference (wire format / round trip / skipped unknown fields)"
            prop_bad.append(rec)
        elif c.needs_rt and " rt=ok " not in io:
            rec["what"] = "round trip of an unmodelled shape failed"
            prop_bad.append(rec)
        elif mo is not None and io != mo:
            corr_bad.append(rec)

    chk.coverage.update({
        "evaluations": len(cases), "distinct_nontrivial": len(distinct),
        "rule": "cases from one SplitMix64 seed (the malformed stream from its own fork): raw varints of every length 1..12 on the slow (bare) and fast (padded) paths, tags, zig-zag, every scalar field type at every power-of-two boundary / float special value plus damaged encodings, values of 30 message types (every field type, Option/Vec/Box, nested, enums with unit/unnamed/named variants, Result) encoded and decoded, 16 kinds of structure-aware mutation of valid encodings, newer-writer/older-reader pairs, all byte strings of length <= 1 for every type and of length 2 for two types; non-trivial = an encoding case, or a decoding case of more than two bytes; distinct = distinct case lines",
        "samples": [c.impl[:300] for c in (cases[ncorpus + 5], cases[len(cases) // 2], cases[-300])],
        "input_distribution": {"ops": stats, "impl_outcomes": outcome, "decode_input_sizes": sizes},
        "corpus_cases": ncorpus,
        "declared_shapes": {
            "translator": "tools/shapes.py (run by vlib.gen_constants on every build and by this check)",
            "types_expressed": len(shapes["types"]), "per_crate": shapes["crates"],
            "not_expressible": shapes["inexpressible"], "notes": shapes["notes"],
            "side_condition_problems": decl_info["shape_problems"],
            "reached_by_harness": decl_info["reached"],
            "instantiated_in": "coq/theories/Wire/Instances.v (declared_roundtrip, declared_unpack_total, declared_skip_unknown, declared_reads_newer over Gen.Shapes_all.all_shapes); per type `shape_<T>_wf` in Gen/Shapes_<crate>.v",
        },
        "correspondence": "impl (Rust, release + overflow-checks + debug-assertions) vs extracted Coq model vs independent Python reference of the wire format, 3-way",
        "disagreements_impl_vs_model": len(corr_bad), "disagreements_impl_vs_spec": len(prop_bad),
        "trusted_base": [
            "Coq 8.16.1 kernel (coqc, full .vo build); vm_compute used for finite byte-table facts and witnesses",
            "tools/constants.py (field-number limits) and the WIRE_TYPE / WireType::new / tag_bits extractor in checks/c15.py (Wire/GenWT.v)",
            "tools/shapes.py: the translator from #[derive(Message)] declarations to Gen/Shapes_<crate>.v (trusted for: the shape is the declaration; it mirrors which Rust types are containers / native byte strings; compared with the real derive on the sst and prototk-test types by the repack runs)",
            "sst::verif_repack (hook, cfg(blue_verif)) and harness/src/c15_gen/ (generated: prototk's test declarations minus `extern crate` lines, one dispatch arm per declared type)",
            "extraction via ExtrOcamlBasic (no Extract Constant of ours) + ocaml/wire/mx_wire.ml driver (schema / value text parsers)",
            "harness/src/bin/c15.rs: the derived type family, its Default impls and its value text; checks/c15.py mirrors the declarations by hand",
            "the derive macro's expansion is exercised through the type family and compared with the generic model encoder / decoder, not verified",
            "std::str::from_utf8 is modelled by Wire.Model.utf8_ok (Unicode table 3-7) and compared on generated strings",
        ],
    })
    chk.assumptions = ["message shapes are trees: a type that contains itself is outside the model and the theorems (known class recursive-type-depth); lengths are below 2^64",
                       "Default of an enum is its first variant with a default payload, of a Result field Ok(default) (the harness types' choice)"]

    # known class: a message type that contains itself recurses as deep as the input nests; the
    # probe runs in its own process because a stack overflow aborts it (nothing to catch)
    probe_depth = 60000
    rcp, outp = vlib.sh([hxbin], stdin=("deep %d\n" % probe_depth).encode(), timeout=120)
    lastp = [ln for ln in outp.strip().split("\n") if ln][-1:] or [""]
    if rcp == 0 and lastp[0].startswith(("ok depth=%d" % probe_depth, "err ")):
        probe = lastp[0]
    elif "overflowed its stack" in outp or rcp in (-6, -11, 134, 139):
        probe = "stack overflow, process aborted (rc=%d)" % rcp
        chk.known("recursive-type-depth", "decoding %d nested messages of a self-containing message type overflows the stack and aborts the process" % probe_depth)
    else:
        probe = "unexpected: rc=%d %s" % (rcp, lastp[0][:200])
        prop_bad.append({"tag": "recursive-probe", "impl_line": "deep %d" % probe_depth, "model_line": None, "impl_out": probe,
                         "model_out": None, "spec_out": "ok depth=%d | err <code> | known stack overflow" % probe_depth,
                         "what": "the deep-nesting probe of the recursive type ended in an unexpected way"})
    chk.coverage["recursive_type_probe"] = {"depth": probe_depth, "outcome": probe}

    if prop_bad:
        b = prop_bad[0]
        by_tag = {}
        for r in prop_bad:
            by_tag[r["tag"]] = by_tag.get(r["tag"], 0) + 1
        chk.violation("c15_%s.json" % re.sub(r"[^A-Za-z0-9_-]", "_", b["tag"])[:60],
                      {"kind": "property", "what": b["what"], "case": b, "others": len(prop_bad) - 1, "failing_by_tag": dict(sorted(by_tag.items(), key=lambda kv: -kv[1])[:25]), "failing_tags": len(by_tag),
                       "replay_cmd": "echo '<impl_line>' | work/target/release/c15"})
    elif corr_bad or not ok_proof:
        chk.violation("c15_unproved.json", {"kind": "no-failing-input-found", "broken": info["broken"],
                                            "correspondence_disagreements": corr_bad[:5]}, no_input=True)


def replay(path):
    with open(path) as fh:
        obj = json.load(fh)
    print(json.dumps(obj, indent=1))
    case = obj.get("case")
    if case:
        okh, outh, (hxbin,) = vlib.cargo_build(["c15"])
        rc, out = vlib.sh([hxbin], stdin=(case["impl_line"] + "\n").encode())
        print("impl now :", out.strip())
        print("spec     :", case["spec_out"])
        print("model    :", case["model_out"])
        good = "PANIC" not in out and (case["spec_out"] is None or out.strip() == case["spec_out"])
        return 0 if good else 1
    return 1
