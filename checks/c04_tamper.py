"""Tamper and malformed-input campaigns of the C04 check, on copies of real store directories.

A case copies the directory, patches ONE thing (one hex digit of one recorded digest; one entry of
one output file, rebuilt by the real SstBuilder so that name and contents agree, with the manifest
line re-framed with a fresh crc32c; one entry changed in place; one field replaced by a malformed
string), runs the real LsmVerifier::verify once on the copy and asks the extracted model for its
verdict on the same raw fragment.  Expectations:
  * property (direct oracle): a changed digit of I/O/D/an added/a removed digest of a transaction
    that is not a roll-up, a changed O of a roll-up, and a rebuilt output file MUST be rejected;
  * correspondence: the error class of the real verifier equals the model's for every case
    (including what the verifier does not look at, C04_rollup_I_D_adds_not_checked: the I, the D and
    the added digests of a roll-up edit);
  * in-place edits of one entry of an output file (name, manifest and digests untouched) MUST be
    rejected since the verifier recomputes the setsum of every sst a transaction adds (verify_sst);
  * a modify that replaces an entry by a different entry with the SAME frame (no length prefixes in
    sst::Setsum's framing) keeps every setsum: known finding setsum-framing-collision."""
import collections
import os
import shutil

import c04_lib as L
import c04_run as R

SEP = b"--------\n"
HEXD = "0123456789abcdefABCDEF"


def framing_twins(e):
    """different puts with the same frame as e: one byte moves between key / timestamp / value"""
    k, ts, v = e
    if v is None:
        return []
    t8 = ts.to_bytes(8, "little")
    out = []
    if len(v) >= 1:
        out.append((k + t8[:1], int.from_bytes(t8[1:] + v[:1], "little"), v[1:]))
    if len(k) >= 1:
        out.append((k[:-1], int.from_bytes(k[-1:] + t8[:7], "little"), t8[7:] + v))
    return [x for x in out if x != e and L.item_of(x) == L.item_of(e)]


def split_edits(data):
    """manifest file bytes -> list of edits, each a list of raw lines (with newline, without separator)"""
    edits, cur = [], []
    for ln in data.splitlines(keepends=True):
        if ln == SEP:
            edits.append(cur)
            cur = []
        else:
            cur.append(ln)
    return edits, cur     # cur = torn tail (none on a quiescent store)


def join_edits(edits):
    return b"".join(b"".join(e) + SEP for e in edits)


def line_body(ln):
    return ln[8:-1].decode()


def raw_of_edit(lines):
    """the model's raw edit: every string hex-encoded"""
    info, adds, rms = {}, [], []
    for ln in lines:
        b = line_body(ln)
        if b[0] == "+":
            adds.append(b[1:])
        elif b[0] == "-":
            rms.append(b[1:])
        else:
            info[b[0]] = b[1:]

    def h(s):
        return s.encode().hex() if s else "-"
    # BTreeSet iteration order
    adds, rms = sorted(set(adds)), sorted(set(rms))
    return "I:%s O:%s D:%s L:%s A:%s R:%s" % (h(info["I"]) if "I" in info else "-", h(info["O"]) if "O" in info else "-",
                                              h(info["D"]) if "D" in info else "-", h(info["L"]) if "L" in info else "-",
                                              ",".join(h(a) for a in adds) or "-", ",".join(h(r) for r in rms) or "-")


def raw_of_frag(edits):
    return " | ".join(raw_of_edit(e) for e in edits)


class Campaign:
    def __init__(self, run, rng, stats):
        self.run, self.rng, self.stats = run, rng, stats
        self.problems = []
        self.known = collections.Counter()      # known-finding class -> hits
        self.root = run.root
        self.tool, self.model = run.tool, run.model
        self.n = 0

    def problem(self, kind, **kw):
        d = {"kind": kind, "phase": "tamper"}
        d.update(kw)
        self.problems.append(d)

    def candidates(self):
        """fragments the verifier will process on its next pass: numbered, above the last one it
        processed, below the newest numbered one"""
        ins = self.run.inspect()
        vs = ins.state["verify"]
        m = vs.get("M", "-")
        k = int(m.split(".")[1]) if m.startswith("MANIFEST.") else 0
        numbered = sorted(int(f[0]) for f in ins.frags["mani"] if f[0] != "cur")
        return ins, k, [i for i in numbered[:-1] if i > k]

    def model_pass(self, fid, patched):
        """the model's verdict for one verifier pass over the candidate fragments, the patched one
        in its place: ("ok",) or ("err", code).  The accumulated setsum before the first candidate
        was computed before any file was overridden (the real verifier is past those fragments)."""
        acc = self.acc0
        for g in self.cands:
            if g == fid:
                raw = raw_of_frag(patched)
            else:
                if g not in self.raw_cache:
                    edits, _ = split_edits(open(os.path.join(self.root, "mani", "MANIFEST.%d" % g), "rb").read())
                    self.raw_cache[g] = raw_of_frag(edits)
                raw = self.raw_cache[g]
            mv = self.model.cmd("v1 %s | %s" % (acc, raw)).split(" ")
            if mv[1] != "ok":
                return (mv[1], mv[2] if len(mv) > 2 else "?", g)
            acc = mv[2]
        return ("ok", acc, None)

    def one_case(self, fid, patch_fn, what, must_reject, files=None, known_class=None):
        """patch_fn(edits) -> edits' (lists of raw lines) or None; files: list of (action, name, ents, newname)"""
        src = os.path.join(self.root, "mani", "MANIFEST.%d" % fid)
        data = open(src, "rb").read()
        edits, tail = split_edits(data)
        new = patch_fn([list(e) for e in edits])
        if new is None:
            return
        self.n += 1
        dst = self.root + ".t%d" % self.n
        shutil.rmtree(dst, ignore_errors=True)
        shutil.copytree(self.root, dst)
        try:
            with open(os.path.join(dst, "mani", "MANIFEST.%d" % fid), "wb") as fh:
                fh.write(join_edits(new))
            self.model.cmd("reset")
            for action, name, ents, newname in files or []:
                # where the file lives in the copy
                where = "sst" if os.path.exists(os.path.join(dst, "sst", name + ".sst")) else "trash"
                old = os.path.join(dst, where, name + ".sst")
                tmp = os.path.join(dst, "tmp", "tamper.sst")
                b = self.tool.cmd("build %s %s" % (tmp, " ".join(L.ent_tok(e) for e in ents)))[0].split(" ")
                if b[0] != "BUILT" or b[1] == "err":
                    self.stats["builder_refused"] += 1
                    return
                self.run.send_hashes(ents)
                if action == "replace":       # new contents under a new name (rebuilt by the real builder)
                    if b[1] != newname:
                        self.problem("property", what="SstBuilder's setsum for the rebuilt file differs from the Python computation", built=b[1], python=newname)
                    # a re-created name can live in sst/ and in trash/ at once: the file is gone from both
                    for d in ("sst", "trash"):
                        if os.path.exists(os.path.join(dst, d, name + ".sst")):
                            os.remove(os.path.join(dst, d, name + ".sst"))
                    os.rename(tmp, os.path.join(dst, where, newname + ".sst"))
                    self.model.cmd("rmfile %s" % name)
                    self.model.cmd("file %s %s" % (newname, self.run.ents_str(ents)))
                elif action == "inplace":     # new contents under the old name (both incarnations, see above)
                    other = os.path.join(dst, "trash" if where == "sst" else "sst", name + ".sst")
                    if os.path.exists(other):
                        shutil.copyfile(tmp, other)
                    os.replace(tmp, old)
                    self.model.cmd("file %s %s" % (name, self.run.ents_str(ents)))
            out = self.tool.cmd("verify %s 1 %s" % (dst, " ".join(self.run.opts)), multi=True)
            impl = out[0] if out else "NONE"
            mv = self.model_pass(fid, new)
            self.model.cmd("reset")
            self.stats["cases"] += 1
            self.stats[what.split(":")[0]] += 1
            if mv[0] == "ok":
                model_class = "ok"
            elif mv[0] == "err":
                model_class = R.MODEL_CODE_TO_IMPL.get(mv[1], mv[1])
            else:
                model_class = "PANIC"
            if impl == "PASS ok":
                impl_class = "ok"
            elif impl.startswith("PASS err "):
                impl_class = R.canon_impl_class(impl[9:])
            else:
                impl_class = impl
            replay = {"case": what, "fragment": fid, "impl": impl, "model": " ".join(str(x) for x in mv),
                      "patched_fragment": join_edits(new).decode("latin1")[-1500:]}
            accepted = impl_class == "ok"
            if impl_class.startswith("backoff"):
                # process_one backs off AFTER verify_one returned Ok for the fragment it is at: which one?
                vs = L.Inspection(self.tool.cmd("inspect %s brief" % dst, multi=True)).state["verify"]
                m = vs.get("M", "-")
                at = (int(m.split(".")[1]) if m.startswith("MANIFEST.") else 0) + 1
                if at >= fid:
                    # the tampered fragment itself was judged and found in order
                    accepted = True
                    self.stats["backoff_after_accepting"] += 1
                else:
                    # an untouched earlier fragment waits for a trash entry (C08's subject): not judged
                    self.stats["backoff_before_judging"] += 1
            if must_reject and accepted and known_class and model_class in ("ok", impl_class):
                # inside a class recorded in known_findings.txt
                self.known[known_class] += 1
            elif must_reject and accepted:
                self.problem("property", what="the verifier ACCEPTS a history with one tampered %s" % what, **replay)
            elif impl_class.startswith("backoff"):
                pass
            elif impl_class != model_class:
                self.problem("corr", what="verdict of the real verifier differs from the model's on a tampered fragment",
                             impl_class=impl_class, model_class=model_class, **replay)
            if impl_class != "ok":
                self.stats["rejected"] += 1
            else:
                self.stats["accepted"] += 1
        finally:
            shutil.rmtree(dst, ignore_errors=True)

    def crc_case(self, fid, e, field, nth, pos, newdigit, mode):
        """a damaged line that the reader must refuse: one digit of a digest changed with the line's
        crc32c LEFT ALONE (mode keepcrc), or one hex digit of the crc itself changed (mode crc).
        Both real verifiers have to reject the fragment (an error of the manifest reader is a
        rejection; that the reader refuses such a line is C13's theorem, the model's verifier takes
        parsed edits).  No model verdict."""
        src = os.path.join(self.root, "mani", "MANIFEST.%d" % fid)
        edits, tail = split_edits(open(src, "rb").read())
        if e >= len(edits):
            return
        i = self.find_line(edits[e], field, nth)
        if i is None:
            return
        ln = edits[e][i].decode()
        if mode == "keepcrc":
            at = 8 + 1 + pos
            if at >= len(ln) - 1 or ln[at].lower() == newdigit.lower():
                return
        else:
            at = pos % 8
            if ln[at].lower() == newdigit.lower():
                return
        edits[e][i] = (ln[:at] + newdigit + ln[at + 1:]).encode()
        self.n += 1
        dst = self.root + ".t%d" % self.n
        shutil.rmtree(dst, ignore_errors=True)
        shutil.copytree(self.root, dst)
        try:
            path = os.path.join(dst, "mani", "MANIFEST.%d" % fid)
            with open(path, "wb") as fh:
                fh.write(join_edits(edits))
            mv = self.tool.cmd("mv " + path)[0]
            out = self.tool.cmd("verify %s 1 %s" % (dst, " ".join(self.run.opts)), multi=True)
            impl = out[0] if out else "NONE"
            self.stats["cases"] += 1
            self.stats["crc_" + mode] += 1
            replay = {"case": "crc:%s %s of edit %d" % (mode, field, e), "fragment": fid, "impl": impl, "manifest_verifier": mv,
                      "patched_fragment": join_edits(edits).decode("latin1")[-1500:]}
            if not mv.startswith("MV err"):
                self.problem("property", what="ManifestVerifier ACCEPTS a fragment with a line that fails its crc32c", **replay)
            accepted = impl == "PASS ok"
            if "backoff" in impl:
                vs = L.Inspection(self.tool.cmd("inspect %s brief" % dst, multi=True)).state["verify"]
                m = vs.get("M", "-")
                accepted = (int(m.split(".")[1]) if m.startswith("MANIFEST.") else 0) + 1 >= fid
            if accepted:
                self.problem("property", what="LsmVerifier ACCEPTS a fragment with a line that fails its crc32c", **replay)
            else:
                self.stats["rejected"] += 1
        finally:
            shutil.rmtree(dst, ignore_errors=True)

    # ------------------------------------------------------------ patches
    @staticmethod
    def find_line(edit, prefix, nth=0):
        k = 0
        for i, ln in enumerate(edit):
            if line_body(ln).startswith(prefix):
                if k == nth:
                    return i
                k += 1
        return None

    def digit_patch(self, e, field, nth, pos, newdigit):
        def fn(edits):
            if e >= len(edits):
                return None
            i = self.find_line(edits[e], field, nth)
            if i is None:
                return None
            body = line_body(edits[e][i])
            if 1 + pos >= len(body) or body[1 + pos].lower() == newdigit.lower():
                return None     # the same digit value (a / A): not a change
            body = body[:1 + pos] + newdigit + body[2 + pos:]
            edits[e][i] = L.mani_line(body)
            return edits
        return fn

    def string_patch(self, e, field, nth, newstr):
        """replace the whole string of a line (newstr None: drop the line)"""
        def fn(edits):
            if e >= len(edits):
                return None
            i = self.find_line(edits[e], field, nth)
            if i is None:
                if field == "L" and newstr is not None:
                    edits[e].append(L.mani_line("L" + newstr))
                    return edits
                return None
            if newstr is None:
                del edits[e][i]
            else:
                edits[e][i] = L.mani_line(field + newstr)
            return edits
        return fn

    # ------------------------------------------------------------ the campaign
    def go(self, budget, exhaustive=False):
        ins, k, cands = self.candidates()
        if not cands:
            self.stats["no_candidate"] += 1
            return
        self.cands, self.raw_cache = cands, {}
        self.model.cmd("reset")
        r = self.model.cmd("verify %d" % (cands[0] - 1)).split(" ")
        if r[1] != "ok":
            self.problem("corr", what="model rejects the fragments the real verifier has already accepted", upto=cands[0] - 1, model=" ".join(r))
            return
        self.acc0 = r[2]
        rng = self.rng
        frs = {int(f[0]): f[1] for f in ins.frags["mani"] if f[0] != "cur"}
        todo = []
        for fid in cands:
            edits = frs[fid]
            for e, ed in enumerate(edits):
                fields = [("I", 0), ("O", 0), ("D", 0)] + [("+", i) for i in range(len(ed.adds))] + [("-", i) for i in range(len(ed.rms))]
                for (f, nth) in fields:
                    must = e >= 1 or f == "O"
                    todo.append(("digit", fid, e, f, nth, must))
        # digits
        # exhaustive: every digit position of a sample of fields; else one random position per pick
        picks = [rng.choice(todo) for _ in range(12 if exhaustive else budget)]
        for (_, fid, e, f, nth, must) in picks:
            positions = range(64) if exhaustive else [rng.below(64)]
            for pos in positions:
                self.one_case(fid, self.digit_patch(e, f, nth, pos, rng.choice(HEXD)),
                              "digit:%s of %s edit" % ({"+": "added digest", "-": "removed digest"}.get(f, f), "a roll-up" if e == 0 else "a transaction"), must)
        # the same digit classes with the line's crc left alone, and a damaged crc
        for (_, fid, e, f, nth, must) in [rng.choice(todo) for _ in range(max(3, budget // 3))]:
            self.crc_case(fid, e, f, nth, rng.below(64), rng.choice(HEXD), rng.choice(["keepcrc", "keepcrc", "crc"]))
        # entries of outputs
        outs = []
        for fid in cands:
            for e, ed in enumerate(frs[fid]):
                if e >= 1:
                    for i, name in enumerate(sorted(ed.adds)):
                        if name in self.run.files and self.run.files[name]:
                            outs.append((fid, e, i, name, bool(ed.rms)))
        for _ in range(budget if not exhaustive else 2 * budget):
            if not outs:
                break
            fid, e, i, name, is_compaction = rng.choice(outs)
            ents = list(self.run.files[name])
            j = rng.below(len(ents))
            kind = rng.choice(["drop", "modify-value", "modify-ts", "modify-key", "modify-framing", "dup", "inplace-drop", "inplace-value"])
            k0, ts0, v0 = ents[j]
            if kind == "modify-framing":
                # another entry with the SAME frame ([8] ++ key ++ ts_le64 ++ value has no length prefixes)
                cand = [(jj, tw) for jj, e0 in enumerate(ents) for tw in framing_twins(e0)
                        if (tw[0], tw[1]) not in set((x[0], x[1]) for x in ents)]
                if not cand:
                    self.stats["framing_no_twin"] += 1
                    continue
                jj, tw = rng.choice(cand)
                new = sorted(ents[:jj] + [tw] + ents[jj + 1:], key=R.kr_key)
                newname = L.ss_hex(L.ss_of_entries(new))
                if newname != name:
                    self.problem("corr", what="a framing twin changed the setsum (the Python rendering of the framing is wrong)")
                    continue
                self.one_case(fid, lambda edits: edits, "entry:modify-framing", True, files=[("replace", name, new, newname)],
                              known_class="setsum-framing-collision")
                continue
            if kind in ("drop", "inplace-drop"):
                if len(ents) < 2:
                    continue
                new = ents[:j] + ents[j + 1:]
            elif kind in ("modify-value", "inplace-value"):
                new = ents[:j] + [(k0, ts0, (v0 or b"") + b"\x01")] + ents[j + 1:]
            elif kind == "modify-ts":
                new = sorted(ents[:j] + [(k0, ts0 + 1000000, v0)] + ents[j + 1:], key=R.kr_key)
            elif kind == "modify-key":
                new = sorted(ents[:j] + [(k0 + b"\x00z", ts0, v0)] + ents[j + 1:], key=R.kr_key)
            else:
                new = None
            if kind == "dup":
                # an sst cannot hold one (key, timestamp) twice: the tamper exists at the digest level only
                newname = L.ss_hex(L.ss_add(L.ss_from_hex(name), L.cols_of_digest(L.item_hash(ents[j]))))
                self.one_case(fid, self._replace_add(e, name, newname), "entry:duplicate (digest level)", True)
                continue
            if kind.startswith("inplace"):
                # since /repo's verify_sst the verifier reads every sst a judged transaction adds
                self.one_case(fid, lambda edits: edits, "inplace:%s" % kind, True, files=[("inplace", name, new, name)])
                continue
            newname = L.ss_hex(L.ss_of_entries(new))
            self.one_case(fid, self._replace_add(e, name, newname), "entry:%s" % kind, True, files=[("replace", name, new, newname)])
        # malformed strings (decoding)
        bad_digests = ["", "zz" * 32, "0" * 63, "0" * 65, "G" + "0" * 63, "0" * 62 + " 0", "+0" * 32, "0" * 63 + "+", "-" + "0" * 63]
        for _ in range(max(2, budget // 2)):
            fid, = [rng.choice(cands)]
            edits = frs[fid]
            e = rng.below(len(edits))
            ed = edits[e]
            choice = rng.below(8)
            if choice <= 2:
                f = "IOD"[choice]
                s = rng.choice(bad_digests + [ed.info.get(f, "0" * 64).upper(), None])
                if s == "":
                    continue
                self.one_case(fid, self.string_patch(e, f, 0, s), "malformed:%s %s" % (f, "missing" if s is None else "string"), False)
            elif choice == 3 and ed.adds:
                s = rng.choice(bad_digests[1:])
                self.one_case(fid, self._replace_line(e, "+", rng.below(len(ed.adds)), "+" + s), "malformed:added digest", False)
            elif choice == 4 and ed.rms:
                s = rng.choice(bad_digests[1:])
                self.one_case(fid, self._replace_line(e, "-", rng.below(len(ed.rms)), "-" + s), "malformed:removed digest", False)
            else:
                s = rng.choice(["abc", "+5", "18446744073709551616", "18446744073709551615", "-1", "007", "1 ", "0x10"])
                self.one_case(fid, self.string_patch(e, "L", 0, s), "malformed:L", False)

    def _replace_add(self, e, name, newname):
        def fn(edits):
            if e >= len(edits):
                return None
            for i, ln in enumerate(edits[e]):
                if line_body(ln) == "+" + name:
                    edits[e][i] = L.mani_line("+" + newname)
                    return edits
            return None
        return fn

    def _replace_line(self, e, prefix, nth, body):
        def fn(edits):
            if e >= len(edits):
                return None
            i = self.find_line(edits[e], prefix, nth)
            if i is None:
                return None
            edits[e][i] = L.mani_line(body)
            return edits
        return fn
